//! Free-running conformance runs for C02: every corpus input under real rayon pools of
//! 1,2,3,4,8,16 threads, 3 repetitions each. Prints one JSON line per run.
#![allow(dead_code, unused_imports)]

#[path = "../../../harness/vcheck/src/ckh.rs"]
mod ckh;
#[path = "../../../harness/vcheck/src/fw.rs"]
mod fw;
#[path = "../../../harness/vcheck/src/props/c02_corpus.rs"]
mod c02_corpus;
#[path = "../../../harness/vcheck/src/refvm.rs"]
mod refvm;
#[path = "../../../harness/vcheck/src/util.rs"]
mod util;

use std::sync::Arc;

fn main() {
    fw::install_panic_hook();
    let pools: Vec<(usize, rayon::ThreadPool)> = [1usize, 2, 3, 4, 8, 16]
        .iter()
        .map(|&k| (k, rayon::ThreadPoolBuilder::new().num_threads(k).build().expect("pool")))
        .collect();
    for (name, case) in c02_corpus::checker_inputs() {
        let b = ckh::build(&case);
        for (k, pool) in &pools {
            for rep in 0..3 {
                let obs = pool.install(|| ckh::ck_obs(&case, &b));
                println!("{}", serde_json::json!({"name": name, "threads": k, "rep": rep, "obs": obs}));
            }
        }
    }
    for (name, ops, init, envk) in c02_corpus::vm_programs() {
        let env = util::ProgEnv::named(envk, util::Cost::Const(1), 100_000);
        let h = util::Holey { ops: Arc::new(ops.iter().cloned().map(Some).collect()) };
        for (k, pool) in &pools {
            for rep in 0..3 {
                let out = pool.install(|| util::run_real_with(&init, h.clone(), &env, false));
                let obs = format!("{:?}", util::sched_obs(&out));
                println!("{}", serde_json::json!({"name": name, "threads": k, "rep": rep, "obs": obs}));
            }
        }
    }
}
