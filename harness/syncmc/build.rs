//! Copies the sources of essential-vm and essential-check (and the harness modules that drive
//! them) into `src/gen/`, token-rewritten so that they compile as modules of this crate with
//! shuttle's synchronisation primitives in place of `std::sync`'s.
use std::fs;
use std::path::{Path, PathBuf};

#[derive(Clone, Debug)]
struct Tok {
    text: String,
    start: usize,
    end: usize,
}

fn is_ident_start(c: u8) -> bool {
    c == b'_' || c.is_ascii_alphabetic()
}
fn is_ident(c: u8) -> bool {
    c == b'_' || c.is_ascii_alphanumeric()
}

/// Code tokens only (comments, strings, chars and lifetimes are skipped). Also returns the spans of
/// inner doc comments / inner attributes at brace depth 0, which must be stripped.
fn lex(src: &str) -> (Vec<Tok>, Vec<(usize, usize)>) {
    let b = src.as_bytes();
    let n = b.len();
    let mut toks = vec![];
    let mut strip = vec![];
    let mut i = 0;
    let mut depth = 0i32;
    while i < n {
        let c = b[i];
        if c == b'/' && i + 1 < n && b[i + 1] == b'/' {
            let s = i;
            while i < n && b[i] != b'\n' {
                i += 1;
            }
            if src[s..i].starts_with("//!") && depth == 0 {
                strip.push((s, i));
            }
            continue;
        }
        if c == b'/' && i + 1 < n && b[i + 1] == b'*' {
            let mut d = 0;
            while i < n {
                if i + 1 < n && b[i] == b'/' && b[i + 1] == b'*' {
                    d += 1;
                    i += 2;
                } else if i + 1 < n && b[i] == b'*' && b[i + 1] == b'/' {
                    d -= 1;
                    i += 2;
                    if d == 0 {
                        break;
                    }
                } else {
                    i += 1;
                }
            }
            continue;
        }
        if c == b'"' || (c == b'b' && i + 1 < n && b[i + 1] == b'"') {
            i += if c == b'b' { 2 } else { 1 };
            while i < n && b[i] != b'"' {
                if b[i] == b'\\' {
                    i += 1;
                }
                i += 1;
            }
            i += 1;
            continue;
        }
        if c == b'r' && i + 1 < n && (b[i + 1] == b'"' || b[i + 1] == b'#') && (i == 0 || !is_ident(b[i - 1])) {
            let mut j = i + 1;
            let mut h = 0;
            while j < n && b[j] == b'#' {
                h += 1;
                j += 1;
            }
            if j < n && b[j] == b'"' {
                j += 1;
                'o: while j < n {
                    if b[j] == b'"' {
                        let mut k = 0;
                        while k < h && j + 1 + k < n && b[j + 1 + k] == b'#' {
                            k += 1;
                        }
                        if k == h {
                            j += 1 + h;
                            break 'o;
                        }
                    }
                    j += 1;
                }
                i = j;
                continue;
            }
        }
        if c == b'\'' {
            // char literal or lifetime
            if i + 2 < n && b[i + 1] == b'\\' {
                i += 2;
                while i < n && b[i] != b'\'' {
                    i += 1;
                }
                i += 1;
                continue;
            }
            if i + 2 < n && b[i + 2] == b'\'' {
                i += 3;
                continue;
            }
            // lifetime
            i += 1;
            while i < n && is_ident(b[i]) {
                i += 1;
            }
            continue;
        }
        if c == b'#' && i + 1 < n && b[i + 1] == b'!' && i + 2 < n && b[i + 2] == b'[' && depth == 0 {
            let s = i;
            let mut d = 0;
            while i < n {
                if b[i] == b'[' {
                    d += 1;
                }
                if b[i] == b']' {
                    d -= 1;
                    if d == 0 {
                        i += 1;
                        break;
                    }
                }
                i += 1;
            }
            strip.push((s, i));
            continue;
        }
        if is_ident_start(c) {
            let s = i;
            while i < n && is_ident(b[i]) {
                i += 1;
            }
            toks.push(Tok { text: src[s..i].to_string(), start: s, end: i });
            continue;
        }
        if c == b':' && i + 1 < n && b[i + 1] == b':' {
            toks.push(Tok { text: "::".into(), start: i, end: i + 2 });
            i += 2;
            continue;
        }
        if c == b'{' {
            depth += 1;
        }
        if c == b'}' {
            depth -= 1;
        }
        if !c.is_ascii_whitespace() {
            toks.push(Tok { text: (c as char).to_string(), start: i, end: i + 1 });
        }
        i += 1;
    }
    (toks, strip)
}

fn hash_on() -> bool {
    std::env::var("SYNCMC_HASH").map(|v| v != "0").unwrap_or(true)
}

/// Re-binding of a path into the standard library's synchronisation / threading modules:
/// the new leading segments and how many of the old ones they replace.
fn rebind(p: &[String]) -> Option<(&'static str, usize)> {
    let seg = |i: usize| p.get(i).map(|s| s.as_str()).unwrap_or("");
    if hash_on() && seg(0) == "std" && seg(1) == "collections" && (seg(2) == "HashMap" || seg(2) == "HashSet") {
        // std's map with a hasher whose seed the explorer owns (iteration order is an environment answer)
        return Some(("crate::sx", 2));
    }
    match (seg(0), seg(1), seg(2)) {
        ("std" | "core", "sync", "atomic") => Some(("shuttle::sync", 2)),
        ("std", "sync", "Mutex" | "MutexGuard" | "RwLock" | "RwLockReadGuard" | "RwLockWriteGuard" | "Condvar" | "Once" | "Barrier" | "mpsc") => Some(("shuttle::sync", 2)),
        ("std", "sync", "OnceLock") => Some(("crate::sx", 2)),
        ("std", "thread", _) => Some(("shuttle", 1)),
        _ => None, // Arc, Weak, LazyLock, PoisonError, ...: std's
    }
}

/// Parse a use tree starting at token `i` (after `use`), return flat paths (segments, alias) and
/// the index after the tree.
fn use_tree(toks: &[Tok], mut i: usize, prefix: Vec<String>, out: &mut Vec<(Vec<String>, Option<String>)>) -> usize {
    let mut path = prefix;
    loop {
        let t = &toks[i];
        if t.text == "{" {
            i += 1;
            loop {
                if toks[i].text == "}" {
                    i += 1;
                    break;
                }
                i = use_tree(toks, i, path.clone(), out);
                if toks[i].text == "," {
                    i += 1;
                }
            }
            return i;
        }
        path.push(t.text.clone());
        i += 1;
        if toks[i].text == "::" {
            i += 1;
            continue;
        }
        let mut alias = None;
        if toks[i].text == "as" {
            alias = Some(toks[i + 1].text.clone());
            i += 2;
        }
        out.push((path, alias));
        return i;
    }
}

fn rewrite(src: &str, self_mod: &str, crate_map: &[(&str, &str)], sync: bool) -> String {
    // `sync == false` (harness modules, the hook file): only the hash collections are re-bound
    let keep = |p: &[String]| -> bool { sync || p.get(1).map(|s| s == "collections").unwrap_or(false) };
    let (toks, strip) = lex(src);
    let mut edits: Vec<(usize, usize, String)> = strip.into_iter().map(|(s, e)| (s, e, String::new())).collect();
    let mut i = 0;
    while i < toks.len() {
        let t = &toks[i];
        let prev = if i > 0 { toks[i - 1].text.as_str() } else { "" };
        let next = toks.get(i + 1).map(|x| x.text.as_str()).unwrap_or("");
        // `use std::...` statements that mention `sync`: flatten and re-bind leaf by leaf
        if t.text == "use" && toks.get(i + 1).map(|x| x.text == "std" || x.text == "core").unwrap_or(false) {
            let mut flat = vec![];
            let end = use_tree(&toks, i + 1, vec![], &mut flat);
            if toks.get(end).map(|x| x.text == ";").unwrap_or(false) && flat.iter().any(|(p, _)| rebind(p).is_some() && keep(p)) {
                let vis_start = t.start;
                let mut text = String::new();
                for (p, alias) in flat {
                    let mut p = p;
                    if let Some((tgt, n)) = rebind(&p).filter(|_| keep(&p)) {
                        let rest = p.split_off(n);
                        p = tgt.split("::").map(|s| s.to_string()).chain(rest).collect();
                    }
                    let mut line = format!("use {}", p.join("::"));
                    if p.last().map(|s| s == "self").unwrap_or(false) {
                        // `use a::b::{self}` flattened: `use a::b`
                        line = format!("use {}", p[..p.len() - 1].join("::"));
                    }
                    if let Some(a) = alias {
                        line += &format!(" as {a}");
                    }
                    text += &line;
                    text += "; ";
                }
                edits.push((vis_start, toks[end].end, text));
                i = end + 1;
                continue;
            }
        }
        // full paths `std::sync::X`, `core::sync::atomic::X`, `std::thread::x` in code
        if (t.text == "std" || t.text == "core") && next == "::" && prev != "::" {
            let mut p = vec![t.text.clone()];
            let mut j = i + 1;
            while p.len() < 3 && toks.get(j).map(|x| x.text == "::").unwrap_or(false) && toks.get(j + 1).map(|x| is_ident_start(x.text.as_bytes()[0])).unwrap_or(false) {
                p.push(toks[j + 1].text.clone());
                j += 2;
            }
            if let Some((tgt, n)) = rebind(&p).filter(|_| keep(&p)) {
                // replace the first n segments
                edits.push((t.start, toks[i + 2 * (n - 1)].end, tgt.to_string()));
            }
        }
        // thread-locals: shuttle's threads are coroutines on one OS thread, std's TLS would be shared
        if sync && t.text == "thread_local" && next == "!" {
            if prev != "::" {
                edits.push((t.start, t.end, "shuttle::thread_local".to_string()));
            } else if i >= 2 && toks[i - 2].text == "std" {
                edits.push((toks[i - 2].start, t.end, "shuttle::thread_local".to_string()));
            }
        }
        // `crate::` -> `crate::<self_mod>::`   (never `pub(crate)`)
        if !self_mod.is_empty() && t.text == "crate" && next == "::" && prev != "::" {
            edits.push((t.end, t.end, format!("::{self_mod}")));
        }
        // other workspace crates that are copies too
        for (from, to) in crate_map {
            if t.text == *from && prev != "::" && prev != "." {
                edits.push((t.start, t.end, to.to_string()));
            }
        }
        i += 1;
    }
    edits.sort_by_key(|e| e.0);
    let mut out = String::with_capacity(src.len() + 256);
    let mut pos = 0;
    for (s, e, r) in edits {
        if s < pos {
            continue;
        }
        out.push_str(&src[pos..s]);
        // keep line structure of stripped regions
        for ch in src[s..e].chars() {
            if ch == '\n' && r.is_empty() {
                out.push('\n');
            }
        }
        out.push_str(&r);
        pos = e;
    }
    out.push_str(&src[pos..]);
    out
}

fn copy_tree(from: &Path, to: &Path, self_mod: &str, crate_map: &[(&str, &str)]) {
    fs::create_dir_all(to).unwrap();
    for e in fs::read_dir(from).unwrap() {
        let e = e.unwrap();
        let p = e.path();
        let dst = to.join(e.file_name());
        if p.is_dir() {
            copy_tree(&p, &dst, self_mod, crate_map);
        } else if p.extension().map(|x| x == "rs").unwrap_or(false) {
            println!("cargo:rerun-if-changed={}", p.display());
            let src = fs::read_to_string(&p).unwrap();
            let out = format!("// GENERATED by build.rs from {} - do not edit\n{}", p.display(), rewrite(&src, self_mod, crate_map, p.file_name().map(|f| f != "verif.rs").unwrap_or(true)));
            if fs::read_to_string(&dst).map(|old| old != out).unwrap_or(true) {
                fs::write(&dst, out).unwrap();
            }
        }
    }
}

fn main() {
    println!("cargo:rerun-if-changed=build.rs");
    let repo = std::env::var("SYNCMC_REPO").unwrap_or_else(|_| "/repo".into());
    println!("cargo:rerun-if-env-changed=SYNCMC_REPO");
    println!("cargo:rerun-if-env-changed=SYNCMC_HASH");
    println!("cargo:rustc-check-cfg=cfg(syncmc_hash)");
    if hash_on() {
        println!("cargo:rustc-cfg=syncmc_hash");
    }
    let here = PathBuf::from(std::env::var("CARGO_MANIFEST_DIR").unwrap());
    let gen = here.join("src/gen");
    // a file added to or removed from the crates must also trigger the copy
    println!("cargo:rerun-if-changed={repo}/crates/vm/src");
    println!("cargo:rerun-if-changed={repo}/crates/check/src");
    let _ = fs::remove_dir_all(&gen);
    copy_tree(&Path::new(&repo).join("crates/vm/src"), &gen.join("vm"), "vmx", &[]);
    copy_tree(&Path::new(&repo).join("crates/check/src"), &gen.join("check"), "checkx", &[("essential_vm", "crate::vmx")]);
    // harness modules, compiled against the copies
    let h = here.join("../vcheck/src");
    fs::create_dir_all(gen.join("h")).unwrap();
    for f in ["fw.rs", "refvm.rs", "util.rs", "ckh.rs", "xplore.rs", "sched.rs", "props/c02_corpus.rs"] {
        let p = h.join(f);
        println!("cargo:rerun-if-changed={}", p.display());
        let src = fs::read_to_string(&p).unwrap();
        let out = rewrite(&src, "", &[("essential_vm", "crate::vmx"), ("essential_check", "crate::checkx")], false);
        fs::write(gen.join("h").join(Path::new(f).file_name().unwrap()), out).unwrap();
    }
}
