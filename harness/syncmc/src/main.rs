//! syncmc — mode B of C02 with the checked crates' own synchronisation visible to the scheduler.
//!
//! essential-vm and essential-check are compiled here from token-rewritten copies of /repo's
//! sources (see build.rs): every `std::sync` Mutex / RwLock / Condvar / Once(Lock) / atomic /
//! mpsc operation in them is shuttle's and therefore a scheduling point, in addition to the
//! per-VM-op yield of the on_step hook and the task boundaries of the rayon stand-in.
//! The same preemption-bounded DFS scheduler as vcheck's mode B explores the schedules.
//!
//! usage: syncmc <quick|thorough> [name ...]     explore the named C02 corpus inputs (all if none)
//!        syncmc --replay <case.json>            replay one schedule twice
//! Output: one JSON object per line on stdout.
#![allow(dead_code, unused_imports, unexpected_cfgs, clippy::all)]

#[path = "gen/vm/lib.rs"]
pub mod vmx;
#[path = "gen/check/lib.rs"]
pub mod checkx;
pub mod sx;

#[path = "gen/h/fw.rs"]
pub mod fw;
#[path = "gen/h/refvm.rs"]
pub mod refvm;
#[path = "gen/h/util.rs"]
pub mod util;
#[path = "gen/h/ckh.rs"]
pub mod ckh;
#[path = "gen/h/xplore.rs"]
pub mod xplore;
#[path = "gen/h/sched.rs"]
pub mod sched;
#[path = "gen/h/c02_corpus.rs"]
pub mod c02_corpus;

use ckh::*;
use essential_asm as asm;
use fw::Tier;
use serde_json::{json, Value};
use std::rc::Rc;
use std::sync::Arc;
use util::*;
use xplore::Bounds;

fn hook(_vm: &vmx::Vm) {
    sched::maybe_yield();
}

/// The sequential (index-order) run, inside a shuttle execution (shuttle's primitives only exist
/// there): one execution, sequential oracle, never a preemption.
fn sequential_in_shuttle<O: Send + 'static>(f: impl Fn() -> O + Send + Sync + 'static) -> Result<O, String> {
    let slot: Arc<std::sync::Mutex<Option<O>>> = Default::default();
    let s2 = slot.clone();
    let mut cfg = shuttle::Config::new();
    cfg.stack_size = 1 << 19;
    cfg.max_steps = shuttle::MaxSteps::None;
    cfg.failure_persistence = shuttle::FailurePersistence::None;
    cfg.silence_warnings = true;
    let runner = shuttle::Runner::new(shuttle::scheduler::DfsScheduler::new(Some(1), false), cfg);
    let r = fw::catch(move || {
        runner.run(move || {
            let o = sched::run_sequential(|| f());
            *s2.lock().unwrap() = Some(o);
        })
    });
    rayon::sched::set_oracle(None);
    match r {
        Ok(_) => slot.lock().unwrap().take().ok_or_else(|| "no result".to_string()),
        Err((site, msg)) => Err(format!("{site}: {msg}")),
    }
}

struct Outcome {
    schedules: u64,
    capped: bool,
    seq: String,
    seen: std::collections::BTreeSet<String>,
    bad: Vec<(Vec<u32>, String)>,
}

fn explore<O: Send + 'static>(bounds: &Bounds, f: impl Fn() -> O + Send + Sync + Clone + 'static, show: impl Fn(&O) -> String) -> Outcome {
    let seq = match sequential_in_shuttle(f.clone()) {
        Ok(o) => show(&o),
        Err(e) => format!("PANIC/DEADLOCK {e}"),
    };
    let mut seen = std::collections::BTreeSet::new();
    seen.insert(seq.clone());
    let mut bad = vec![];
    let st = sched::explore_threads(vec![], bounds, f, |choices, o| {
        let got = match &o {
            Ok(o) => show(o),
            Err(e) => format!("PANIC/DEADLOCK {e}"),
        };
        if got != seq && bad.len() < 3 {
            bad.push((choices.to_vec(), got.clone()));
        }
        seen.insert(got);
    });
    Outcome { schedules: st.runs, capped: st.capped, seq, seen, bad }
}

fn ck_bounds(tier: Tier) -> Bounds {
    Bounds { sched: tier.pick(2, 3), env: 0, max_runs: tier.pick(20_000, 400_000) }
}
fn vm_bounds(tier: Tier) -> Bounds {
    Bounds { sched: tier.pick(2, 3), env: 0, max_runs: tier.pick(20_000, 400_000) }
}

fn emit(kind: &str, name: &str, case: &Value, o: &Outcome, seeds: u64, hash_bad: &[(u64, String)]) {
    let mut v: Vec<Value> = o.bad.iter().map(|(s, g)| json!({"schedule": s, "got": g, "hash_seed": 0})).collect();
    v.extend(hash_bad.iter().map(|(seed, g)| json!({"schedule": [], "got": g, "hash_seed": seed})));
    println!(
        "{}",
        json!({"name": name, "kind": kind, "schedules": o.schedules, "capped": o.capped, "want": o.seq, "distinct": o.seen.len(), "hash_seeds": seeds, "violations": v, "case": if v.is_empty() { Value::Null } else { case.clone() }})
    );
}

/// Number of hash seeds swept (1 when the hash collections are not re-bound in this build).
fn hash_seeds(tier: Tier) -> u64 {
    if cfg!(syncmc_hash) {
        tier.pick(8, 32)
    } else {
        1
    }
}

fn ck_run(case: &CkCase) -> impl Fn() -> String + Send + Sync + Clone + 'static {
    let b = Arc::new(build(case));
    let c = Arc::new(case.clone());
    move || ck_obs(&c, &b)
}

fn vm_run(ops: &[asm::Op], init: &refvm::RVm, envk: &str) -> impl Fn() -> RealOut + Send + Sync + Clone + 'static {
    let env = ProgEnv::named(envk, Cost::Const(1), 100_000);
    let h = Holey { ops: Arc::new(ops.iter().cloned().map(Some).collect()) };
    let i2 = init.clone();
    move || run_real_with(&i2, h.clone(), &env, false)
}

fn main() {
    fw::install_panic_hook();
    sched::ALL_SWITCHES_COST.with(|a| a.set(true));
    if std::env::var("SYNCMC_OP_YIELD").is_ok() {
        vmx::verif::set_on_step(hook);
    }
    let args: Vec<String> = std::env::args().skip(1).collect();
    if args.first().map(|s| s == "--replay").unwrap_or(false) {
        std::process::exit(replay(&args[1]));
    }
    let tier = if args.first().map(|s| s == "thorough").unwrap_or(false) { Tier::Thorough } else { Tier::Quick };
    let names: std::collections::BTreeSet<String> = args.iter().skip(1).cloned().collect();
    let want = |n: &str| names.is_empty() || names.contains(n);
    // schedules, under hash seed 0 (every map any run uses is built after the seed is set)
    sx::set_hash_seed(0);
    let mut done: Vec<(&'static str, String, Value, Outcome, Vec<(u64, String)>)> = vec![];
    for (name, case) in c02_corpus::checker_inputs() {
        if want(&name) {
            let o = explore(&ck_bounds(tier), ck_run(&case), |s: &String| s.clone());
            done.push(("ck-sync", name, json!({"kind": "ck-sync", "case": case}), o, vec![]));
        }
    }
    for (name, ops, init, envk) in c02_corpus::vm_programs() {
        if want(&name) {
            let o = explore(&vm_bounds(tier), vm_run(&ops, &init, envk), |o| format!("{:?}", sched_obs(o)));
            done.push(("vm-sync", name, json!({"kind": "vm-sync", "ops_hex": ops_hex(&ops), "init": RvmSer::from(&init), "env": envk}), o, vec![]));
        }
    }
    // hash seeds: the sequential result must not depend on the iteration order of hash collections
    let seeds = hash_seeds(tier);
    for seed in 1..seeds {
        sx::set_hash_seed(seed);
        let cks: std::collections::BTreeMap<String, CkCase> = c02_corpus::checker_inputs().into_iter().collect();
        let vms: std::collections::BTreeMap<String, _> = c02_corpus::vm_programs().into_iter().map(|(n, o, i, e)| (n, (o, i, e))).collect();
        for (kind, name, _, o, bad) in done.iter_mut() {
            let got = if *kind == "ck-sync" {
                sequential_in_shuttle(ck_run(&cks[name.as_str()]))
            } else {
                let (ops, init, envk) = &vms[name.as_str()];
                sequential_in_shuttle(vm_run(ops, init, envk)).map(|o| format!("{:?}", sched_obs(&o)))
            }
            .unwrap_or_else(|e| format!("PANIC/DEADLOCK {e}"));
            if got != o.seq && bad.len() < 2 {
                bad.push((seed, got));
            }
        }
    }
    sx::set_hash_seed(0);
    for (kind, name, case, o, bad) in &done {
        emit(kind, name, case, o, seeds, bad);
    }
}

/// exit 0: schedule reproduces a result different from the sequential one; 3: does not; 2: machinery
fn replay(path: &str) -> i32 {
    let Ok(text) = std::fs::read_to_string(path) else { return 2 };
    let Ok(case) = serde_json::from_str::<Value>(&text) else { return 2 };
    let choices: Vec<u32> = match serde_json::from_value(case["schedule"].clone()) {
        Ok(c) => c,
        Err(_) => return 2,
    };
    let seed = case["hash_seed"].as_u64().unwrap_or(0);
    let run_twice = |f: &dyn Fn(&xplore::Ctx) -> String, seq: String| -> i32 {
        let mut outs = vec![];
        for _ in 0..2 {
            let ctx = xplore::Ctx::new(choices.clone());
            let o = f(&ctx);
            if ctx.diverged() {
                println!("{}", json!({"replay": "divergence"}));
                return 2;
            }
            outs.push(o);
        }
        if outs[0] != outs[1] {
            println!("{}", json!({"replay": "nondeterministic"}));
            return 2;
        }
        println!("{}", json!({"replay": "ok", "want": seq, "got": outs[0], "violates": outs[0] != seq}));
        if outs[0] != seq {
            0
        } else {
            3
        }
    };
    match case["kind"].as_str() {
        Some("ck-sync") => {
            let Ok(c) = serde_json::from_value::<CkCase>(case["case"].clone()) else { return 2 };
            sx::set_hash_seed(0);
            let seq = sequential_in_shuttle(ck_run(&c)).unwrap_or_else(|e| format!("PANIC/DEADLOCK {e}"));
            sx::set_hash_seed(seed);
            let f = ck_run(&c);
            run_twice(&|ctx| sched::run_threads(ctx, f.clone()).unwrap_or_else(|e| format!("PANIC/DEADLOCK {e}")), seq)
        }
        Some("vm-sync") => {
            let Ok(init) = serde_json::from_value::<RvmSer>(case["init"].clone()) else { return 2 };
            let init: refvm::RVm = (&init).into();
            let Some(ops) = case["ops_hex"].as_str().and_then(|h| ops_from_hex(h).ok()) else { return 2 };
            let envk = case["env"].as_str().unwrap_or("basic").to_string();
            sx::set_hash_seed(0);
            let seq = sequential_in_shuttle(vm_run(&ops, &init, &envk)).map(|o| format!("{:?}", sched_obs(&o))).unwrap_or_else(|e| format!("PANIC/DEADLOCK {e}"));
            sx::set_hash_seed(seed);
            let f = vm_run(&ops, &init, &envk);
            run_twice(&|ctx| sched::run_threads(ctx, f.clone()).map(|o| format!("{:?}", sched_obs(&o))).unwrap_or_else(|e| format!("PANIC/DEADLOCK {e}")), seq)
        }
        _ => 2,
    }
}
