//! syncmc — mode B of C02 with the checked crates' own synchronisation visible to the scheduler.
//!
//! essential-vm and essential-check are compiled here from token-rewritten copies of /repo's
//! sources (see build.rs): every `std::sync` Mutex / RwLock / Condvar / Once(Lock) / atomic /
//! mpsc operation in them is shuttle's and therefore a scheduling point, in addition to the
//! per-VM-op yield of the on_step hook and the task boundaries of the rayon stand-in.
//! The same preemption-bounded DFS scheduler as vcheck's mode B explores the schedules.
//!
//! usage: syncmc <quick|thorough> [name ...]     explore the named C02 corpus inputs (all if none)
//!        syncmc --replay <case.json>            replay one schedule twice
//! Output: one JSON object per line on stdout.
#![allow(dead_code, unused_imports, unexpected_cfgs, clippy::all)]

#[path = "gen/vm/lib.rs"]
pub mod vmx;
#[path = "gen/check/lib.rs"]
pub mod checkx;
pub mod sx;

#[path = "gen/h/fw.rs"]
pub mod fw;
#[path = "gen/h/refvm.rs"]
pub mod refvm;
#[path = "gen/h/util.rs"]
pub mod util;
#[path = "gen/h/ckh.rs"]
pub mod ckh;
#[path = "gen/h/xplore.rs"]
pub mod xplore;
#[path = "gen/h/sched.rs"]
pub mod sched;
#[path = "gen/h/c02_corpus.rs"]
pub mod c02_corpus;

use ckh::*;
use fw::Tier;
use serde_json::{json, Value};
use std::rc::Rc;
use std::sync::Arc;
use util::*;
use xplore::Bounds;

fn hook(_vm: &vmx::Vm) {
    sched::maybe_yield();
}

/// The sequential (index-order) run, inside a shuttle execution (shuttle's primitives only exist
/// there): one execution, sequential oracle, never a preemption.
fn sequential_in_shuttle<O: Send + 'static>(f: impl Fn() -> O + Send + Sync + 'static) -> Result<O, String> {
    let slot: Arc<std::sync::Mutex<Option<O>>> = Default::default();
    let s2 = slot.clone();
    let mut cfg = shuttle::Config::new();
    cfg.stack_size = 1 << 19;
    cfg.max_steps = shuttle::MaxSteps::None;
    cfg.failure_persistence = shuttle::FailurePersistence::None;
    cfg.silence_warnings = true;
    let runner = shuttle::Runner::new(shuttle::scheduler::DfsScheduler::new(Some(1), false), cfg);
    let r = fw::catch(move || {
        runner.run(move || {
            let o = sched::run_sequential(|| f());
            *s2.lock().unwrap() = Some(o);
        })
    });
    rayon::sched::set_oracle(None);
    match r {
        Ok(_) => slot.lock().unwrap().take().ok_or_else(|| "no result".to_string()),
        Err((site, msg)) => Err(format!("{site}: {msg}")),
    }
}

struct Outcome {
    schedules: u64,
    capped: bool,
    seq: String,
    seen: std::collections::BTreeSet<String>,
    bad: Vec<(Vec<u32>, String)>,
}

fn explore<O: Send + 'static>(bounds: &Bounds, f: impl Fn() -> O + Send + Sync + Clone + 'static, show: impl Fn(&O) -> String) -> Outcome {
    let seq = match sequential_in_shuttle(f.clone()) {
        Ok(o) => show(&o),
        Err(e) => format!("PANIC/DEADLOCK {e}"),
    };
    let mut seen = std::collections::BTreeSet::new();
    seen.insert(seq.clone());
    let mut bad = vec![];
    let st = sched::explore_threads(vec![], bounds, f, |choices, o| {
        let got = match &o {
            Ok(o) => show(o),
            Err(e) => format!("PANIC/DEADLOCK {e}"),
        };
        if got != seq && bad.len() < 3 {
            bad.push((choices.to_vec(), got.clone()));
        }
        seen.insert(got);
    });
    Outcome { schedules: st.runs, capped: st.capped, seq, seen, bad }
}

fn ck_bounds(tier: Tier) -> Bounds {
    Bounds { sched: tier.pick(2, 3), env: 0, max_runs: tier.pick(20_000, 400_000) }
}
fn vm_bounds(tier: Tier) -> Bounds {
    Bounds { sched: tier.pick(2, 3), env: 0, max_runs: tier.pick(20_000, 400_000) }
}

fn emit(kind: &str, name: &str, case: Value, o: Outcome) {
    let v: Vec<Value> = o.bad.iter().map(|(s, g)| json!({"schedule": s, "got": g})).collect();
    println!(
        "{}",
        json!({"name": name, "kind": kind, "schedules": o.schedules, "capped": o.capped, "want": o.seq, "distinct": o.seen.len(), "violations": v, "case": if o.bad.is_empty() { Value::Null } else { case }})
    );
}

fn main() {
    fw::install_panic_hook();
    sched::ALL_SWITCHES_COST.with(|a| a.set(true));
    if std::env::var("SYNCMC_OP_YIELD").is_ok() {
        vmx::verif::set_on_step(hook);
    }
    let args: Vec<String> = std::env::args().skip(1).collect();
    if args.first().map(|s| s == "--replay").unwrap_or(false) {
        std::process::exit(replay(&args[1]));
    }
    let tier = if args.first().map(|s| s == "thorough").unwrap_or(false) { Tier::Thorough } else { Tier::Quick };
    let names: std::collections::BTreeSet<String> = args.iter().skip(1).cloned().collect();
    let want = |n: &str| names.is_empty() || names.contains(n);
    for (name, case) in c02_corpus::checker_inputs() {
        if !want(&name) {
            continue;
        }
        let b = Arc::new(build(&case));
        let c = Arc::new(case.clone());
        let o = explore(&ck_bounds(tier), move || ck_obs(&c, &b), |s: &String| s.clone());
        emit("ck-sync", &name, json!({"kind": "ck-sync", "case": case}), o);
    }
    for (name, ops, init, envk) in c02_corpus::vm_programs() {
        if !want(&name) {
            continue;
        }
        let env = ProgEnv::named(envk, Cost::Const(1), 100_000);
        let h = Holey { ops: Arc::new(ops.iter().cloned().map(Some).collect()) };
        let i2 = init.clone();
        let o = explore(&vm_bounds(tier), move || run_real_with(&i2, h.clone(), &env, false), |o| format!("{:?}", sched_obs(o)));
        emit("vm-sync", &name, json!({"kind": "vm-sync", "ops_hex": ops_hex(&ops), "init": RvmSer::from(&init), "env": envk}), o);
    }
}

/// exit 0: schedule reproduces a result different from the sequential one; 3: does not; 2: machinery
fn replay(path: &str) -> i32 {
    let Ok(text) = std::fs::read_to_string(path) else { return 2 };
    let Ok(case) = serde_json::from_str::<Value>(&text) else { return 2 };
    let choices: Vec<u32> = match serde_json::from_value(case["schedule"].clone()) {
        Ok(c) => c,
        Err(_) => return 2,
    };
    let run_twice = |f: &dyn Fn(&xplore::Ctx) -> String, seq: String| -> i32 {
        let mut outs = vec![];
        for _ in 0..2 {
            let ctx = xplore::Ctx::new(choices.clone());
            let o = f(&ctx);
            if ctx.diverged() {
                println!("{}", json!({"replay": "divergence"}));
                return 2;
            }
            outs.push(o);
        }
        if outs[0] != outs[1] {
            println!("{}", json!({"replay": "nondeterministic"}));
            return 2;
        }
        println!("{}", json!({"replay": "ok", "want": seq, "got": outs[0], "violates": outs[0] != seq}));
        if outs[0] != seq {
            0
        } else {
            3
        }
    };
    match case["kind"].as_str() {
        Some("ck-sync") => {
            let Ok(c) = serde_json::from_value::<CkCase>(case["case"].clone()) else { return 2 };
            let b = Arc::new(build(&c));
            let c = Arc::new(c);
            let (c1, b1) = (c.clone(), b.clone());
            let seq = sequential_in_shuttle(move || ck_obs(&c1, &b1)).unwrap_or_else(|e| format!("PANIC/DEADLOCK {e}"));
            run_twice(
                &|ctx| {
                    let (c2, b2) = (c.clone(), b.clone());
                    sched::run_threads(ctx, move || ck_obs(&c2, &b2)).unwrap_or_else(|e| format!("PANIC/DEADLOCK {e}"))
                },
                seq,
            )
        }
        Some("vm-sync") => {
            let Ok(init) = serde_json::from_value::<RvmSer>(case["init"].clone()) else { return 2 };
            let init: refvm::RVm = (&init).into();
            let Some(ops) = case["ops_hex"].as_str().and_then(|h| ops_from_hex(h).ok()) else { return 2 };
            let env = ProgEnv::named(case["env"].as_str().unwrap_or("basic"), Cost::Const(1), 100_000);
            let h = Holey { ops: Arc::new(ops.iter().cloned().map(Some).collect()) };
            let (i1, h1, e1) = (init.clone(), h.clone(), env.clone());
            let seq = sequential_in_shuttle(move || run_real_with(&i1, h1.clone(), &e1, false)).map(|o| format!("{:?}", sched_obs(&o))).unwrap_or_else(|e| format!("PANIC/DEADLOCK {e}"));
            run_twice(
                &|ctx| {
                    let (i2, h2, e2) = (init.clone(), h.clone(), env.clone());
                    sched::run_threads(ctx, move || run_real_with(&i2, h2.clone(), &e2, false)).map(|o| format!("{:?}", sched_obs(&o))).unwrap_or_else(|e| format!("PANIC/DEADLOCK {e}"))
                },
                seq,
            )
        }
        _ => 2,
    }
}
