//! Stand-ins for `std::sync` items that shuttle does not provide, built from shuttle's own
//! primitives so that their blocking and publication are scheduling points.
use shuttle::sync::Once;
use std::cell::UnsafeCell;

/// `std::sync::OnceLock` on top of `shuttle::sync::Once`.
pub struct OnceLock<T> {
    once: Once,
    cell: UnsafeCell<Option<T>>,
}

unsafe impl<T: Sync + Send> Sync for OnceLock<T> {}
unsafe impl<T: Send> Send for OnceLock<T> {}

impl<T> OnceLock<T> {
    pub const fn new() -> Self {
        OnceLock { once: Once::new(), cell: UnsafeCell::new(None) }
    }
    pub fn get(&self) -> Option<&T> {
        if self.once.is_completed() {
            unsafe { (*self.cell.get()).as_ref() }
        } else {
            None
        }
    }
    pub fn get_or_init(&self, f: impl FnOnce() -> T) -> &T {
        self.once.call_once(|| unsafe {
            *self.cell.get() = Some(f());
        });
        unsafe { (*self.cell.get()).as_ref().expect("initialised") }
    }
    pub fn set(&self, value: T) -> Result<(), T> {
        let mut v = Some(value);
        self.once.call_once(|| unsafe {
            *self.cell.get() = v.take();
        });
        match v {
            None => Ok(()),
            Some(v) => Err(v),
        }
    }
    pub fn into_inner(self) -> Option<T> {
        self.cell.into_inner()
    }
}

impl<T> Default for OnceLock<T> {
    fn default() -> Self {
        Self::new()
    }
}
impl<T: std::fmt::Debug> std::fmt::Debug for OnceLock<T> {
    fn fmt(&self, f: &mut std::fmt::Formatter<'_>) -> std::fmt::Result {
        f.debug_tuple("OnceLock").field(&self.get()).finish()
    }
}
impl<T: PartialEq> PartialEq for OnceLock<T> {
    fn eq(&self, other: &Self) -> bool {
        self.get() == other.get()
    }
}
impl<T: Eq> Eq for OnceLock<T> {}
impl<T: Clone> Clone for OnceLock<T> {
    fn clone(&self) -> Self {
        let c = Self::new();
        if let Some(v) = self.get() {
            let _ = c.set(v.clone());
        }
        c
    }
}

// ---------------------------------------------------------------------------------------------
// Hash collections whose iteration order the explorer owns: std's HashMap / HashSet with a
// BuildHasher seeded from a value the harness sets before it builds an input. One seed = one
// deterministic family of iteration orders; std's RandomState would differ from map to map and
// from run to run.

thread_local! {
    static HASH_SEED: std::cell::Cell<u64> = const { std::cell::Cell::new(0) };
}

/// Must be called before any map that will be used under this seed is created.
pub fn set_hash_seed(s: u64) {
    HASH_SEED.with(|c| c.set(s));
}

#[derive(Clone, Copy, Default, Debug)]
pub struct SeedState;

impl std::hash::BuildHasher for SeedState {
    type Hasher = std::collections::hash_map::DefaultHasher;
    fn build_hasher(&self) -> Self::Hasher {
        use std::hash::Hasher;
        let mut h = std::collections::hash_map::DefaultHasher::new();
        h.write_u64(HASH_SEED.with(|c| c.get()));
        h
    }
}

type StdMap<K, V> = std::collections::HashMap<K, V, SeedState>;
type StdSet<K> = std::collections::HashSet<K, SeedState>;

/// `std::collections::HashMap` with the seeded hasher. A newtype (not an alias) so that
/// `HashMap::new()`, `with_capacity`, `From<[_; N]>` and aliases of it keep working unchanged;
/// everything else is reached through `Deref`.
#[derive(Clone)]
pub struct HashMap<K, V>(pub StdMap<K, V>);
#[derive(Clone)]
pub struct HashSet<K>(pub StdSet<K>);

impl<K, V> HashMap<K, V> {
    pub fn new() -> Self {
        HashMap(StdMap::default())
    }
    pub fn with_capacity(n: usize) -> Self {
        HashMap(StdMap::with_capacity_and_hasher(n, SeedState))
    }
}
impl<K> HashSet<K> {
    pub fn new() -> Self {
        HashSet(StdSet::default())
    }
    pub fn with_capacity(n: usize) -> Self {
        HashSet(StdSet::with_capacity_and_hasher(n, SeedState))
    }
}
impl<K, V> Default for HashMap<K, V> {
    fn default() -> Self {
        Self::new()
    }
}
impl<K> Default for HashSet<K> {
    fn default() -> Self {
        Self::new()
    }
}
impl<K, V> std::ops::Deref for HashMap<K, V> {
    type Target = StdMap<K, V>;
    fn deref(&self) -> &Self::Target {
        &self.0
    }
}
impl<K, V> std::ops::DerefMut for HashMap<K, V> {
    fn deref_mut(&mut self) -> &mut Self::Target {
        &mut self.0
    }
}
impl<K> std::ops::Deref for HashSet<K> {
    type Target = StdSet<K>;
    fn deref(&self) -> &Self::Target {
        &self.0
    }
}
impl<K> std::ops::DerefMut for HashSet<K> {
    fn deref_mut(&mut self) -> &mut Self::Target {
        &mut self.0
    }
}
impl<K: std::fmt::Debug, V: std::fmt::Debug> std::fmt::Debug for HashMap<K, V> {
    fn fmt(&self, f: &mut std::fmt::Formatter<'_>) -> std::fmt::Result {
        self.0.fmt(f)
    }
}
impl<K: std::fmt::Debug> std::fmt::Debug for HashSet<K> {
    fn fmt(&self, f: &mut std::fmt::Formatter<'_>) -> std::fmt::Result {
        self.0.fmt(f)
    }
}
impl<K: Eq + std::hash::Hash, V: PartialEq> PartialEq for HashMap<K, V> {
    fn eq(&self, o: &Self) -> bool {
        self.0 == o.0
    }
}
impl<K: Eq + std::hash::Hash, V: Eq> Eq for HashMap<K, V> {}
impl<K: Eq + std::hash::Hash> PartialEq for HashSet<K> {
    fn eq(&self, o: &Self) -> bool {
        self.0 == o.0
    }
}
impl<K: Eq + std::hash::Hash> Eq for HashSet<K> {}
impl<K: Eq + std::hash::Hash, V> FromIterator<(K, V)> for HashMap<K, V> {
    fn from_iter<I: IntoIterator<Item = (K, V)>>(it: I) -> Self {
        HashMap(StdMap::from_iter(it))
    }
}
impl<K: Eq + std::hash::Hash> FromIterator<K> for HashSet<K> {
    fn from_iter<I: IntoIterator<Item = K>>(it: I) -> Self {
        HashSet(StdSet::from_iter(it))
    }
}
impl<K: Eq + std::hash::Hash, V, const N: usize> From<[(K, V); N]> for HashMap<K, V> {
    fn from(a: [(K, V); N]) -> Self {
        a.into_iter().collect()
    }
}
impl<K: Eq + std::hash::Hash, const N: usize> From<[K; N]> for HashSet<K> {
    fn from(a: [K; N]) -> Self {
        a.into_iter().collect()
    }
}
impl<K, V> IntoIterator for HashMap<K, V> {
    type Item = (K, V);
    type IntoIter = std::collections::hash_map::IntoIter<K, V>;
    fn into_iter(self) -> Self::IntoIter {
        self.0.into_iter()
    }
}
impl<'a, K, V> IntoIterator for &'a HashMap<K, V> {
    type Item = (&'a K, &'a V);
    type IntoIter = std::collections::hash_map::Iter<'a, K, V>;
    fn into_iter(self) -> Self::IntoIter {
        self.0.iter()
    }
}
impl<'a, K, V> IntoIterator for &'a mut HashMap<K, V> {
    type Item = (&'a K, &'a mut V);
    type IntoIter = std::collections::hash_map::IterMut<'a, K, V>;
    fn into_iter(self) -> Self::IntoIter {
        self.0.iter_mut()
    }
}
impl<K> IntoIterator for HashSet<K> {
    type Item = K;
    type IntoIter = std::collections::hash_set::IntoIter<K>;
    fn into_iter(self) -> Self::IntoIter {
        self.0.into_iter()
    }
}
impl<'a, K> IntoIterator for &'a HashSet<K> {
    type Item = &'a K;
    type IntoIter = std::collections::hash_set::Iter<'a, K>;
    fn into_iter(self) -> Self::IntoIter {
        self.0.iter()
    }
}
impl<K: Eq + std::hash::Hash, V> Extend<(K, V)> for HashMap<K, V> {
    fn extend<I: IntoIterator<Item = (K, V)>>(&mut self, it: I) {
        self.0.extend(it)
    }
}
impl<K: Eq + std::hash::Hash> Extend<K> for HashSet<K> {
    fn extend<I: IntoIterator<Item = K>>(&mut self, it: I) {
        self.0.extend(it)
    }
}
impl<K: Eq + std::hash::Hash + std::borrow::Borrow<Q>, Q: Eq + std::hash::Hash + ?Sized, V> std::ops::Index<&Q> for HashMap<K, V> {
    type Output = V;
    fn index(&self, k: &Q) -> &V {
        self.0.get(k).expect("no entry found for key")
    }
}

// rayon (the stand-in's traits): parallel collection into / iteration over the wrappers
mod par {
    use super::{HashMap, HashSet, StdMap, StdSet};
    use rayon::iter::{FromParallelIterator, IntoParallelIterator, ParallelExtend};
    use std::hash::Hash;

    impl<K: Eq + Hash + Send, V: Send> FromParallelIterator<(K, V)> for HashMap<K, V> {
        fn from_par_iter<I: IntoParallelIterator<Item = (K, V)>>(i: I) -> Self {
            HashMap(StdMap::from_par_iter(i))
        }
    }
    impl<K: Eq + Hash + Send> FromParallelIterator<K> for HashSet<K> {
        fn from_par_iter<I: IntoParallelIterator<Item = K>>(i: I) -> Self {
            HashSet(StdSet::from_par_iter(i))
        }
    }
    impl<K: Eq + Hash + Send, V: Send> ParallelExtend<(K, V)> for HashMap<K, V> {
        fn par_extend<I: IntoParallelIterator<Item = (K, V)>>(&mut self, i: I) {
            self.0.par_extend(i)
        }
    }
    impl<K: Eq + Hash + Send> ParallelExtend<K> for HashSet<K> {
        fn par_extend<I: IntoParallelIterator<Item = K>>(&mut self, i: I) {
            self.0.par_extend(i)
        }
    }
    impl<K: Eq + Hash + Send, V: Send> IntoParallelIterator for HashMap<K, V> {
        type Item = (K, V);
        type Iter = <StdMap<K, V> as IntoParallelIterator>::Iter;
        fn into_par_iter(self) -> Self::Iter {
            self.0.into_par_iter()
        }
    }
    impl<'a, K: Eq + Hash + Sync + 'a, V: Sync + 'a> IntoParallelIterator for &'a HashMap<K, V> {
        type Item = (&'a K, &'a V);
        type Iter = <&'a StdMap<K, V> as IntoParallelIterator>::Iter;
        fn into_par_iter(self) -> Self::Iter {
            (&self.0).into_par_iter()
        }
    }
    impl<K: Eq + Hash + Send> IntoParallelIterator for HashSet<K> {
        type Item = K;
        type Iter = <StdSet<K> as IntoParallelIterator>::Iter;
        fn into_par_iter(self) -> Self::Iter {
            self.0.into_par_iter()
        }
    }
    impl<'a, K: Eq + Hash + Sync + 'a> IntoParallelIterator for &'a HashSet<K> {
        type Item = &'a K;
        type Iter = <&'a StdSet<K> as IntoParallelIterator>::Iter;
        fn into_par_iter(self) -> Self::Iter {
            (&self.0).into_par_iter()
        }
    }
}
