//! Stand-ins for `std::sync` items that shuttle does not provide, built from shuttle's own
//! primitives so that their blocking and publication are scheduling points.
use shuttle::sync::Once;
use std::cell::UnsafeCell;

/// `std::sync::OnceLock` on top of `shuttle::sync::Once`.
pub struct OnceLock<T> {
    once: Once,
    cell: UnsafeCell<Option<T>>,
}

unsafe impl<T: Sync + Send> Sync for OnceLock<T> {}
unsafe impl<T: Send> Send for OnceLock<T> {}

impl<T> OnceLock<T> {
    pub const fn new() -> Self {
        OnceLock { once: Once::new(), cell: UnsafeCell::new(None) }
    }
    pub fn get(&self) -> Option<&T> {
        if self.once.is_completed() {
            unsafe { (*self.cell.get()).as_ref() }
        } else {
            None
        }
    }
    pub fn get_or_init(&self, f: impl FnOnce() -> T) -> &T {
        self.once.call_once(|| unsafe {
            *self.cell.get() = Some(f());
        });
        unsafe { (*self.cell.get()).as_ref().expect("initialised") }
    }
    pub fn set(&self, value: T) -> Result<(), T> {
        let mut v = Some(value);
        self.once.call_once(|| unsafe {
            *self.cell.get() = v.take();
        });
        match v {
            None => Ok(()),
            Some(v) => Err(v),
        }
    }
    pub fn into_inner(self) -> Option<T> {
        self.cell.into_inner()
    }
}

impl<T> Default for OnceLock<T> {
    fn default() -> Self {
        Self::new()
    }
}
impl<T: std::fmt::Debug> std::fmt::Debug for OnceLock<T> {
    fn fmt(&self, f: &mut std::fmt::Formatter<'_>) -> std::fmt::Result {
        f.debug_tuple("OnceLock").field(&self.get()).finish()
    }
}
impl<T: PartialEq> PartialEq for OnceLock<T> {
    fn eq(&self, other: &Self) -> bool {
        self.get() == other.get()
    }
}
impl<T: Eq> Eq for OnceLock<T> {}
impl<T: Clone> Clone for OnceLock<T> {
    fn clone(&self) -> Self {
        let c = Self::new();
        if let Some(v) = self.get() {
            let _ = c.set(v.clone());
        }
        c
    }
}
