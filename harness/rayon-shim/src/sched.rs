//! The one place where a schedule is decided.
//!
//! Every parallel construct of the shim (`par_iter` pipelines, `join`,
//! `scope`) is lowered to a list of independent **tasks** and handed to
//! [`section`] (or, for `scope`, to [`dynamic_section`], whose task list can
//! grow while it runs).  How the tasks of a section are executed is decided by
//! a thread-local [`Oracle`]:
//!
//! * no oracle, or [`Mode::Sequential`]: index order, on the calling thread;
//! * [`Mode::Atomic`]: one task at a time, each to completion, in the order
//!   chosen by the oracle ([`Site::Pick`]);
//! * [`Mode::Threads`]: every task is a `shuttle` scoped thread; the
//!   interleaving is decided by shuttle's scheduler, not here.
//!
//! Short-circuiting (rayon's `full()` flag) is modelled by [`Stop`] flags that
//! *guard* tasks: once a guard of a task that has not started yet is set, the
//! oracle decides whether that task is skipped ([`Site::StopAfterError`] /
//! [`Site::SkipAfterError`]).  Tasks that have started always finish.
//!
//! The remaining scheduling freedom of rayon, the shape of the reduction
//! tree, is asked through [`choose`] with [`Site::ReduceSplit`] by the
//! iterator code.

use std::any::Any;
use std::cell::{Cell, RefCell};
use std::panic::{self, AssertUnwindSafe};
use std::rc::Rc;
use std::sync::atomic::{AtomicBool, Ordering};
use std::sync::{Arc, Mutex};

/// How the tasks of a section are executed.
#[derive(Clone, Copy, Debug, PartialEq, Eq)]
pub enum Mode {
    /// Index order on the calling thread.  The oracle is never asked to choose.
    Sequential,
    /// Mode A: tasks run one at a time to completion, in an order chosen by the oracle.
    Atomic,
    /// Mode B: tasks are `shuttle` threads.  Requires running inside a shuttle execution.
    Threads,
}

/// The kind of decision the oracle is asked to make.
#[derive(Clone, Copy, Debug, PartialEq, Eq)]
pub enum Site {
    /// Mode A: which of the `n` pending tasks (ascending index order) runs next.
    Pick,
    /// Mode A: a guard of some pending task is set.  `0` = keep going,
    /// `1` = skip every pending task whose guard is set (now and later in this section).
    StopAfterError,
    /// Mode B: this task is starting and one of its guards is already set.
    /// `0` = run it anyway, `1` = skip it.
    SkipAfterError,
    /// Shape of a reduction / fold.  See `iter::reduce_tree` and `iter::choose_chunks`.
    ReduceSplit,
}

/// The source of all scheduling decisions.
pub trait Oracle {
    fn mode(&self) -> Mode;
    /// Return a value in `0..n`.  `0` is always the "default" (sequential) alternative.
    /// Never called with `n < 2`.
    fn choose(&self, site: Site, n: usize) -> usize;
    /// Informational: a section with `n` tasks starts / ends (nesting allowed; in
    /// `Mode::Threads` sections of different threads may overlap without nesting).
    fn section_begin(&self, _n: usize) {}
    fn section_end(&self) {}
}

thread_local! {
    static ORACLE: RefCell<Option<Rc<dyn Oracle>>> = const { RefCell::new(None) };
    static SECTIONS_RUN: Cell<u64> = const { Cell::new(0) };
    static TASKS_RUN: Cell<u64> = const { Cell::new(0) };
}

/// Install (or remove) the oracle of the current OS thread.
pub fn set_oracle(o: Option<Rc<dyn Oracle>>) {
    ORACLE.with(|slot| *slot.borrow_mut() = o);
}

/// The oracle currently installed on this OS thread.
pub fn oracle() -> Option<Rc<dyn Oracle>> {
    ORACLE.with(|slot| slot.borrow().clone())
}

/// Install `o`, run `f`, restore the previous oracle (also on unwind).
pub fn with_oracle<R>(o: Rc<dyn Oracle>, f: impl FnOnce() -> R) -> R {
    struct Restore(Option<Rc<dyn Oracle>>);
    impl Drop for Restore {
        fn drop(&mut self) {
            set_oracle(self.0.take());
        }
    }
    let previous = ORACLE.with(|slot| slot.borrow_mut().replace(o));
    let _restore = Restore(previous);
    f()
}

/// The mode in force: `Sequential` when no oracle is installed.
pub fn mode() -> Mode {
    oracle().map_or(Mode::Sequential, |o| o.mode())
}

/// Ask the oracle to pick one of `n` alternatives.
///
/// Returns `0` without consulting the oracle when there is nothing to choose
/// (`n < 2`), when no oracle is installed, or in `Mode::Sequential`.
pub fn choose(site: Site, n: usize) -> usize {
    if n < 2 {
        return 0;
    }
    match oracle() {
        Some(o) if o.mode() != Mode::Sequential => {
            let k = o.choose(site, n);
            assert!(k < n, "oracle chose {k} at {site:?}, but only 0..{n} is allowed");
            k
        }
        _ => 0,
    }
}

/// Number of (non-empty) sections run on this OS thread since the last reset.
pub fn sections_run() -> u64 {
    SECTIONS_RUN.with(Cell::get)
}

/// Number of tasks started (i.e. not skipped) on this OS thread since the last reset.
pub fn tasks_run() -> u64 {
    TASKS_RUN.with(Cell::get)
}

pub fn reset_counters() {
    SECTIONS_RUN.with(|c| c.set(0));
    TASKS_RUN.with(|c| c.set(0));
}

/// A "stop early" flag shared between the tasks of a pipeline and the scheduler.
///
/// This is rayon's `full()`: a short-circuiting consumer sets it when an
/// error / a match / a `None` has *arrived*; tasks guarded by the flag that
/// have not started yet may then be skipped.
#[derive(Debug, Default)]
pub struct Stop(AtomicBool);

impl Stop {
    pub fn new() -> Arc<Stop> {
        Arc::new(Stop::default())
    }
    pub fn set(&self) {
        self.0.store(true, Ordering::SeqCst);
    }
    pub fn is_set(&self) -> bool {
        self.0.load(Ordering::SeqCst)
    }
}

/// One unit of work of a section.
pub struct Task<'a, R> {
    guards: Vec<Arc<Stop>>,
    body: Box<dyn FnOnce() -> R + Send + 'a>,
}

impl<'a, R> Task<'a, R> {
    pub fn new(body: impl FnOnce() -> R + Send + 'a) -> Self {
        Task { guards: Vec::new(), body: Box::new(body) }
    }

    /// The task may be skipped once any of `guards` is set.
    pub fn guarded_by(mut self, guards: Vec<Arc<Stop>>) -> Self {
        self.guards = guards;
        self
    }

    fn may_be_skipped(&self) -> bool {
        self.guards.iter().any(|g| g.is_set())
    }
}

/// Run a section: slot `i` of the result is the value of task `i`, or `None`
/// if the task was skipped.
///
/// If tasks panic, every other task still runs (as in rayon, where sibling
/// jobs are completed before a panic is propagated) and the panic that
/// arrived first is resumed on the caller once the section is over.
pub fn section<'a, R: Send>(tasks: Vec<Task<'a, R>>) -> Vec<Option<R>> {
    if tasks.is_empty() {
        return Vec::new();
    }
    let first_panic = FirstPanic::default();
    let results = {
        let _bracket = Bracket::enter(tasks.len());
        match mode() {
            Mode::Sequential => run_in_index_order(tasks, &first_panic),
            Mode::Atomic => run_atomic(tasks, &first_panic),
            Mode::Threads => run_as_threads(tasks, &first_panic),
        }
    };
    first_panic.resume();
    results
}

fn run_in_index_order<R>(tasks: Vec<Task<'_, R>>, first_panic: &FirstPanic) -> Vec<Option<R>> {
    tasks.into_iter().map(|task| run_caught(first_panic, task.body)).collect()
}

fn run_atomic<R>(tasks: Vec<Task<'_, R>>, first_panic: &FirstPanic) -> Vec<Option<R>> {
    let mut results: Vec<Option<R>> = tasks.iter().map(|_| None).collect();
    // Pending tasks, kept in ascending index order.
    let mut pending: Vec<(usize, Task<'_, R>)> = tasks.into_iter().enumerate().collect();
    let mut stopping = false;
    while !pending.is_empty() {
        if !stopping && pending.iter().any(|(_, task)| task.may_be_skipped()) {
            stopping = choose(Site::StopAfterError, 2) == 1;
        }
        if stopping {
            pending.retain(|(_, task)| !task.may_be_skipped());
            if pending.is_empty() {
                break;
            }
        }
        let k = choose(Site::Pick, pending.len());
        let (index, task) = pending.remove(k);
        results[index] = run_caught(first_panic, task.body);
    }
    results
}

fn run_as_threads<R: Send>(tasks: Vec<Task<'_, R>>, first_panic: &FirstPanic) -> Vec<Option<R>> {
    // Plain std mutex: all shuttle threads are coroutines on this OS thread and
    // the lock is never held across a scheduling point.
    let results: Mutex<Vec<Option<R>>> = Mutex::new(tasks.iter().map(|_| None).collect());
    shuttle::thread::scope(|threads| {
        for (index, task) in tasks.into_iter().enumerate() {
            let results = &results;
            threads.spawn(move || {
                if task.may_be_skipped() && choose(Site::SkipAfterError, 2) == 1 {
                    return;
                }
                let value = run_caught(first_panic, task.body);
                results.lock().unwrap()[index] = value;
            });
        }
        // Leaving the scope blocks until every thread has finished.
    });
    results.into_inner().unwrap()
}

/// Run a section whose task list can grow while it runs (`rayon::scope`).
///
/// `take_new` hands over the tasks spawned since it was last called.  It is
/// called once at the start and again after every task that finishes, so
/// tasks spawned by a task join the same pending set (mode A) or are started
/// as threads as soon as the spawning task's body has returned (mode B).
/// Guards are not supported here.
pub fn dynamic_section<'a>(take_new: &(dyn Fn() -> Vec<Task<'a, ()>> + Sync)) {
    let mut pending = take_new();
    if pending.is_empty() {
        return;
    }
    let first_panic = FirstPanic::default();
    {
        let _bracket = Bracket::enter(pending.len());
        match mode() {
            Mode::Threads => {
                shuttle::thread::scope(|threads| spawn_all(threads, pending, take_new, &first_panic));
            }
            mode => {
                while !pending.is_empty() {
                    let k = match mode {
                        Mode::Atomic => choose(Site::Pick, pending.len()),
                        _ => 0,
                    };
                    let task = pending.remove(k);
                    run_caught(&first_panic, task.body);
                    pending.extend(take_new());
                }
            }
        }
    }
    first_panic.resume();
}

/// Mode B: start `batch` as threads; each thread, once its task is done,
/// starts whatever has been spawned in the meantime.
fn spawn_all<'scope, 'env: 'scope, 'a: 'env>(
    threads: &'scope shuttle::thread::Scope<'scope, 'env>,
    batch: Vec<Task<'a, ()>>,
    take_new: &'env (dyn Fn() -> Vec<Task<'a, ()>> + Sync),
    first_panic: &'env FirstPanic,
) {
    for task in batch {
        threads.spawn(move || {
            run_caught(first_panic, task.body);
            spawn_all(threads, take_new(), take_new, first_panic);
        });
    }
}

/// Counts the section and brackets it with `section_begin` / `section_end`.
struct Bracket(Option<Rc<dyn Oracle>>);

impl Bracket {
    fn enter(n: usize) -> Self {
        SECTIONS_RUN.with(|c| c.set(c.get() + 1));
        let oracle = oracle();
        if let Some(o) = &oracle {
            o.section_begin(n);
        }
        Bracket(oracle)
    }
}

impl Drop for Bracket {
    fn drop(&mut self) {
        if let Some(o) = &self.0 {
            o.section_end();
        }
    }
}

type Payload = Box<dyn Any + Send + 'static>;

/// The first panic (in arrival order) of the tasks of one section.
#[derive(Default)]
struct FirstPanic(Mutex<Option<Payload>>);

impl FirstPanic {
    fn record(&self, payload: Payload) {
        let mut slot = self.0.lock().unwrap_or_else(|poisoned| poisoned.into_inner());
        if slot.is_none() {
            *slot = Some(payload);
        }
    }

    fn resume(self) {
        let slot = self.0.into_inner().unwrap_or_else(|poisoned| poisoned.into_inner());
        if let Some(payload) = slot {
            panic::resume_unwind(payload);
        }
    }
}

/// Run one task body; a panic is recorded instead of unwinding further.
///
/// Only the payloads produced by `panic!`, `unwrap`, `expect`, `assert!`, ...
/// (`&'static str` and `String`) are deferred.  Any other payload unwinds
/// immediately: that includes the private payload with which shuttle's
/// coroutine runtime tears down a suspended thread, which must not be
/// swallowed.
fn run_caught<R>(first_panic: &FirstPanic, body: impl FnOnce() -> R) -> Option<R> {
    TASKS_RUN.with(|c| c.set(c.get() + 1));
    match panic::catch_unwind(AssertUnwindSafe(body)) {
        Ok(value) => Some(value),
        Err(payload) => {
            if !(payload.is::<&'static str>() || payload.is::<String>()) {
                panic::resume_unwind(payload);
            }
            first_panic.record(payload);
            None
        }
    }
}
