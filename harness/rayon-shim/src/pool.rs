//! `join`, `scope`, `spawn` and the (fake) thread pool types.

use std::cell::Cell;
use std::error::Error;
use std::fmt;
use std::sync::atomic::{AtomicUsize, Ordering};
use std::sync::Mutex;

use crate::sched::{self, Mode, Task};

/// Run both closures as a two-task section and return both results.
pub fn join<A, B, RA, RB>(oper_a: A, oper_b: B) -> (RA, RB)
where
    A: FnOnce() -> RA + Send,
    B: FnOnce() -> RB + Send,
    RA: Send,
    RB: Send,
{
    let (mut result_a, mut result_b) = (None, None);
    sched::section(vec![Task::new(|| result_a = Some(oper_a())), Task::new(|| result_b = Some(oper_b()))]);
    (result_a.expect("join: task a ran"), result_b.expect("join: task b ran"))
}

/// Context handed to the closures of [`join_context`].
#[derive(Debug, Clone, Copy)]
pub struct FnContext {
    migrated: bool,
}

impl FnContext {
    /// Whether the closure runs on another thread than `join_context`'s caller:
    /// `true` for tasks running as threads (`Mode::Threads`), else `false`.
    pub fn migrated(&self) -> bool {
        self.migrated
    }
}

pub fn join_context<A, B, RA, RB>(oper_a: A, oper_b: B) -> (RA, RB)
where
    A: FnOnce(FnContext) -> RA + Send,
    B: FnOnce(FnContext) -> RB + Send,
    RA: Send,
    RB: Send,
{
    let context = FnContext { migrated: sched::mode() == Mode::Threads };
    join(move || oper_a(context), move || oper_b(context))
}

type Job<'scope> = Box<dyn FnOnce(&Scope<'scope>) + Send + 'scope>;

/// See [`scope`].
pub struct Scope<'scope> {
    /// Jobs spawned and not yet handed to the scheduler.
    spawned: Mutex<Vec<Job<'scope>>>,
}

impl<'scope> Scope<'scope> {
    /// Add a job to the scope.  It runs after the scope's body has returned
    /// (jobs spawned by a job: after that job has returned).
    pub fn spawn<BODY>(&self, body: BODY)
    where
        BODY: FnOnce(&Scope<'scope>) + Send + 'scope,
    {
        self.spawned.lock().unwrap().push(Box::new(body));
    }
}

impl fmt::Debug for Scope<'_> {
    fn fmt(&self, f: &mut fmt::Formatter<'_>) -> fmt::Result {
        f.debug_struct("Scope").finish_non_exhaustive()
    }
}

/// Run `op`, then run everything it spawned as one section whose task list
/// grows with nested spawns; return when all of it has finished.
///
/// If `op` itself panics the spawned jobs are dropped without running.
pub fn scope<'scope, OP, R>(op: OP) -> R
where
    OP: FnOnce(&Scope<'scope>) -> R + Send,
    R: Send,
{
    in_place_scope(op)
}

pub fn in_place_scope<'scope, OP, R>(op: OP) -> R
where
    OP: FnOnce(&Scope<'scope>) -> R,
{
    let scope = Scope { spawned: Mutex::new(Vec::new()) };
    let result = op(&scope);
    let scope = &scope;
    sched::dynamic_section(&|| {
        let newly_spawned = std::mem::take(&mut *scope.spawned.lock().unwrap());
        newly_spawned.into_iter().map(|job| Task::new(move || job(scope))).collect()
    });
    result
}

/// Fire-and-forget job.  `Mode::Threads`: a detached shuttle thread; otherwise
/// the job runs immediately on the calling thread.
pub fn spawn<F>(func: F)
where
    F: FnOnce() + Send + 'static,
{
    match sched::mode() {
        Mode::Threads => drop(shuttle::thread::spawn(func)),
        Mode::Sequential | Mode::Atomic => func(),
    }
}

/// Number of threads reported when no pool has been configured.
pub const DEFAULT_NUM_THREADS: usize = 4;

/// `num_threads` of the global pool; 0 = not built.
static GLOBAL_NUM_THREADS: AtomicUsize = AtomicUsize::new(0);

thread_local! {
    /// `num_threads` of the pool whose `install` we are in, if any.
    static INSTALLED_NUM_THREADS: Cell<Option<usize>> = const { Cell::new(None) };
}

/// The configured size of the current (installed, else global) pool.  Purely
/// informational: it has no influence on scheduling.
pub fn current_num_threads() -> usize {
    INSTALLED_NUM_THREADS.with(Cell::get).unwrap_or_else(|| match GLOBAL_NUM_THREADS.load(Ordering::SeqCst) {
        0 => DEFAULT_NUM_THREADS,
        n => n,
    })
}

/// `Some(0)` inside `ThreadPool::install`, else `None`.
pub fn current_thread_index() -> Option<usize> {
    INSTALLED_NUM_THREADS.with(Cell::get).map(|_| 0)
}

/// Error of `ThreadPoolBuilder::build_global` when called twice.
#[derive(Debug)]
pub struct ThreadPoolBuildError {
    message: &'static str,
}

impl fmt::Display for ThreadPoolBuildError {
    fn fmt(&self, f: &mut fmt::Formatter<'_>) -> fmt::Result {
        f.write_str(self.message)
    }
}

impl Error for ThreadPoolBuildError {}

/// Accepts rayon's configuration; only `num_threads` is remembered.
#[derive(Debug, Default)]
pub struct ThreadPoolBuilder {
    num_threads: usize,
}

impl ThreadPoolBuilder {
    pub fn new() -> Self {
        Self::default()
    }

    pub fn num_threads(mut self, num_threads: usize) -> Self {
        self.num_threads = num_threads;
        self
    }

    pub fn thread_name<F>(self, _closure: F) -> Self
    where
        F: FnMut(usize) -> String + 'static,
    {
        self
    }

    pub fn stack_size(self, _stack_size: usize) -> Self {
        self
    }

    pub fn panic_handler<H>(self, _panic_handler: H) -> Self
    where
        H: Fn(Box<dyn std::any::Any + Send>) + Send + Sync + 'static,
    {
        self
    }

    pub fn start_handler<H>(self, _start_handler: H) -> Self
    where
        H: Fn(usize) + Send + Sync + 'static,
    {
        self
    }

    pub fn exit_handler<H>(self, _exit_handler: H) -> Self
    where
        H: Fn(usize) + Send + Sync + 'static,
    {
        self
    }

    fn resolved_num_threads(&self) -> usize {
        match self.num_threads {
            0 => DEFAULT_NUM_THREADS,
            n => n,
        }
    }

    pub fn build(self) -> Result<ThreadPool, ThreadPoolBuildError> {
        Ok(ThreadPool { num_threads: self.resolved_num_threads() })
    }

    pub fn build_global(self) -> Result<(), ThreadPoolBuildError> {
        let num_threads = self.resolved_num_threads();
        match GLOBAL_NUM_THREADS.compare_exchange(0, num_threads, Ordering::SeqCst, Ordering::SeqCst) {
            Ok(_) => Ok(()),
            Err(_) => Err(ThreadPoolBuildError { message: "The global thread pool has already been initialized." }),
        }
    }
}

/// Not a pool: everything runs through [`crate::sched`] on the calling thread
/// (or as shuttle threads).
#[derive(Debug)]
pub struct ThreadPool {
    num_threads: usize,
}

impl ThreadPool {
    /// Run `op` "inside" the pool, i.e. right here.
    pub fn install<OP, R>(&self, op: OP) -> R
    where
        OP: FnOnce() -> R + Send,
        R: Send,
    {
        struct Restore(Option<usize>);
        impl Drop for Restore {
            fn drop(&mut self) {
                INSTALLED_NUM_THREADS.with(|cell| cell.set(self.0));
            }
        }
        let _restore = Restore(INSTALLED_NUM_THREADS.with(|cell| cell.replace(Some(self.num_threads))));
        op()
    }

    pub fn current_num_threads(&self) -> usize {
        self.num_threads
    }

    pub fn current_thread_index(&self) -> Option<usize> {
        current_thread_index()
    }

    pub fn join<A, B, RA, RB>(&self, oper_a: A, oper_b: B) -> (RA, RB)
    where
        A: FnOnce() -> RA + Send,
        B: FnOnce() -> RB + Send,
        RA: Send,
        RB: Send,
    {
        self.install(|| join(oper_a, oper_b))
    }

    pub fn scope<'scope, OP, R>(&self, op: OP) -> R
    where
        OP: FnOnce(&Scope<'scope>) -> R + Send,
        R: Send,
    {
        self.install(|| scope(op))
    }

    pub fn in_place_scope<'scope, OP, R>(&self, op: OP) -> R
    where
        OP: FnOnce(&Scope<'scope>) -> R,
    {
        in_place_scope(op)
    }

    pub fn spawn<OP>(&self, op: OP)
    where
        OP: FnOnce() + Send + 'static,
    {
        spawn(op)
    }
}
