//! `par_chunks`, `par_windows`, `par_sort*`, ... on slices.
//!
//! The chunking methods build ordinary indexed parallel iterators.  The sorts
//! call the std sorts on the calling thread (their result does not depend on
//! scheduling; comparison closures run sequentially).

use std::cmp::Ordering;

use crate::iter::{Indexed, Source};

pub trait ParallelSlice<T: Sync> {
    fn as_parallel_slice(&self) -> &[T];

    fn par_chunks(&self, chunk_size: usize) -> Source<&[T], Indexed> {
        assert!(chunk_size != 0, "chunk_size must not be zero");
        Source::new(self.as_parallel_slice().chunks(chunk_size))
    }

    fn par_chunks_exact(&self, chunk_size: usize) -> Source<&[T], Indexed> {
        assert!(chunk_size != 0, "chunk_size must not be zero");
        Source::new(self.as_parallel_slice().chunks_exact(chunk_size))
    }

    fn par_rchunks(&self, chunk_size: usize) -> Source<&[T], Indexed> {
        assert!(chunk_size != 0, "chunk_size must not be zero");
        Source::new(self.as_parallel_slice().rchunks(chunk_size))
    }

    fn par_windows(&self, window_size: usize) -> Source<&[T], Indexed> {
        Source::new(self.as_parallel_slice().windows(window_size))
    }

    /// `separator` is evaluated sequentially, on the calling thread.
    fn par_split<P>(&self, separator: P) -> Source<&[T], crate::iter::Unindexed>
    where
        P: Fn(&T) -> bool + Sync + Send,
    {
        Source::new(self.as_parallel_slice().split(separator))
    }
}

impl<T: Sync> ParallelSlice<T> for [T] {
    fn as_parallel_slice(&self) -> &[T] {
        self
    }
}

pub trait ParallelSliceMut<T: Send> {
    fn as_parallel_slice_mut(&mut self) -> &mut [T];

    fn par_chunks_mut(&mut self, chunk_size: usize) -> Source<&mut [T], Indexed> {
        assert!(chunk_size != 0, "chunk_size must not be zero");
        Source::new(self.as_parallel_slice_mut().chunks_mut(chunk_size))
    }

    fn par_chunks_exact_mut(&mut self, chunk_size: usize) -> Source<&mut [T], Indexed> {
        assert!(chunk_size != 0, "chunk_size must not be zero");
        Source::new(self.as_parallel_slice_mut().chunks_exact_mut(chunk_size))
    }

    fn par_rchunks_mut(&mut self, chunk_size: usize) -> Source<&mut [T], Indexed> {
        assert!(chunk_size != 0, "chunk_size must not be zero");
        Source::new(self.as_parallel_slice_mut().rchunks_mut(chunk_size))
    }

    fn par_sort(&mut self)
    where
        T: Ord,
    {
        self.as_parallel_slice_mut().sort()
    }

    fn par_sort_by<F>(&mut self, compare: F)
    where
        F: Fn(&T, &T) -> Ordering + Sync,
    {
        self.as_parallel_slice_mut().sort_by(compare)
    }

    fn par_sort_by_key<K, F>(&mut self, f: F)
    where
        K: Ord,
        F: Fn(&T) -> K + Sync,
    {
        self.as_parallel_slice_mut().sort_by_key(f)
    }

    fn par_sort_by_cached_key<K, F>(&mut self, f: F)
    where
        F: Fn(&T) -> K + Sync,
        K: Ord + Send,
    {
        self.as_parallel_slice_mut().sort_by_cached_key(f)
    }

    fn par_sort_unstable(&mut self)
    where
        T: Ord,
    {
        self.as_parallel_slice_mut().sort_unstable()
    }

    fn par_sort_unstable_by<F>(&mut self, compare: F)
    where
        F: Fn(&T, &T) -> Ordering + Sync,
    {
        self.as_parallel_slice_mut().sort_unstable_by(compare)
    }

    fn par_sort_unstable_by_key<K, F>(&mut self, f: F)
    where
        K: Ord,
        F: Fn(&T) -> K + Sync,
    {
        self.as_parallel_slice_mut().sort_unstable_by_key(f)
    }
}

impl<T: Send> ParallelSliceMut<T> for [T] {
    fn as_parallel_slice_mut(&mut self) -> &mut [T] {
        self
    }
}
