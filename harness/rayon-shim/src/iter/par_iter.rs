//! The two concrete iterator types of the shim and the helpers shared by all
//! adaptors and terminal operations.
//!
//! * [`Source`] is what `into_par_iter()` / `par_iter()` return: the base items,
//!   materialised in a `Vec`, no closures attached yet.
//! * [`ParIter`] is what every adaptor returns: one [`ItemTask`] per base item.
//!   Running an item task pushes the base item through all adaptor closures and
//!   hands the resulting item(s) to a sink.  Nothing runs before a terminal
//!   operation turns the item tasks into a `sched::section`.

use std::marker::PhantomData;
use std::sync::Arc;

use super::ParallelIterator;
use crate::sched::{self, Site, Stop, Task};

/// Marker: each task yields exactly one item, so positions are meaningful.
#[derive(Debug, Clone, Copy)]
pub struct Indexed;
/// Marker: tasks may yield any number of items (after `filter`, `flat_map`, ...).
#[derive(Debug, Clone, Copy)]
pub struct Unindexed;

/// Implemented by [`Indexed`] and [`Unindexed`] only.
pub trait Kind: Send + 'static {
    /// The kind of a combination (`chain`) of `Self` and `Other`: indexed iff both are.
    type And<Other: Kind>: Kind;
}
impl Kind for Indexed {
    type And<Other: Kind> = Other;
}
impl Kind for Unindexed {
    type And<Other: Kind> = Unindexed;
}

/// The base items of a pipeline.
#[derive(Debug, Clone)]
#[must_use = "parallel iterators are lazy and do nothing unless consumed"]
pub struct Source<T, K = Indexed> {
    items: Vec<T>,
    kind: PhantomData<fn() -> K>,
}

impl<T, K> Source<T, K> {
    pub(crate) fn new(items: impl IntoIterator<Item = T>) -> Self {
        Source { items: items.into_iter().collect(), kind: PhantomData }
    }
}

impl<T: Send, K: Kind> ParallelIterator for Source<T, K> {
    type Item = T;
    type Kind = K;

    fn lower<'a>(self) -> ParIter<'a, T, K>
    where
        Self: 'a,
    {
        ParIter::from_tasks(self.items.into_iter().map(ItemTask::ready).collect())
    }

    fn task_count(&self) -> usize {
        self.items.len()
    }
}

/// Receives the items produced by an item task.
pub(crate) type Sink<'s, T> = &'s mut (dyn FnMut(T) + 's);

enum Body<'a, T> {
    /// A bare base item: nothing to run.
    Ready(T),
    /// Runs the adaptor closures for one base item, feeding the sink.
    Run(Box<dyn FnOnce(Sink<'_, T>) + Send + 'a>),
}

/// The work attached to one base item.
pub struct ItemTask<'a, T> {
    /// Set guards allow the scheduler to skip this task (see `sched::Stop`).
    guards: Vec<Arc<Stop>>,
    body: Body<'a, T>,
}

impl<'a, T> ItemTask<'a, T> {
    fn ready(item: T) -> Self {
        ItemTask { guards: Vec::new(), body: Body::Ready(item) }
    }

    pub(crate) fn new(guards: Vec<Arc<Stop>>, body: impl FnOnce(Sink<'_, T>) + Send + 'a) -> Self {
        ItemTask { guards, body: Body::Run(Box::new(body)) }
    }

    pub(crate) fn guards(&self) -> &[Arc<Stop>] {
        &self.guards
    }

    pub(crate) fn may_be_skipped(&self) -> bool {
        self.guards.iter().any(|g| g.is_set())
    }

    /// Run the task, handing every item it produces to `sink`.
    pub(crate) fn run(self, sink: Sink<'_, T>) {
        match self.body {
            Body::Ready(item) => sink(item),
            Body::Run(body) => body(sink),
        }
    }

    /// Run a task of an indexed pipeline, which yields exactly one item.
    pub(crate) fn run_single(self) -> T {
        let mut slot = None;
        self.run(&mut |item| slot = Some(item));
        slot.expect("a task of an indexed parallel iterator yields exactly one item")
    }

    /// Run the task and gather what it produces.
    pub(crate) fn run_to_vec(self) -> Vec<T> {
        let mut items = Vec::new();
        self.run(&mut |item| items.push(item));
        items
    }

    /// A new task (same guards) whose body is `body(self, sink)`.
    pub(crate) fn wrap<U>(self, body: impl FnOnce(ItemTask<'a, T>, Sink<'_, U>) + Send + 'a) -> ItemTask<'a, U>
    where
        T: Send + 'a,
    {
        ItemTask::new(self.guards.clone(), move |sink| body(self, sink))
    }
}

/// A parallel iterator pipeline: one item task per base item, in index order.
#[must_use = "parallel iterators are lazy and do nothing unless consumed"]
pub struct ParIter<'a, T, K = Unindexed> {
    pub(crate) tasks: Vec<ItemTask<'a, T>>,
    /// Partition of the tasks into runs of consecutive tasks ("jobs": what one rayon worker
    /// processes sequentially without being split further). Set by adaptors that keep
    /// per-job state (`map_init`, `map_with`, ...); `None` = every task is its own job.
    pub(crate) runs: Option<Vec<usize>>,
    kind: PhantomData<fn() -> K>,
}

impl<T, K> std::fmt::Debug for ParIter<'_, T, K> {
    fn fmt(&self, f: &mut std::fmt::Formatter<'_>) -> std::fmt::Result {
        f.debug_struct("ParIter").field("tasks", &self.tasks.len()).finish()
    }
}

impl<'b, T: Send, K: Kind> ParallelIterator for ParIter<'b, T, K> {
    type Item = T;
    type Kind = K;

    fn lower<'a>(self) -> ParIter<'a, T, K>
    where
        Self: 'a,
    {
        self
    }

    fn task_count(&self) -> usize {
        self.tasks.len()
    }
}

impl<'a, T: Send + 'a, K> ParIter<'a, T, K> {
    pub(crate) fn from_tasks(tasks: Vec<ItemTask<'a, T>>) -> Self {
        ParIter { tasks, runs: None, kind: PhantomData }
    }

    /// The partition into jobs, chosen by the oracle the first time it is needed.
    pub(crate) fn ensure_runs(&mut self) -> Vec<usize> {
        if self.runs.is_none() {
            self.runs = Some(choose_chunks(self.tasks.len()));
        }
        self.runs.clone().unwrap()
    }

    /// Apply `f` to every task (with its index).
    pub(crate) fn map_tasks<U: Send + 'a, K2>(
        self,
        f: impl FnMut(usize, ItemTask<'a, T>) -> ItemTask<'a, U>,
    ) -> ParIter<'a, U, K2> {
        let mut f = f;
        let runs = self.runs;
        let mut out = ParIter::from_tasks(self.tasks.into_iter().enumerate().map(|(i, task)| f(i, task)).collect());
        // same number of tasks, same positions: the job partition carries over
        out.runs = runs;
        out
    }

    /// The common shape of an adaptor: every item of every task goes through
    /// `step`, which passes on zero or more items to the next stage.
    pub(crate) fn adapt<U: Send + 'a, K2>(
        self,
        step: impl Fn(T, Sink<'_, U>) + Send + Sync + 'a,
    ) -> ParIter<'a, U, K2> {
        let step = Arc::new(step);
        self.map_tasks(|_, task| {
            let step = Arc::clone(&step);
            task.wrap(move |task, sink| task.run(&mut |item| step(item, &mut *sink)))
        })
    }

    /// Let every task be skippable once `stop` is set.
    pub(crate) fn guard(mut self, stop: &Arc<Stop>) -> Self {
        for task in &mut self.tasks {
            task.guards.push(Arc::clone(stop));
        }
        self
    }

    /// Let task `i` be skippable once `stops[i]` is set.
    pub(crate) fn guard_each(mut self, stops: &[Arc<Stop>]) -> Self {
        for (task, stop) in self.tasks.iter_mut().zip(stops) {
            task.guards.push(Arc::clone(stop));
        }
        self
    }

    /// Replace runs of consecutive tasks (`sizes[i]` tasks each) by one task per
    /// run.  `fold_run` executes the members of a run sequentially, like a rayon
    /// leaf that was not split any further.
    pub(crate) fn merge_runs<U: Send + 'a, K2>(
        self,
        sizes: Vec<usize>,
        fold_run: impl Fn(Vec<ItemTask<'a, T>>, Sink<'_, U>) + Send + Sync + 'a,
    ) -> ParIter<'a, U, K2> {
        let fold_run = Arc::new(fold_run);
        let mut rest = self.tasks.into_iter();
        let merged = sizes.into_iter().map(|size| {
            let members: Vec<ItemTask<'a, T>> = rest.by_ref().take(size).collect();
            let guards = members.iter().flat_map(|m| m.guards.iter().cloned()).collect();
            let fold_run = Arc::clone(&fold_run);
            ItemTask::new(guards, move |sink| fold_run(members, sink))
        });
        ParIter::from_tasks(merged.collect())
    }

    /// Terminal step: run all tasks as one section.  `per_task` executes inside
    /// the task; slot `i` of the result is `None` if task `i` was skipped.
    pub(crate) fn run<R: Send>(self, per_task: &(impl Fn(usize, ItemTask<'a, T>) -> R + Sync)) -> Vec<Option<R>> {
        let n = self.tasks.len();
        match self.runs {
            Some(sizes) if sizes.iter().sum::<usize>() == n && sizes.len() < n => {
                // One section task per job; the members of a job run sequentially, in index
                // order, like a rayon leaf that is not split any further.
                let mut rest = self.tasks.into_iter().enumerate();
                let jobs = sizes.into_iter().map(|size| {
                    let members: Vec<(usize, ItemTask<'a, T>)> = rest.by_ref().take(size).collect();
                    let guards: Vec<Arc<Stop>> = members.iter().flat_map(|m| m.1.guards.iter().cloned()).collect();
                    Task::new(move || {
                        let mut out = Vec::with_capacity(members.len());
                        for (index, task) in members {
                            if task.may_be_skipped() {
                                break; // a sequential leaf checks `full()` between items
                            }
                            out.push((index, per_task(index, task)));
                        }
                        out
                    })
                    .guarded_by(guards)
                });
                let mut slots: Vec<Option<R>> = (0..n).map(|_| None).collect();
                for job in sched::section(jobs.collect()).into_iter().flatten() {
                    for (index, value) in job {
                        slots[index] = Some(value);
                    }
                }
                slots
            }
            _ => {
                let tasks = self.tasks.into_iter().enumerate().map(|(index, task)| {
                    let guards = task.guards.clone();
                    Task::new(move || per_task(index, task)).guarded_by(guards)
                });
                sched::section(tasks.collect())
            }
        }
    }

    /// Terminal step: all items, in index order (whatever order the tasks ran in).
    pub(crate) fn collect_items(self) -> Vec<T> {
        if self.tasks.iter().all(|task| matches!(task.body, Body::Ready(_))) {
            // Bare items, no user code to run: not a scheduling point.
            return self.tasks.into_iter().map(ItemTask::run_single).collect();
        }
        let per_task = self.run(&|_, task| task.run_to_vec());
        per_task.into_iter().flatten().flatten().collect()
    }
}

/// Combine `operands` (in index order) with `op` along a binary tree chosen by
/// the oracle; `None` if there are no operands.
///
/// For a range of `len >= 2` operands the oracle picks `k` in `0..len-1`
/// (`Site::ReduceSplit`); the range is split so that its right part has `k + 1`
/// operands.  Always answering `0` therefore yields the sequential left fold
/// `op(op(op(x0, x1), x2), x3)`.  The oracle is asked top-down, left part
/// first; `op` is applied bottom-up.
pub(crate) fn reduce_tree<T>(mut operands: Vec<T>, op: &impl Fn(T, T) -> T) -> Option<T> {
    if sched::mode() == sched::Mode::Sequential {
        return operands.into_iter().reduce(op);
    }
    match operands.len() {
        0 => None,
        1 => operands.pop(),
        len => {
            let k = sched::choose(Site::ReduceSplit, len - 1);
            let right = operands.split_off(len - 1 - k);
            let left = reduce_tree(operands, op)?;
            let right = reduce_tree(right, op)?;
            Some(op(left, right))
        }
    }
}

/// Cut `len` consecutive tasks into runs for `fold`: the lengths of the runs.
///
/// For a range of `len` tasks the oracle picks `k` in `0..len`
/// (`Site::ReduceSplit`): `0` keeps the range in one piece, `k > 0` cuts it after
/// `k` tasks and both parts are cut further.  Always answering `0` yields a
/// single run, i.e. the sequential fold.  An empty pipeline is one empty run
/// (rayon yields one `identity()` for it).
pub(crate) fn choose_chunks(len: usize) -> Vec<usize> {
    fn cut(len: usize, sizes: &mut Vec<usize>) {
        match sched::choose(Site::ReduceSplit, len) {
            0 => sizes.push(len),
            k => {
                cut(k, sizes);
                cut(len - k, sizes);
            }
        }
    }
    let mut sizes = Vec::new();
    cut(len, &mut sizes);
    sizes
}

/// Runs of `size` tasks (the last one may be shorter), for `chunks` / `fold_chunks`.
pub(crate) fn fixed_chunks(len: usize, size: usize) -> Vec<usize> {
    assert!(size != 0, "chunk_size must not be zero");
    (0..len).step_by(size).map(|start| size.min(len - start)).collect()
}
