//! `FromParallelIterator` / `ParallelExtend` for the standard collections.
//!
//! All of them receive the items **in index order**, whatever order the tasks
//! ran in (so for maps and sets the highest index wins among equal keys), as
//! rayon's own implementations do.  `Result<C, E>` and `Option<C>` are written
//! exactly as in rayon: the failure kept is the first one to *arrive*.

use std::borrow::Cow;
use std::collections::{BTreeMap, BTreeSet, BinaryHeap, HashMap, HashSet, LinkedList, VecDeque};
use std::hash::{BuildHasher, Hash};
use std::rc::Rc;
use std::sync::{Arc, Mutex};

use super::{FromParallelIterator, IntoParallelIterator, ParallelExtend, ParallelIterator};

/// Run the pipeline (one section) and return its items in index order.
fn items_in_order<I: IntoParallelIterator>(par_iter: I) -> Vec<I::Item> {
    par_iter.into_par_iter().lower().collect_items()
}

/// `ParallelExtend<$item>` through `Extend`, and `FromParallelIterator<$item>`
/// through `Default` + `par_extend`.
macro_rules! extend_and_collect {
    ($([$($params:tt)*] $item:ty => $collection:ty where [$($bounds:tt)*];)*) => {$(
        impl<$($params)*> ParallelExtend<$item> for $collection where $($bounds)* {
            fn par_extend<I>(&mut self, par_iter: I)
            where
                I: IntoParallelIterator<Item = $item>,
            {
                self.extend(items_in_order(par_iter));
            }
        }
        impl<$($params)*> FromParallelIterator<$item> for $collection where $($bounds)* {
            fn from_par_iter<I>(par_iter: I) -> Self
            where
                I: IntoParallelIterator<Item = $item>,
            {
                let mut collection = <$collection>::default();
                collection.par_extend(par_iter);
                collection
            }
        }
    )*};
}

/// `ParallelExtend<$item>` through `Extend` only (by-reference items).
macro_rules! extend_only {
    ($([$($params:tt)*] $item:ty => $collection:ty where [$($bounds:tt)*];)*) => {$(
        impl<$($params)*> ParallelExtend<$item> for $collection where $($bounds)* {
            fn par_extend<I>(&mut self, par_iter: I)
            where
                I: IntoParallelIterator<Item = $item>,
            {
                self.extend(items_in_order(par_iter));
            }
        }
    )*};
}

extend_and_collect! {
    [T] T => Vec<T> where [T: Send];
    [T] T => VecDeque<T> where [T: Send];
    [T] T => BinaryHeap<T> where [T: Ord + Send];
    [T] T => LinkedList<T> where [T: Send];
    [K, V, S] (K, V) => HashMap<K, V, S> where [K: Eq + Hash + Send, V: Send, S: BuildHasher + Default + Send];
    [K, V] (K, V) => BTreeMap<K, V> where [K: Ord + Send, V: Send];
    [T, S] T => HashSet<T, S> where [T: Eq + Hash + Send, S: BuildHasher + Default + Send];
    [T] T => BTreeSet<T> where [T: Ord + Send];
    [] char => String where [];
    ['a] &'a char => String where [];
    ['a] &'a str => String where [];
    [] String => String where [];
    [] Box<str> => String where [];
    ['a] Cow<'a, str> => String where [];
}

extend_only! {
    ['a, T] &'a T => Vec<T> where [T: 'a + Copy + Send + Sync];
    ['a, T] &'a T => VecDeque<T> where [T: 'a + Copy + Send + Sync];
    ['a, T] &'a T => BinaryHeap<T> where [T: 'a + Copy + Ord + Send + Sync];
    ['a, T] &'a T => LinkedList<T> where [T: 'a + Copy + Send + Sync];
    ['a, K, V, S] (&'a K, &'a V) => HashMap<K, V, S>
        where [K: 'a + Copy + Eq + Hash + Send + Sync, V: 'a + Copy + Send + Sync, S: BuildHasher + Send];
    ['a, K, V] (&'a K, &'a V) => BTreeMap<K, V> where [K: 'a + Copy + Ord + Send + Sync, V: 'a + Copy + Send + Sync];
    ['a, T, S] &'a T => HashSet<T, S> where [T: 'a + Copy + Eq + Hash + Send + Sync, S: BuildHasher + Send];
    ['a, T] &'a T => BTreeSet<T> where [T: 'a + Copy + Ord + Send + Sync];
}

impl<T: Send> FromParallelIterator<T> for Box<[T]> {
    fn from_par_iter<I>(par_iter: I) -> Self
    where
        I: IntoParallelIterator<Item = T>,
    {
        items_in_order(par_iter).into()
    }
}

impl<T: Send> FromParallelIterator<T> for Rc<[T]> {
    fn from_par_iter<I>(par_iter: I) -> Self
    where
        I: IntoParallelIterator<Item = T>,
    {
        items_in_order(par_iter).into()
    }
}

impl<T: Send> FromParallelIterator<T> for Arc<[T]> {
    fn from_par_iter<I>(par_iter: I) -> Self
    where
        I: IntoParallelIterator<Item = T>,
    {
        items_in_order(par_iter).into()
    }
}

/// Runs the iterator for its side effects.
impl FromParallelIterator<()> for () {
    fn from_par_iter<I>(par_iter: I) -> Self
    where
        I: IntoParallelIterator<Item = ()>,
    {
        items_in_order(par_iter);
    }
}

impl ParallelExtend<()> for () {
    fn par_extend<I>(&mut self, par_iter: I)
    where
        I: IntoParallelIterator<Item = ()>,
    {
        items_in_order(par_iter);
    }
}

/// Pairs are unzipped into a pair of collections.
impl<A, B, FromA, FromB> FromParallelIterator<(A, B)> for (FromA, FromB)
where
    A: Send,
    B: Send,
    FromA: Send + Default + ParallelExtend<A>,
    FromB: Send + Default + ParallelExtend<B>,
{
    fn from_par_iter<I>(par_iter: I) -> Self
    where
        I: IntoParallelIterator<Item = (A, B)>,
    {
        par_iter.into_par_iter().unzip()
    }
}

impl<A, B, FromA, FromB> ParallelExtend<(A, B)> for (FromA, FromB)
where
    A: Send,
    B: Send,
    FromA: Send + ParallelExtend<A>,
    FromB: Send + ParallelExtend<B>,
{
    fn par_extend<I>(&mut self, par_iter: I)
    where
        I: IntoParallelIterator<Item = (A, B)>,
    {
        let (left, right): (Vec<A>, Vec<B>) = items_in_order(par_iter).into_iter().unzip();
        self.0.par_extend(left);
        self.1.par_extend(right);
    }
}

/// Collect an arbitrary `Result`-wrapped collection (rayon's `result.rs`).
///
/// If any item is `Err`, the error that arrived first is returned.
impl<C, T, E> FromParallelIterator<Result<T, E>> for Result<C, E>
where
    C: FromParallelIterator<T>,
    T: Send,
    E: Send,
{
    fn from_par_iter<I>(par_iter: I) -> Self
    where
        I: IntoParallelIterator<Item = Result<T, E>>,
    {
        let saved_error = Mutex::new(None);
        let keep_first_error = |item| match item {
            Ok(item) => Some(item),
            Err(error) => {
                let mut saved = saved_error.lock().unwrap();
                if saved.is_none() {
                    *saved = Some(error);
                }
                None
            }
        };
        let collection = par_iter.into_par_iter().map(keep_first_error).while_some().collect();
        match saved_error.into_inner().unwrap() {
            Some(error) => Err(error),
            None => Ok(collection),
        }
    }
}

/// Collect an arbitrary `Option`-wrapped collection (rayon's `option.rs`).
impl<C, T> FromParallelIterator<Option<T>> for Option<C>
where
    C: FromParallelIterator<T>,
    T: Send,
{
    fn from_par_iter<I>(par_iter: I) -> Self
    where
        I: IntoParallelIterator<Item = Option<T>>,
    {
        let found_none = std::sync::atomic::AtomicBool::new(false);
        let check = |item: &Option<T>| {
            if item.is_none() {
                found_none.store(true, std::sync::atomic::Ordering::SeqCst);
            }
        };
        let collection = par_iter.into_par_iter().inspect(check).while_some().collect();
        if found_none.load(std::sync::atomic::Ordering::SeqCst) {
            None
        } else {
            Some(collection)
        }
    }
}
