//! `IntoParallelIterator` for the standard types, and `par_bridge`.
//!
//! Every source simply materialises its items into a [`Source`].  As in rayon,
//! sequences (`Vec`, slices, arrays, `VecDeque`, `Option`, `Result`, ranges of
//! integers no wider than `usize`) are indexed; maps, sets, lists and ranges
//! of 64/128-bit integers are not.

use std::collections::{BTreeMap, BTreeSet, BinaryHeap, HashMap, HashSet, LinkedList, VecDeque};
use std::hash::{BuildHasher, Hash};
use std::ops::{Range, RangeInclusive};

use super::par_iter::{Indexed, ParIter, Source, Unindexed};
use super::{IntoParallelIterator, ParallelIterator};

/// `impl<$params> IntoParallelIterator for $collection`: the items are whatever
/// the std `IntoIterator` of `$collection` yields.
macro_rules! source {
    ($kind:ty; [$($params:tt)*] $collection:ty => $item:ty where [$($bounds:tt)*]) => {
        impl<$($params)*> IntoParallelIterator for $collection where $($bounds)* {
            type Item = $item;
            type Iter = Source<$item, $kind>;
            fn into_par_iter(self) -> Self::Iter {
                Source::new(self)
            }
        }
    };
}

/// Owned, `&` and `&mut` sources for a sequence-like `$collection<T>`.
macro_rules! sequence {
    ($kind:ty; [$($params:tt)*] $collection:ty) => {
        source!($kind; [$($params)*] $collection => T where [T: Send]);
        source!($kind; ['data, $($params)*] &'data $collection => &'data T where [T: Sync + 'data]);
        source!($kind; ['data, $($params)*] &'data mut $collection => &'data mut T where [T: Send + 'data]);
    };
}

sequence!(Indexed; [T] Vec<T>);
sequence!(Indexed; [T] VecDeque<T>);
sequence!(Indexed; [T, const N: usize] [T; N]);
sequence!(Indexed; [T] Option<T>);
sequence!(Indexed; [T, E] Result<T, E>);
sequence!(Unindexed; [T] LinkedList<T>);
source!(Indexed; ['data, T] &'data [T] => &'data T where [T: Sync + 'data]);
source!(Indexed; ['data, T] &'data mut [T] => &'data mut T where [T: Send + 'data]);

source!(Indexed; [T] BinaryHeap<T> => T where [T: Ord + Send]);
source!(Indexed; ['data, T] &'data BinaryHeap<T> => &'data T where [T: Ord + Sync + 'data]);

source!(Unindexed; [T] BTreeSet<T> => T where [T: Ord + Send]);
source!(Unindexed; ['data, T] &'data BTreeSet<T> => &'data T where [T: Ord + Sync + 'data]);

source!(Unindexed; [T, S] HashSet<T, S> => T where [T: Hash + Eq + Send, S: BuildHasher]);
source!(Unindexed; ['data, T, S] &'data HashSet<T, S> => &'data T where [T: Hash + Eq + Sync + 'data, S: BuildHasher]);

source!(Unindexed; [K, V] BTreeMap<K, V> => (K, V) where [K: Ord + Send, V: Send]);
source!(Unindexed; ['data, K, V] &'data BTreeMap<K, V> => (&'data K, &'data V)
    where [K: Ord + Sync + 'data, V: Sync + 'data]);
source!(Unindexed; ['data, K, V] &'data mut BTreeMap<K, V> => (&'data K, &'data mut V)
    where [K: Ord + Sync + 'data, V: Send + 'data]);

source!(Unindexed; [K, V, S] HashMap<K, V, S> => (K, V) where [K: Hash + Eq + Send, V: Send, S: BuildHasher]);
source!(Unindexed; ['data, K, V, S] &'data HashMap<K, V, S> => (&'data K, &'data V)
    where [K: Hash + Eq + Sync + 'data, V: Sync + 'data, S: BuildHasher]);
source!(Unindexed; ['data, K, V, S] &'data mut HashMap<K, V, S> => (&'data K, &'data mut V)
    where [K: Hash + Eq + Sync + 'data, V: Send + 'data, S: BuildHasher]);

macro_rules! ranges {
    ($kind:ty: $($t:ty),*) => {$(
        source!($kind; [] Range<$t> => $t where []);
        source!($kind; [] RangeInclusive<$t> => $t where []);
    )*};
}
ranges!(Indexed: u8, u16, u32, usize, i8, i16, i32, isize, char);
ranges!(Unindexed: u64, i64, u128, i128);

/// `par_bridge()`: turn a sequential iterator into a parallel one.
///
/// rayon hands the items to whichever worker asks next, so downstream order is
/// arbitrary there; here the items keep the order of the sequential iterator.
pub trait ParallelBridge: Sized {
    fn par_bridge(self) -> IterBridge<Self>;
}

impl<T: Iterator + Send> ParallelBridge for T
where
    T::Item: Send,
{
    fn par_bridge(self) -> IterBridge<Self> {
        IterBridge { iter: self }
    }
}

/// The result of `par_bridge()`.  The sequential iterator is drained on the
/// calling thread when the next adaptor or terminal operation is applied.
#[derive(Debug, Clone)]
#[must_use = "parallel iterators are lazy and do nothing unless consumed"]
pub struct IterBridge<Iter> {
    iter: Iter,
}

impl<Iter: Iterator + Send> ParallelIterator for IterBridge<Iter>
where
    Iter::Item: Send,
{
    type Item = Iter::Item;
    type Kind = Unindexed;

    fn lower<'a>(self) -> ParIter<'a, Self::Item, Unindexed>
    where
        Self: 'a,
    {
        Source::<Self::Item, Unindexed>::new(self.iter).lower()
    }

    fn task_count(&self) -> usize {
        self.iter.size_hint().0
    }
}
