//! The parallel iterator traits.
//!
//! Signatures follow rayon 1.10 (`Fn + Sync + Send` closures, `Send` items)
//! with one difference: every adaptor returns the concrete [`ParIter`] instead
//! of a dedicated `Map<I, F>`, `Filter<I, P>`, ... type.  The lifetime `'a` that
//! appears on the adaptors is the lifetime of the boxed closures; it is always
//! inferred.  (Visible consequence: a function that is generic over
//! `P: ParallelIterator` and returns `impl ParallelIterator` built from `P`
//! needs `P: 'static` or a named lifetime, which real rayon does not ask for.)
//!
//! What runs where:
//! * adaptor closures and the per-item closures of terminal operations
//!   (`for_each`, predicates, `partition`'s predicate, ...) run inside the tasks;
//! * combining closures (`reduce`'s `op`, the tree part of `sum`, `min`, ...)
//!   and the insertion into collections run on the calling thread after the
//!   section, over per-task results kept in index order.

mod collect;
mod par_iter;
mod sources;

use std::cmp::Ordering;
use std::collections::LinkedList;
use std::iter::{Product, Sum};
use std::ops::ControlFlow::{Break, Continue};
use std::sync::atomic::{AtomicBool, AtomicUsize, Ordering as AtomicOrdering};
use std::sync::{Arc, Mutex};

pub use either::Either;

use self::par_iter::{choose_chunks, fixed_chunks, reduce_tree, ItemTask};
pub use self::par_iter::{Indexed, Kind, ParIter, Source, Unindexed};
use self::private::Try;
pub use self::sources::{IterBridge, ParallelBridge};
use crate::sched::Stop;

/// A parallel iterator that yields nothing.
pub fn empty<T: Send>() -> Source<T, Indexed> {
    Source::new([])
}

/// A parallel iterator that yields `item` once.
pub fn once<T: Send>(item: T) -> Source<T, Indexed> {
    Source::new([item])
}

/// A parallel iterator that yields `n` clones of `item`.
pub fn repeatn<T: Clone + Send>(item: T, n: usize) -> Source<T, Indexed> {
    Source::new(std::iter::repeat(item).take(n))
}

/// Conversion into a parallel iterator (`into_par_iter`).
pub trait IntoParallelIterator {
    type Iter: ParallelIterator<Item = Self::Item>;
    type Item: Send;
    fn into_par_iter(self) -> Self::Iter;
}

impl<T: ParallelIterator> IntoParallelIterator for T {
    type Iter = T;
    type Item = T::Item;
    fn into_par_iter(self) -> T {
        self
    }
}

/// `par_iter()`: implemented for every `I` with `&I: IntoParallelIterator`.
pub trait IntoParallelRefIterator<'data> {
    type Iter: ParallelIterator<Item = Self::Item>;
    type Item: Send + 'data;
    fn par_iter(&'data self) -> Self::Iter;
}

impl<'data, I: 'data + ?Sized> IntoParallelRefIterator<'data> for I
where
    &'data I: IntoParallelIterator,
{
    type Iter = <&'data I as IntoParallelIterator>::Iter;
    type Item = <&'data I as IntoParallelIterator>::Item;
    fn par_iter(&'data self) -> Self::Iter {
        self.into_par_iter()
    }
}

/// `par_iter_mut()`: implemented for every `I` with `&mut I: IntoParallelIterator`.
pub trait IntoParallelRefMutIterator<'data> {
    type Iter: ParallelIterator<Item = Self::Item>;
    type Item: Send + 'data;
    fn par_iter_mut(&'data mut self) -> Self::Iter;
}

impl<'data, I: 'data + ?Sized> IntoParallelRefMutIterator<'data> for I
where
    &'data mut I: IntoParallelIterator,
{
    type Iter = <&'data mut I as IntoParallelIterator>::Iter;
    type Item = <&'data mut I as IntoParallelIterator>::Item;
    fn par_iter_mut(&'data mut self) -> Self::Iter {
        self.into_par_iter()
    }
}

/// `collect()` target.
pub trait FromParallelIterator<T>
where
    T: Send,
{
    fn from_par_iter<I>(par_iter: I) -> Self
    where
        I: IntoParallelIterator<Item = T>;
}

/// `par_extend()`.
pub trait ParallelExtend<T>
where
    T: Send,
{
    fn par_extend<I>(&mut self, par_iter: I)
    where
        I: IntoParallelIterator<Item = T>;
}

/// A parallel iterator.  Implemented by [`Source`], [`ParIter`] and [`IterBridge`] only.
pub trait ParallelIterator: Sized + Send {
    type Item: Send;

    /// Shim plumbing: [`Indexed`] or [`Unindexed`].
    #[doc(hidden)]
    type Kind: Kind;

    /// Shim plumbing: the pipeline as one item task per base item.
    #[doc(hidden)]
    fn lower<'a>(self) -> ParIter<'a, Self::Item, Self::Kind>
    where
        Self: 'a;

    /// Shim plumbing: the number of tasks `lower` will produce.
    #[doc(hidden)]
    fn task_count(&self) -> usize;

    // ------------------------------------------------------------------
    // Adaptors.  Nothing runs here: closures are only attached to the tasks.
    // ------------------------------------------------------------------

    fn map<'a, F, R>(self, map_op: F) -> ParIter<'a, R, Self::Kind>
    where
        Self: 'a,
        F: Fn(Self::Item) -> R + Sync + Send + 'a,
        R: Send + 'a,
    {
        self.lower().adapt(move |item, sink| sink(map_op(item)))
    }

    /// rayon clones `init` once per job; see `map_init` for how jobs are chosen.
    fn map_with<'a, F, T, R>(self, init: T, map_op: F) -> ParIter<'a, R, Self::Kind>
    where
        Self: 'a,
        F: Fn(&mut T, Self::Item) -> R + Sync + Send + 'a,
        T: Send + Clone + 'a,
        R: Send + 'a,
    {
        let init = Mutex::new(init);
        self.map_init(move || init.lock().unwrap().clone(), map_op)
    }

    /// rayon calls `init` once per job (a run of consecutive items that one worker processes
    /// without being split further) and reuses the value for every item of the job. The
    /// partition into jobs is rayon's choice, so it is the oracle's here
    /// (`Site::ReduceSplit`; default: one job holding everything, as on a pool that never
    /// splits). The items of a job run sequentially, in index order, inside one section task.
    fn map_init<'a, F, INIT, T, R>(self, init: INIT, map_op: F) -> ParIter<'a, R, Self::Kind>
    where
        Self: 'a,
        F: Fn(&mut T, Self::Item) -> R + Sync + Send + 'a,
        INIT: Fn() -> T + Sync + Send + 'a,
        T: Send + 'a,
        R: Send + 'a,
    {
        let shared = Arc::new((init, map_op));
        let mut lowered = self.lower();
        let sizes = lowered.ensure_runs();
        // job id of every task
        let mut job_of = Vec::with_capacity(lowered.tasks.len());
        for (job, size) in sizes.iter().enumerate() {
            job_of.extend(std::iter::repeat(job).take(*size));
        }
        let states: Vec<Arc<Mutex<Option<T>>>> = sizes.iter().map(|_| Arc::new(Mutex::new(None))).collect();
        lowered.map_tasks(|i, task| {
            let shared = Arc::clone(&shared);
            let state = job_of.get(i).map(|&j| Arc::clone(&states[j]));
            task.wrap(move |task, sink| {
                let (init, map_op) = &*shared;
                // The job's state, created by its first item. Should the partition have been
                // lost further down the pipeline (zip, chain, ...) and another item of the job
                // be running right now, this item forms a job of its own: any split is legal.
                let mut guard = state.as_ref().and_then(|s| s.try_lock().ok());
                match guard.as_deref_mut() {
                    Some(slot) => {
                        let st = slot.get_or_insert_with(init);
                        task.run(&mut |item| sink(map_op(st, item)));
                    }
                    None => {
                        let mut st = init();
                        task.run(&mut |item| sink(map_op(&mut st, item)));
                    }
                }
            })
        })
    }

    fn cloned<'a, 'data, T>(self) -> ParIter<'a, T, Self::Kind>
    where
        Self: ParallelIterator<Item = &'data T> + 'a,
        T: 'data + Clone + Send + 'a,
    {
        self.map(|item: &T| item.clone())
    }

    fn copied<'a, 'data, T>(self) -> ParIter<'a, T, Self::Kind>
    where
        Self: ParallelIterator<Item = &'data T> + 'a,
        T: 'data + Copy + Send + 'a,
    {
        self.map(|item: &T| *item)
    }

    fn inspect<'a, OP>(self, inspect_op: OP) -> ParIter<'a, Self::Item, Self::Kind>
    where
        Self: 'a,
        OP: Fn(&Self::Item) + Sync + Send + 'a,
    {
        self.lower().adapt(move |item, sink| {
            inspect_op(&item);
            sink(item)
        })
    }

    fn update<'a, F>(self, update_op: F) -> ParIter<'a, Self::Item, Self::Kind>
    where
        Self: 'a,
        F: Fn(&mut Self::Item) + Sync + Send + 'a,
    {
        self.lower().adapt(move |mut item, sink| {
            update_op(&mut item);
            sink(item)
        })
    }

    fn filter<'a, P>(self, filter_op: P) -> ParIter<'a, Self::Item, Unindexed>
    where
        Self: 'a,
        P: Fn(&Self::Item) -> bool + Sync + Send + 'a,
    {
        self.lower().adapt(move |item, sink| {
            if filter_op(&item) {
                sink(item)
            }
        })
    }

    fn filter_map<'a, P, R>(self, filter_op: P) -> ParIter<'a, R, Unindexed>
    where
        Self: 'a,
        P: Fn(Self::Item) -> Option<R> + Sync + Send + 'a,
        R: Send + 'a,
    {
        self.lower().adapt(move |item, sink| {
            if let Some(mapped) = filter_op(item) {
                sink(mapped)
            }
        })
    }

    /// The inner parallel iterator runs as a nested section inside the task; its
    /// items are passed on in index order once that section is over.
    fn flat_map<'a, F, PI>(self, map_op: F) -> ParIter<'a, PI::Item, Unindexed>
    where
        Self: 'a,
        F: Fn(Self::Item) -> PI + Sync + Send + 'a,
        PI: IntoParallelIterator,
        PI::Item: 'a,
    {
        self.lower().adapt(move |item, sink| {
            for inner_item in map_op(item).into_par_iter().lower().collect_items() {
                sink(inner_item)
            }
        })
    }

    fn flat_map_iter<'a, F, SI>(self, map_op: F) -> ParIter<'a, SI::Item, Unindexed>
    where
        Self: 'a,
        F: Fn(Self::Item) -> SI + Sync + Send + 'a,
        SI: IntoIterator,
        SI::Item: Send + 'a,
    {
        self.lower().adapt(move |item, sink| {
            for inner_item in map_op(item) {
                sink(inner_item)
            }
        })
    }

    fn flatten<'a>(self) -> ParIter<'a, <Self::Item as IntoParallelIterator>::Item, Unindexed>
    where
        Self: 'a,
        Self::Item: IntoParallelIterator,
        <Self::Item as IntoParallelIterator>::Item: 'a,
    {
        self.flat_map(|inner| inner)
    }

    fn flatten_iter<'a>(self) -> ParIter<'a, <Self::Item as IntoIterator>::Item, Unindexed>
    where
        Self: 'a,
        Self::Item: IntoIterator,
        <Self::Item as IntoIterator>::Item: Send + 'a,
    {
        self.flat_map_iter(|inner| inner)
    }

    /// One accumulator per run of consecutive tasks; the runs are chosen by the
    /// oracle when `fold` is called (default: a single run).  Within a run the
    /// tasks execute sequentially, in index order, inside one task.
    fn fold<'a, T, ID, F>(self, identity: ID, fold_op: F) -> ParIter<'a, T, Unindexed>
    where
        Self: 'a,
        F: Fn(T, Self::Item) -> T + Sync + Send + 'a,
        ID: Fn() -> T + Sync + Send + 'a,
        T: Send + 'a,
    {
        let sizes = choose_chunks(self.task_count());
        self.lower().merge_runs(sizes, move |members, sink| {
            let mut acc = Some(identity());
            for member in members {
                if member.may_be_skipped() {
                    break; // a sequential leaf checks `full()` between items
                }
                member.run(&mut |item| acc = Some(fold_op(acc.take().unwrap(), item)));
            }
            sink(acc.unwrap())
        })
    }

    fn fold_with<'a, F, T>(self, init: T, fold_op: F) -> ParIter<'a, T, Unindexed>
    where
        Self: 'a,
        F: Fn(T, Self::Item) -> T + Sync + Send + 'a,
        T: Send + Clone + 'a,
    {
        let init = Mutex::new(init);
        self.fold(move || init.lock().unwrap().clone(), fold_op)
    }

    /// Like `fold`; a run stops at the first `Break`.
    fn try_fold<'a, T, R, ID, F>(self, identity: ID, fold_op: F) -> ParIter<'a, R, Unindexed>
    where
        Self: 'a,
        F: Fn(T, Self::Item) -> R + Sync + Send + 'a,
        ID: Fn() -> T + Sync + Send + 'a,
        R: Try<Output = T> + Send + 'a,
    {
        let sizes = choose_chunks(self.task_count());
        self.lower().merge_runs(sizes, move |members, sink| {
            let mut control = Some(Continue(identity()));
            for member in members {
                if member.may_be_skipped() || matches!(control, Some(Break(_))) {
                    break;
                }
                member.run(&mut |item| {
                    control = Some(match control.take().unwrap() {
                        Continue(acc) => fold_op(acc, item).branch(),
                        stopped => stopped,
                    })
                });
            }
            sink(match control.unwrap() {
                Continue(acc) => R::from_output(acc),
                Break(residual) => R::from_residual(residual),
            })
        })
    }

    fn try_fold_with<'a, F, T, R>(self, init: T, fold_op: F) -> ParIter<'a, R, Unindexed>
    where
        Self: 'a,
        F: Fn(T, Self::Item) -> R + Sync + Send + 'a,
        R: Try<Output = T> + Send + 'a,
        T: Clone + Send + 'a,
    {
        let init = Mutex::new(init);
        self.try_fold(move || init.lock().unwrap().clone(), fold_op)
    }

    fn chain<'a, C>(
        self,
        chain: C,
    ) -> ParIter<'a, Self::Item, <Self::Kind as Kind>::And<<C::Iter as ParallelIterator>::Kind>>
    where
        Self: 'a,
        C: IntoParallelIterator<Item = Self::Item>,
        C::Iter: 'a,
    {
        let mut tasks = self.lower().tasks;
        tasks.extend(chain.into_par_iter().lower().tasks);
        ParIter::from_tasks(tasks)
    }

    /// Items after the first `None` to arrive may or may not be produced: tasks
    /// that have not started by then can be skipped (oracle's choice).
    fn while_some<'a, T>(self) -> ParIter<'a, T, Unindexed>
    where
        Self: ParallelIterator<Item = Option<T>> + 'a,
        T: Send + 'a,
    {
        let full = Stop::new();
        let flag = Arc::clone(&full);
        self.lower().guard(&full).adapt(move |item, sink| match item {
            Some(item) => sink(item),
            None => flag.set(),
        })
    }

    /// Panics are handled by the scheduler; this is the identity.
    fn panic_fuse<'a>(self) -> ParIter<'a, Self::Item, Self::Kind>
    where
        Self: 'a,
    {
        self.lower()
    }

    /// The first `n` items to arrive.
    fn take_any<'a>(self, n: usize) -> ParIter<'a, Self::Item, Unindexed>
    where
        Self: 'a,
    {
        let full = Stop::new();
        let flag = Arc::clone(&full);
        let taken = AtomicUsize::new(0);
        self.lower().guard(&full).adapt(move |item, sink| {
            if taken.fetch_add(1, AtomicOrdering::SeqCst) < n {
                sink(item)
            } else {
                flag.set()
            }
        })
    }

    /// All but the first `n` items to arrive.
    fn skip_any<'a>(self, n: usize) -> ParIter<'a, Self::Item, Unindexed>
    where
        Self: 'a,
    {
        let skipped = AtomicUsize::new(0);
        self.lower().adapt(move |item, sink| {
            if skipped.fetch_add(1, AtomicOrdering::SeqCst) >= n {
                sink(item)
            }
        })
    }

    /// Items that arrive before the first one that fails `predicate`.
    fn take_any_while<'a, P>(self, predicate: P) -> ParIter<'a, Self::Item, Unindexed>
    where
        Self: 'a,
        P: Fn(&Self::Item) -> bool + Sync + Send + 'a,
    {
        let full = Stop::new();
        let flag = Arc::clone(&full);
        self.lower().guard(&full).adapt(
            move |item, sink| {
                if !flag.is_set() && predicate(&item) {
                    sink(item)
                } else {
                    flag.set()
                }
            },
        )
    }

    /// Items that arrive from the first one that fails `predicate` on.
    fn skip_any_while<'a, P>(self, predicate: P) -> ParIter<'a, Self::Item, Unindexed>
    where
        Self: 'a,
        P: Fn(&Self::Item) -> bool + Sync + Send + 'a,
    {
        let skipping = AtomicBool::new(true);
        self.lower().adapt(move |item, sink| {
            if skipping.load(AtomicOrdering::SeqCst) && predicate(&item) {
                return;
            }
            skipping.store(false, AtomicOrdering::SeqCst);
            sink(item)
        })
    }

    // ------------------------------------------------------------------
    // Terminal operations.  Each runs (at most) one section.
    // ------------------------------------------------------------------

    fn for_each<OP>(self, op: OP)
    where
        OP: Fn(Self::Item) + Sync + Send,
    {
        self.lower().run(&|_, task| task.run(&mut |item| op(item)));
    }

    fn for_each_with<OP, T>(self, init: T, op: OP)
    where
        OP: Fn(&mut T, Self::Item) + Sync + Send,
        T: Send + Clone,
    {
        self.map_with(init, op).collect()
    }

    fn for_each_init<OP, INIT, T>(self, init: INIT, op: OP)
    where
        OP: Fn(&mut T, Self::Item) + Sync + Send,
        INIT: Fn() -> T + Sync + Send,
        T: Send,
    {
        self.map_init(init, op).collect()
    }

    fn try_for_each<OP, R>(self, op: OP) -> R
    where
        OP: Fn(Self::Item) -> R + Sync + Send,
        R: Try<Output = ()> + Send,
    {
        self.map(op).try_reduce(<()>::default, |(), ()| R::from_output(()))
    }

    fn try_for_each_with<OP, T, R>(self, init: T, op: OP) -> R
    where
        OP: Fn(&mut T, Self::Item) -> R + Sync + Send,
        T: Send + Clone,
        R: Try<Output = ()> + Send,
    {
        self.map_with(init, op).try_reduce(<()>::default, |(), ()| R::from_output(()))
    }

    fn try_for_each_init<OP, INIT, T, R>(self, init: INIT, op: OP) -> R
    where
        OP: Fn(&mut T, Self::Item) -> R + Sync + Send,
        INIT: Fn() -> T + Sync + Send,
        T: Send,
        R: Try<Output = ()> + Send,
    {
        self.map_init(init, op).try_reduce(<()>::default, |(), ()| R::from_output(()))
    }

    fn count(self) -> usize {
        let per_task = self.lower().run(&|_, task| {
            let mut count = 0usize;
            task.run(&mut |_| count += 1);
            count
        });
        per_task.into_iter().flatten().sum()
    }

    /// Operands in index order, association chosen by the oracle
    /// (`Site::ReduceSplit`).  `identity()` is only used for an empty iterator.
    fn reduce<OP, ID>(self, identity: ID, op: OP) -> Self::Item
    where
        OP: Fn(Self::Item, Self::Item) -> Self::Item + Sync + Send,
        ID: Fn() -> Self::Item + Sync + Send,
    {
        reduce_tree(self.lower().collect_items(), &op).unwrap_or_else(identity)
    }

    fn reduce_with<OP>(self, op: OP) -> Option<Self::Item>
    where
        OP: Fn(Self::Item, Self::Item) -> Self::Item + Sync + Send,
    {
        reduce_tree(self.lower().collect_items(), &op)
    }

    /// As in rayon, the reduction tree returns its leftmost `Break`, i.e. the
    /// failure with the lowest index among the tasks that ran (not the first to
    /// arrive).  A failure that arrives lets the oracle skip unstarted tasks.
    fn try_reduce<T, OP, ID>(self, identity: ID, op: OP) -> Self::Item
    where
        OP: Fn(T, T) -> Self::Item + Sync + Send,
        ID: Fn() -> T + Sync + Send,
        Self::Item: Try<Output = T>,
    {
        self.try_reduce_with(op).unwrap_or_else(|| Self::Item::from_output(identity()))
    }

    fn try_reduce_with<T, OP>(self, op: OP) -> Option<Self::Item>
    where
        OP: Fn(T, T) -> Self::Item + Sync + Send,
        Self::Item: Try<Output = T>,
    {
        let full = Stop::new();
        let per_task = self.lower().guard(&full).run(&|_, task| {
            let mut items = Vec::new();
            task.run(&mut |item: Self::Item| {
                items.push(match item.branch() {
                    Continue(output) => Self::Item::from_output(output),
                    Break(residual) => {
                        full.set();
                        Self::Item::from_residual(residual)
                    }
                })
            });
            items
        });
        let operands = per_task.into_iter().flatten().flatten().collect();
        reduce_tree(operands, &|left: Self::Item, right: Self::Item| match (left.branch(), right.branch()) {
            (Continue(left), Continue(right)) => op(left, right),
            (Break(residual), _) | (_, Break(residual)) => Self::Item::from_residual(residual),
        })
    }

    fn sum<S>(self) -> S
    where
        S: Send + Sum<Self::Item> + Sum<S>,
    {
        let per_task = self.lower().run(&|_, task| {
            let mut leaves: Vec<S> = Vec::new();
            task.run(&mut |item| leaves.push(std::iter::once(item).sum()));
            leaves
        });
        let leaves = per_task.into_iter().flatten().flatten().collect();
        reduce_tree(leaves, &|left, right| [left, right].into_iter().sum())
            .unwrap_or_else(|| std::iter::empty::<Self::Item>().sum())
    }

    fn product<P>(self) -> P
    where
        P: Send + Product<Self::Item> + Product<P>,
    {
        let per_task = self.lower().run(&|_, task| {
            let mut leaves: Vec<P> = Vec::new();
            task.run(&mut |item| leaves.push(std::iter::once(item).product()));
            leaves
        });
        let leaves = per_task.into_iter().flatten().flatten().collect();
        reduce_tree(leaves, &|left, right| [left, right].into_iter().product())
            .unwrap_or_else(|| std::iter::empty::<Self::Item>().product())
    }

    /// Among equal minima the first (lowest index) is returned.
    fn min(self) -> Option<Self::Item>
    where
        Self::Item: Ord,
    {
        self.reduce_with(Ord::min)
    }

    fn min_by<F>(self, f: F) -> Option<Self::Item>
    where
        F: Sync + Send + Fn(&Self::Item, &Self::Item) -> Ordering,
    {
        self.reduce_with(|a, b| match f(&a, &b) {
            Ordering::Greater => b,
            _ => a,
        })
    }

    fn min_by_key<K, F>(self, f: F) -> Option<Self::Item>
    where
        K: Ord + Send,
        F: Sync + Send + Fn(&Self::Item) -> K,
    {
        let keyed = self.map(|item| (f(&item), item));
        let (_, item) = keyed.reduce_with(|a, b| match (a.0).cmp(&b.0) {
            Ordering::Greater => b,
            _ => a,
        })?;
        Some(item)
    }

    /// Among equal maxima the last (highest index) is returned.
    fn max(self) -> Option<Self::Item>
    where
        Self::Item: Ord,
    {
        self.reduce_with(Ord::max)
    }

    fn max_by<F>(self, f: F) -> Option<Self::Item>
    where
        F: Sync + Send + Fn(&Self::Item, &Self::Item) -> Ordering,
    {
        self.reduce_with(|a, b| match f(&a, &b) {
            Ordering::Greater => a,
            _ => b,
        })
    }

    fn max_by_key<K, F>(self, f: F) -> Option<Self::Item>
    where
        K: Ord + Send,
        F: Sync + Send + Fn(&Self::Item) -> K,
    {
        let keyed = self.map(|item| (f(&item), item));
        let (_, item) = keyed.reduce_with(|a, b| match (a.0).cmp(&b.0) {
            Ordering::Greater => a,
            _ => b,
        })?;
        Some(item)
    }

    /// As in rayon 1.10 (`iter/find.rs`): every task that runs and matches keeps
    /// its match, and the per-task results are merged with `left.or(right)`.
    /// The result is therefore the match with the lowest index among the tasks
    /// that ran; which tasks run after the first match has arrived is the
    /// oracle's choice.
    fn find_any<P>(self, predicate: P) -> Option<Self::Item>
    where
        P: Fn(&Self::Item) -> bool + Sync + Send,
    {
        let found = Stop::new();
        let per_task = self.lower().guard(&found).run(&|_, task| {
            let mut hit = None;
            task.run(&mut |item| {
                if hit.is_none() && predicate(&item) {
                    found.set();
                    hit = Some(item);
                }
            });
            hit
        });
        per_task.into_iter().flatten().flatten().next()
    }

    /// The match with the lowest index.  A task may be skipped once a match to
    /// its left has arrived.
    fn find_first<P>(self, predicate: P) -> Option<Self::Item>
    where
        P: Fn(&Self::Item) -> bool + Sync + Send,
    {
        let pipeline = self.lower();
        // `beaten[i]` is set when a match left of task `i` has arrived.
        let beaten: Vec<Arc<Stop>> = pipeline.tasks.iter().map(|_| Stop::new()).collect();
        let per_task = pipeline.guard_each(&beaten).run(&|i, task| {
            let mut hit = None;
            task.run(&mut |item| {
                if hit.is_none() && predicate(&item) {
                    beaten[i + 1..].iter().for_each(|stop| stop.set());
                    hit = Some(item);
                }
            });
            hit
        });
        per_task.into_iter().flatten().flatten().next()
    }

    /// The match with the highest index.  A task may be skipped once a match to
    /// its right has arrived.
    fn find_last<P>(self, predicate: P) -> Option<Self::Item>
    where
        P: Fn(&Self::Item) -> bool + Sync + Send,
    {
        let pipeline = self.lower();
        // `beaten[i]` is set when a match right of task `i` has arrived.
        let beaten: Vec<Arc<Stop>> = pipeline.tasks.iter().map(|_| Stop::new()).collect();
        let per_task = pipeline.guard_each(&beaten).run(&|i, task| {
            let mut hit = None;
            task.run(&mut |item| {
                if predicate(&item) {
                    beaten[..i].iter().for_each(|stop| stop.set());
                    hit = Some(item);
                }
            });
            hit
        });
        per_task.into_iter().flatten().flatten().next_back()
    }

    fn find_map_any<P, R>(self, predicate: P) -> Option<R>
    where
        P: Fn(Self::Item) -> Option<R> + Sync + Send,
        R: Send,
    {
        self.filter_map(predicate).find_any(|_| true)
    }

    fn find_map_first<P, R>(self, predicate: P) -> Option<R>
    where
        P: Fn(Self::Item) -> Option<R> + Sync + Send,
        R: Send,
    {
        self.filter_map(predicate).find_first(|_| true)
    }

    fn find_map_last<P, R>(self, predicate: P) -> Option<R>
    where
        P: Fn(Self::Item) -> Option<R> + Sync + Send,
        R: Send,
    {
        self.filter_map(predicate).find_last(|_| true)
    }

    fn any<P>(self, predicate: P) -> bool
    where
        P: Fn(Self::Item) -> bool + Sync + Send,
    {
        self.map(predicate).find_any(|&matched| matched).is_some()
    }

    fn all<P>(self, predicate: P) -> bool
    where
        P: Fn(Self::Item) -> bool + Sync + Send,
    {
        self.map(predicate).find_any(|&matched| !matched).is_none()
    }

    fn collect<C>(self) -> C
    where
        C: FromParallelIterator<Self::Item>,
    {
        C::from_par_iter(self)
    }

    fn unzip<A, B, FromA, FromB>(self) -> (FromA, FromB)
    where
        Self: ParallelIterator<Item = (A, B)>,
        FromA: Default + Send + ParallelExtend<A>,
        FromB: Default + Send + ParallelExtend<B>,
        A: Send,
        B: Send,
    {
        let (left, right): (Vec<A>, Vec<B>) = self.lower().collect_items().into_iter().unzip();
        let (mut from_a, mut from_b) = (FromA::default(), FromB::default());
        from_a.par_extend(left);
        from_b.par_extend(right);
        (from_a, from_b)
    }

    /// `predicate` runs inside the tasks; both halves keep index order.
    fn partition<A, B, P>(self, predicate: P) -> (A, B)
    where
        A: Default + Send + ParallelExtend<Self::Item>,
        B: Default + Send + ParallelExtend<Self::Item>,
        P: Fn(&Self::Item) -> bool + Sync + Send,
    {
        let sides = self.map(|item| if predicate(&item) { Either::Left(item) } else { Either::Right(item) });
        sides.partition_map(|side| side)
    }

    fn partition_map<A, B, P, L, R>(self, predicate: P) -> (A, B)
    where
        A: Default + Send + ParallelExtend<L>,
        B: Default + Send + ParallelExtend<R>,
        P: Fn(Self::Item) -> Either<L, R> + Sync + Send,
        L: Send,
        R: Send,
    {
        let (mut left, mut right) = (Vec::new(), Vec::new());
        for side in self.map(predicate).lower().collect_items() {
            match side {
                Either::Left(item) => left.push(item),
                Either::Right(item) => right.push(item),
            }
        }
        let (mut a, mut b) = (A::default(), B::default());
        a.par_extend(left);
        b.par_extend(right);
        (a, b)
    }

    /// One `Vec` per task that produced something, in index order.
    fn collect_vec_list(self) -> LinkedList<Vec<Self::Item>> {
        let per_task = self.lower().run(&|_, task| task.run_to_vec());
        per_task.into_iter().flatten().filter(|items| !items.is_empty()).collect()
    }

    fn opt_len(&self) -> Option<usize> {
        None
    }
}

/// A parallel iterator whose tasks yield exactly one item each, so that
/// positions are meaningful.  Implemented for every `ParallelIterator` of kind
/// [`Indexed`].
pub trait IndexedParallelIterator: ParallelIterator<Kind = Indexed> {
    fn len(&self) -> usize {
        self.task_count()
    }

    fn with_min_len<'a>(self, _min: usize) -> ParIter<'a, Self::Item, Indexed>
    where
        Self: 'a,
    {
        self.lower()
    }

    fn with_max_len<'a>(self, _max: usize) -> ParIter<'a, Self::Item, Indexed>
    where
        Self: 'a,
    {
        self.lower()
    }

    fn by_exponential_blocks<'a>(self) -> ParIter<'a, Self::Item, Indexed>
    where
        Self: 'a,
    {
        self.lower()
    }

    fn by_uniform_blocks<'a>(self, block_size: usize) -> ParIter<'a, Self::Item, Indexed>
    where
        Self: 'a,
    {
        assert!(block_size != 0, "block_size must not be zero");
        self.lower()
    }

    fn enumerate<'a>(self) -> ParIter<'a, (usize, Self::Item), Indexed>
    where
        Self: 'a,
    {
        self.lower().map_tasks(|index, task| task.wrap(move |task, sink| sink((index, task.run_single()))))
    }

    /// Tasks beyond the shorter side are dropped without running.
    fn zip<'a, Z>(self, zip_op: Z) -> ParIter<'a, (Self::Item, Z::Item), Indexed>
    where
        Self: 'a,
        Z: IntoParallelIterator,
        Z::Iter: IndexedParallelIterator + 'a,
        Z::Item: 'a,
    {
        let left = self.lower().tasks;
        let right = zip_op.into_par_iter().lower().tasks;
        let pairs = left.into_iter().zip(right).map(|(a, b)| {
            let guards = a.guards().iter().chain(b.guards()).cloned().collect();
            ItemTask::new(guards, move |sink| sink((a.run_single(), b.run_single())))
        });
        ParIter::from_tasks(pairs.collect())
    }

    fn zip_eq<'a, Z>(self, zip_op: Z) -> ParIter<'a, (Self::Item, Z::Item), Indexed>
    where
        Self: 'a,
        Z: IntoParallelIterator,
        Z::Iter: IndexedParallelIterator + 'a,
        Z::Item: 'a,
    {
        let zip_op = zip_op.into_par_iter();
        assert_eq!(self.len(), zip_op.len(), "iterators must have the same length");
        self.zip(zip_op)
    }

    fn interleave<'a, I>(self, other: I) -> ParIter<'a, Self::Item, Indexed>
    where
        Self: 'a,
        I: IntoParallelIterator<Item = Self::Item>,
        I::Iter: IndexedParallelIterator + 'a,
    {
        let mut left = self.lower().tasks.into_iter();
        let mut right = other.into_par_iter().lower().tasks.into_iter();
        let mut tasks = Vec::new();
        loop {
            match (left.next(), right.next()) {
                (None, None) => break,
                (a, b) => tasks.extend(a.into_iter().chain(b)),
            }
        }
        ParIter::from_tasks(tasks)
    }

    fn interleave_shortest<'a, I>(self, other: I) -> ParIter<'a, Self::Item, Indexed>
    where
        Self: 'a,
        I: IntoParallelIterator<Item = Self::Item>,
        I::Iter: IndexedParallelIterator + 'a,
    {
        let other = other.into_par_iter();
        let (left_len, right_len) = (self.len(), other.len());
        let (left_len, right_len) =
            if left_len > right_len { (right_len + 1, right_len) } else { (left_len, left_len) };
        self.take(left_len).interleave(other.take(right_len))
    }

    fn chunks<'a>(self, chunk_size: usize) -> ParIter<'a, Vec<Self::Item>, Indexed>
    where
        Self: 'a,
    {
        let sizes = fixed_chunks(self.len(), chunk_size);
        self.lower().merge_runs(sizes, |members, sink| sink(members.into_iter().map(ItemTask::run_single).collect()))
    }

    fn fold_chunks<'a, T, ID, F>(self, chunk_size: usize, identity: ID, fold_op: F) -> ParIter<'a, T, Indexed>
    where
        Self: 'a,
        ID: Fn() -> T + Send + Sync + 'a,
        F: Fn(T, Self::Item) -> T + Send + Sync + 'a,
        T: Send + 'a,
    {
        let sizes = fixed_chunks(self.len(), chunk_size);
        self.lower().merge_runs(sizes, move |members, sink| {
            sink(members.into_iter().fold(identity(), |acc, member| fold_op(acc, member.run_single())))
        })
    }

    fn fold_chunks_with<'a, T, F>(self, chunk_size: usize, init: T, fold_op: F) -> ParIter<'a, T, Indexed>
    where
        Self: 'a,
        T: Send + Clone + 'a,
        F: Fn(T, Self::Item) -> T + Send + Sync + 'a,
    {
        let init = Mutex::new(init);
        self.fold_chunks(chunk_size, move || init.lock().unwrap().clone(), fold_op)
    }

    fn step_by<'a>(self, step: usize) -> ParIter<'a, Self::Item, Indexed>
    where
        Self: 'a,
    {
        ParIter::from_tasks(self.lower().tasks.into_iter().step_by(step).collect())
    }

    /// The skipped tasks are dropped without running.
    fn skip<'a>(self, n: usize) -> ParIter<'a, Self::Item, Indexed>
    where
        Self: 'a,
    {
        ParIter::from_tasks(self.lower().tasks.into_iter().skip(n).collect())
    }

    /// The tasks beyond `n` are dropped without running.
    fn take<'a>(self, n: usize) -> ParIter<'a, Self::Item, Indexed>
    where
        Self: 'a,
    {
        ParIter::from_tasks(self.lower().tasks.into_iter().take(n).collect())
    }

    fn rev<'a>(self) -> ParIter<'a, Self::Item, Indexed>
    where
        Self: 'a,
    {
        ParIter::from_tasks(self.lower().tasks.into_iter().rev().collect())
    }

    fn positions<'a, P>(self, predicate: P) -> ParIter<'a, usize, Unindexed>
    where
        Self: 'a,
        P: Fn(Self::Item) -> bool + Sync + Send + 'a,
    {
        self.map(predicate).enumerate().filter_map(|(index, matched)| matched.then_some(index))
    }

    fn position_any<P>(self, predicate: P) -> Option<usize>
    where
        P: Fn(Self::Item) -> bool + Sync + Send,
    {
        let (index, _) = self.map(predicate).enumerate().find_any(|&(_, matched)| matched)?;
        Some(index)
    }

    fn position_first<P>(self, predicate: P) -> Option<usize>
    where
        P: Fn(Self::Item) -> bool + Sync + Send,
    {
        let (index, _) = self.map(predicate).enumerate().find_first(|&(_, matched)| matched)?;
        Some(index)
    }

    fn position_last<P>(self, predicate: P) -> Option<usize>
    where
        P: Fn(Self::Item) -> bool + Sync + Send,
    {
        let (index, _) = self.map(predicate).enumerate().find_last(|&(_, matched)| matched)?;
        Some(index)
    }

    /// Clears `target` and fills it with the items, in index order.
    fn collect_into_vec(self, target: &mut Vec<Self::Item>) {
        target.clear();
        target.extend(self.lower().collect_items());
    }

    fn unzip_into_vecs<A, B>(self, left: &mut Vec<A>, right: &mut Vec<B>)
    where
        Self: IndexedParallelIterator<Item = (A, B)>,
        A: Send,
        B: Send,
    {
        left.clear();
        right.clear();
        for (a, b) in self.lower().collect_items() {
            left.push(a);
            right.push(b);
        }
    }

    fn cmp<I>(self, other: I) -> Ordering
    where
        I: IntoParallelIterator<Item = Self::Item>,
        I::Iter: IndexedParallelIterator,
        Self::Item: Ord,
    {
        let other = other.into_par_iter();
        let ord_len = self.len().cmp(&other.len());
        let first_difference = self.zip(other).map(|(x, y)| Ord::cmp(&x, &y)).find_first(|&ord| ord != Ordering::Equal);
        first_difference.unwrap_or(ord_len)
    }

    fn partial_cmp<I>(self, other: I) -> Option<Ordering>
    where
        I: IntoParallelIterator,
        I::Iter: IndexedParallelIterator,
        Self::Item: PartialOrd<I::Item>,
    {
        let other = other.into_par_iter();
        let ord_len = self.len().cmp(&other.len());
        let first_difference = self
            .zip(other)
            .map(|(x, y)| PartialOrd::partial_cmp(&x, &y))
            .find_first(|&ord| ord != Some(Ordering::Equal));
        first_difference.unwrap_or(Some(ord_len))
    }

    fn eq<I>(self, other: I) -> bool
    where
        I: IntoParallelIterator,
        I::Iter: IndexedParallelIterator,
        Self::Item: PartialEq<I::Item>,
    {
        let other = other.into_par_iter();
        self.len() == other.len() && self.zip(other).all(|(x, y)| PartialEq::eq(&x, &y))
    }

    fn ne<I>(self, other: I) -> bool
    where
        I: IntoParallelIterator,
        I::Iter: IndexedParallelIterator,
        Self::Item: PartialEq<I::Item>,
    {
        !self.eq(other)
    }

    fn lt<I>(self, other: I) -> bool
    where
        I: IntoParallelIterator,
        I::Iter: IndexedParallelIterator,
        Self::Item: PartialOrd<I::Item>,
    {
        self.partial_cmp(other) == Some(Ordering::Less)
    }

    fn le<I>(self, other: I) -> bool
    where
        I: IntoParallelIterator,
        I::Iter: IndexedParallelIterator,
        Self::Item: PartialOrd<I::Item>,
    {
        matches!(self.partial_cmp(other), Some(Ordering::Less | Ordering::Equal))
    }

    fn gt<I>(self, other: I) -> bool
    where
        I: IntoParallelIterator,
        I::Iter: IndexedParallelIterator,
        Self::Item: PartialOrd<I::Item>,
    {
        self.partial_cmp(other) == Some(Ordering::Greater)
    }

    fn ge<I>(self, other: I) -> bool
    where
        I: IntoParallelIterator,
        I::Iter: IndexedParallelIterator,
        Self::Item: PartialOrd<I::Item>,
    {
        matches!(self.partial_cmp(other), Some(Ordering::Greater | Ordering::Equal))
    }
}

impl<I: ParallelIterator<Kind = Indexed>> IndexedParallelIterator for I {}

/// A stable stand-in for the unstable `std::ops::Try`, as in rayon.
mod private {
    use std::ops::ControlFlow::{self, Break, Continue};

    pub trait Try {
        type Output;
        type Residual;
        fn from_output(output: Self::Output) -> Self;
        fn from_residual(residual: Self::Residual) -> Self;
        fn branch(self) -> ControlFlow<Self::Residual, Self::Output>;
    }

    impl<B, C> Try for ControlFlow<B, C> {
        type Output = C;
        type Residual = ControlFlow<B, std::convert::Infallible>;
        fn from_output(output: C) -> Self {
            Continue(output)
        }
        fn from_residual(residual: Self::Residual) -> Self {
            match residual {
                Break(b) => Break(b),
                Continue(never) => match never {},
            }
        }
        fn branch(self) -> ControlFlow<Self::Residual, C> {
            match self {
                Continue(c) => Continue(c),
                Break(b) => Break(Break(b)),
            }
        }
    }

    impl<T> Try for Option<T> {
        type Output = T;
        type Residual = Option<std::convert::Infallible>;
        fn from_output(output: T) -> Self {
            Some(output)
        }
        fn from_residual(_: Self::Residual) -> Self {
            None
        }
        fn branch(self) -> ControlFlow<Self::Residual, T> {
            match self {
                Some(value) => Continue(value),
                None => Break(None),
            }
        }
    }

    impl<T, E> Try for Result<T, E> {
        type Output = T;
        type Residual = Result<std::convert::Infallible, E>;
        fn from_output(output: T) -> Self {
            Ok(output)
        }
        fn from_residual(residual: Self::Residual) -> Self {
            match residual {
                Err(e) => Err(e),
                Ok(never) => match never {},
            }
        }
        fn branch(self) -> ControlFlow<Self::Residual, T> {
            match self {
                Ok(value) => Continue(value),
                Err(e) => Break(Err(e)),
            }
        }
    }
}
