//! A controlled-scheduler stand-in for `rayon` 1.10, for model checking.
//!
//! This crate has rayon's name and (a generous subset of) rayon's API, but no
//! thread pool.  Every parallel construct is lowered to a list of independent
//! tasks and handed to [`sched`], where a thread-local [`sched::Oracle`]
//! decides how they are executed: sequentially, one at a time in a chosen
//! order, or as `shuttle` threads.  With no oracle installed everything runs
//! sequentially in index order on the calling thread.
//!
//! It is meant to be substituted for the real crate with
//! `[patch.crates-io] rayon = { path = "..." }`.

#![forbid(unsafe_code)]

pub mod iter;
pub mod prelude;
pub mod sched;
pub mod slice;

mod pool;

pub use pool::{
    current_num_threads, current_thread_index, in_place_scope, join, join_context, scope, spawn, FnContext, Scope,
    ThreadPool, ThreadPoolBuildError, ThreadPoolBuilder,
};
