//! `use rayon::prelude::*;`

pub use crate::iter::FromParallelIterator;
pub use crate::iter::IndexedParallelIterator;
pub use crate::iter::IntoParallelIterator;
pub use crate::iter::IntoParallelRefIterator;
pub use crate::iter::IntoParallelRefMutIterator;
pub use crate::iter::ParallelBridge;
pub use crate::iter::ParallelExtend;
pub use crate::iter::ParallelIterator;
pub use crate::slice::ParallelSlice;
pub use crate::slice::ParallelSliceMut;
