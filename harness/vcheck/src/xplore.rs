//! XPLORE — stateless, deviation-bounded, depth-first exploration of choice sequences.
//!
//! A *run* is a closure that drives real code and calls `Ctx::choose` whenever something that
//! the input does not determine must be decided. A run is identified by its choice vector.

use std::cell::RefCell;
use std::rc::Rc;

#[derive(Clone, Copy, Debug, PartialEq, Eq, Hash)]
pub enum Class {
    /// Which op sits at a program position reached for the first time.
    Hole,
    /// Which answer the environment gives.
    Env,
    /// Which pending task / thread runs next.
    Sched,
    /// Next element of a lazily built input domain.
    Input,
}

#[derive(Clone, Copy, Debug)]
pub struct Point {
    pub choice: u32,
    pub arity: u32,
    pub class: Class,
    /// Deviation cost of taking a non-default alternative here.
    pub cost: u8,
}

impl CtxInner {
    pub fn prefix_clone(&self) -> Vec<u32> {
        self.prefix.clone()
    }
}

#[derive(Debug, Default)]
pub struct CtxInner {
    prefix: Vec<u32>,
    pub trace: Vec<Point>,
    /// A prefix choice was out of range for the arity met during replay.
    pub diverged: bool,
}

/// Cheaply clonable handle so that schedulers / oracles / mock states can share it.
#[derive(Clone, Debug, Default)]
pub struct Ctx(pub Rc<RefCell<CtxInner>>);

impl Ctx {
    pub fn new(prefix: Vec<u32>) -> Self {
        Ctx(Rc::new(RefCell::new(CtxInner {
            prefix,
            trace: vec![],
            diverged: false,
        })))
    }
    /// Choose among `n` alternatives (0 = default). `n == 0` is a caller bug.
    pub fn choose_cost(&self, class: Class, n: usize, cost: u8) -> usize {
        assert!(n > 0, "choose with zero alternatives");
        let mut c = self.0.borrow_mut();
        if n == 1 {
            return 0;
        }
        let pos = c.trace.len();
        let mut choice = if pos < c.prefix.len() { c.prefix[pos] } else { 0 };
        if choice as usize >= n {
            c.diverged = true;
            choice = 0;
        }
        c.trace.push(Point {
            choice,
            arity: n as u32,
            class,
            cost,
        });
        choice as usize
    }
    pub fn choose(&self, class: Class, n: usize) -> usize {
        self.choose_cost(class, n, 1)
    }
    pub fn choices(&self) -> Vec<u32> {
        self.0.borrow().trace.iter().map(|p| p.choice).collect()
    }
    pub fn diverged(&self) -> bool {
        self.0.borrow().diverged
    }
    pub fn points(&self) -> Vec<Point> {
        self.0.borrow().trace.clone()
    }
    /// Number of points of the given class in this run with arity >= 2.
    pub fn count(&self, class: Class) -> usize {
        self.0.borrow().trace.iter().filter(|p| p.class == class).count()
    }
}

#[derive(Clone, Copy, Debug)]
pub struct Bounds {
    /// Max total deviation cost over `Sched` points.
    pub sched: u32,
    /// Max total deviation cost over `Env` points.
    pub env: u32,
    /// Stop after this many runs (reported as a cap).
    pub max_runs: u64,
}

impl Default for Bounds {
    fn default() -> Self {
        Bounds {
            sched: u32::MAX,
            env: u32::MAX,
            max_runs: u64::MAX,
        }
    }
}

#[derive(Debug, Default, Clone, Copy)]
pub struct Stats {
    pub runs: u64,
    pub capped: bool,
    pub max_depth: usize,
    pub divergences: u64,
}

fn used(points: &[Point], upto: usize, class: Class) -> u32 {
    points[..upto]
        .iter()
        .filter(|p| p.class == class && p.choice != 0)
        .map(|p| p.cost as u32)
        .sum()
}

/// Alternatives (child prefixes) of a finished run, for positions >= `from`.
pub fn children(points: &[Point], from: usize, b: &Bounds) -> Vec<Vec<u32>> {
    let mut out = vec![];
    for i in from..points.len() {
        let p = points[i];
        let allowed = match p.class {
            Class::Sched => used(points, i, Class::Sched) + p.cost as u32 <= b.sched,
            Class::Env => used(points, i, Class::Env) + p.cost as u32 <= b.env,
            Class::Hole | Class::Input => true,
        };
        if !allowed {
            continue;
        }
        // positions < from keep their choice; positions from..i are 0 by construction
        let base: Vec<u32> = points[..i].iter().map(|q| q.choice).collect();
        for alt in (p.choice + 1)..p.arity {
            // only alternatives of points that took the default are children of this run
            if p.choice != 0 {
                break;
            }
            let mut v = base.clone();
            v.push(alt);
            out.push(v);
        }
    }
    out
}

/// Explore the subtree rooted at `root` (the run `root` itself included).
/// `run` executes one run; `visit` sees the finished context and the observation.
pub fn explore<O>(
    root: Vec<u32>,
    bounds: &Bounds,
    mut run: impl FnMut(&Ctx) -> O,
    mut visit: impl FnMut(&Ctx, O),
) -> Stats {
    let mut st = Stats::default();
    let mut stack: Vec<Vec<u32>> = vec![root];
    while let Some(prefix) = stack.pop() {
        if st.runs >= bounds.max_runs {
            st.capped = true;
            break;
        }
        let from = prefix.len();
        let ctx = Ctx::new(prefix);
        let obs = run(&ctx);
        st.runs += 1;
        if ctx.diverged() {
            st.divergences += 1;
        }
        let pts = ctx.points();
        st.max_depth = st.max_depth.max(pts.len());
        visit(&ctx, obs);
        let mut ch = children(&pts, from, bounds);
        // depth-first, lowest alternative first
        ch.reverse();
        stack.extend(ch);
    }
    st
}

/// Deterministic breadth-first expansion from the empty prefix until at least `target` open
/// subtrees exist. Returns (runs already executed in order, open subtree roots). Every worker
/// computes the same split; shallow runs are *visited* by the worker for which `mine(i)` holds.
pub fn split<O>(
    bounds: &Bounds,
    target: usize,
    mut run: impl FnMut(&Ctx) -> O,
    mut visit_shallow: impl FnMut(u64, &Ctx, O),
) -> Vec<Vec<u32>> {
    let mut gen: Vec<Vec<u32>> = vec![vec![]];
    let mut n: u64 = 0;
    loop {
        let mut next = vec![];
        for prefix in &gen {
            let from = prefix.len();
            let ctx = Ctx::new(prefix.clone());
            let obs = run(&ctx);
            let pts = ctx.points();
            visit_shallow(n, &ctx, obs);
            n += 1;
            next.extend(children(&pts, from, bounds));
        }
        if next.is_empty() {
            return vec![];
        }
        if next.len() >= target {
            return next;
        }
        // keep expanding: but the runs of `next` will be re-executed as roots of the next
        // generation (they are counted/visited exactly once, there)
        gen = next;
    }
}

/// For subtree roots returned by `split`: the root run itself was NOT yet visited.
pub fn explore_root_unvisited<O>(
    root: Vec<u32>,
    bounds: &Bounds,
    run: impl FnMut(&Ctx) -> O,
    visit: impl FnMut(&Ctx, O),
) -> Stats {
    explore(root, bounds, run, visit)
}
