//! C05 — the VM is total: never panics and stays within its resource bounds.
use super::progx::{self, Px};
use super::vmgraph::*;
use crate::fw::*;
use crate::refvm::RVm;
use crate::util::*;
use crate::PropSpec;
use essential_asm::{self as asm, Op};
use serde_json::{json, Value};
use std::sync::atomic::AtomicU64;
use std::sync::Arc;

pub fn spec() -> PropSpec {
    PropSpec {
        id: "C05",
        level: "model_checking",
        rule: "stateright BFS over VM configurations with ALL 62 ops plus Push c (boundary alphabet) as actions, from the C08 initial states plus repeat stacks at 4095/4096 entries, under two environments (total state / erroring state, different predicate data); invariant after every transition and, through the on_step hook, after every op executed inside compute children: no panic, stack <= 4096, memory <= 10240, repeat depth <= 4096, compute depth <= 1. Plus hole-program exploration (control-flow + compute alphabet) and directed deep programs with the hook active; both arithmetic profiles; worker death (abort / hang) is classified by re-running the write-ahead case alone. non-trivial = the real op succeeded; distinct by (state, op)",
        assumptions: &[
            "Compute breadth above 20000 is excluded (a pure resource question)",
            "repeat-stack depth is read structurally from Repeat's Debug rendering; if that has no list the clause is skipped",
        ],
        run,
        replay,
        describe_wal: Some(describe_wal),
        run_wal: Some(run_wal),
        both_profiles: true,
        workers: 0,
    }
}

fn envs() -> Vec<(String, ProgEnv)> {
    let basic = ProgEnv::basic(Cost::Const(1), 1_000_000);
    let mut strict = ProgEnv::basic(Cost::Const(1), 1_000_000);
    strict.state.pre.strict = true;
    strict.state.post.strict = true;
    strict.solutions = Arc::new(vec![
        test_solution(vec![]),
        test_solution(vec![vec![], vec![MAX, MIN], (0..64).collect()]),
    ]);
    strict.index = 1;
    vec![("basic".into(), basic), ("strict".into(), strict)]
}

fn model(words: &[i64], ds: u8, db: u8, dr: u8, env: (String, ProgEnv)) -> VmGraph {
    let mut actions: Vec<Op> = crate::refvm::all_ops()
        .into_iter()
        .filter(|o| !matches!(o, Op::Stack(asm::Stack::Push(_))))
        .collect();
    actions.extend(pushes(words));
    let mut inits = base_inits(ds, db);
    inits.extend(repeat_inits(dr));
    // operands for the crypto / state-read ops
    inits.push((
        "bytes".into(),
        RVm { pc: 5, stack: (1..=14).collect(), memory: vec![0; 16], parent_memory: None, repeat: vec![] },
        ds,
    ));
    VmGraph {
        prop: "C05",
        actions,
        inits,
        env: env.1,
        env_label: env.0,
        cont: continuation(),
        compare_ref: false,
        check_bounds: true,
        sink: Sink::new(),
        transitions: AtomicU64::new(0),
        err_transitions: AtomicU64::new(0),
    }
}

/// Invariant inside whole-program runs: the hook flags any out-of-bounds configuration.
fn hook_check(px: &Px, run: &progx::PxRun, rep: &mut Report) {
    let bad = HOOK_BAD.with(|h| h.borrow_mut().take());
    if let Some(b) = bad {
        let clause = b.split(':').next().unwrap_or("bounds").to_string();
        let sig = Signature::new("C05", &clause);
        let key = sig.key();
        rep.violate(|| viol(sig, px.case_json(run), json!("within bounds after every op"), json!(b), String::new()), Some(&key));
    }
    if let RealOut::Panic { site, msg } = &run.real {
        let sig = Signature::new("C05", "no_panic").site(format!("{site}: {msg}"));
        let key = sig.key();
        rep.violate(|| viol(sig, px.case_json(run), json!("Ok or typed Err"), json!(format!("panic {site}: {msg}")), String::new()), Some(&key));
    }
}

fn prog_alphabet() -> Vec<Op> {
    use asm::{Access as A, Compute as C, Memory as M, Stack as S, TotalControlFlow as T};
    let mut a: Vec<Op> = [MIN, -1, 0, 1, 2, 3, 4096].iter().map(|&c| Op::Stack(S::Push(c))).collect();
    a.extend([
        Op::TotalControlFlow(T::JumpIf),
        Op::Stack(S::Repeat),
        Op::Stack(S::RepeatEnd),
        Op::Access(A::RepeatCounter),
        Op::Stack(S::Dup),
        Op::Stack(S::Reserve),
        Op::Memory(M::Alloc),
        Op::Compute(C::Compute),
        Op::Compute(C::ComputeEnd),
    ]);
    a
}

fn directed_programs() -> Vec<(String, Vec<Op>, u64)> {
    use asm::{Compute as C, Memory as M, Stack as S, TotalControlFlow as T};
    let push = |c| Op::Stack(S::Push(c));
    let mut v = vec![];
    // re-execute Repeat through a backward jump until the repeat stack is full
    v.push(("repeat-stack-to-limit".to_string(), vec![push(2), push(1), Op::Stack(S::Repeat), push(-3), push(1), Op::TotalControlFlow(T::JumpIf)], 100_000));
    // fill the stack to the limit with a jump loop
    v.push(("stack-to-limit".into(), vec![push(7), push(-1), push(1), Op::TotalControlFlow(T::JumpIf)], 100_000));
    // fill memory to the limit
    v.push(("memory-to-limit".into(), vec![push(1000), Op::Memory(M::Alloc), Op::Stack(S::Pop), push(-3), push(1), Op::TotalControlFlow(T::JumpIf)], 100_000));
    for breadth in [1000i64, 5000] {
        for alloc in [1i64, 2, 3, 10, 11] {
            v.push((
                format!("breadth{breadth}-alloc{alloc}"),
                vec![push(breadth), Op::Compute(C::Compute), push(alloc), Op::Memory(M::Alloc), Op::Compute(C::ComputeEnd), push(1)],
                10_000_000,
            ));
        }
    }
    // children reserving the whole stack
    v.push(("children-reserve".into(), vec![push(3), Op::Compute(C::Compute), push(4094), Op::Stack(S::Reserve), Op::Compute(C::ComputeEnd)], 1000));
    v.push(("children-reserve-over".into(), vec![push(3), Op::Compute(C::Compute), push(4095), Op::Stack(S::Reserve), Op::Compute(C::ComputeEnd)], 1000));
    v
}

fn run(cfg: &RunCfg, rep: &mut Report) {
    install_hook();
    // The deepest configuration (both profiles at depth 4 / hole programs of length 6) takes about
    // 2.6 h on 16 cores; it was run on the final tree (tools/thorough_evidence/C05.json) and stays
    // available with VCHECK_C05_DEEP=1. The default thorough tier goes as deep in the release
    // profile, keeps the checked profile at the quick depth, and stops hole programs at length 5.
    let deep = std::env::var("VCHECK_C05_DEEP").is_ok();
    let plans: Vec<(&[i64], u8, u8, u8)> = match cfg.tier {
        Tier::Quick => vec![(WORDS_QUICK, 3, 2, 1)],
        Tier::Thorough if cfg.checked_profile && !deep => vec![(WORDS_QUICK, 3, 2, 1)],
        Tier::Thorough => vec![(WORDS_FULL, 4, 3, 2)],
    };
    let plen = if deep { 6 } else { cfg.tier.pick(4, 5) };
    let describe = |w: &[i64], ds: u8, db: u8, dr: u8| format!("{} push constants, depth {ds} (small) / {db} (at-limit stack, memory) / {dr} (at-limit repeat stack)", w.len());
    // (the same text from every worker of either profile: the parent keeps the first one it merges)
    let graph = match (cfg.tier, deep) {
        (Tier::Quick, _) => format!("{} in both arithmetic profiles", describe(WORDS_QUICK, 3, 2, 1)),
        (Tier::Thorough, true) => format!("{} in both arithmetic profiles (VCHECK_C05_DEEP)", describe(WORDS_FULL, 4, 3, 2)),
        (Tier::Thorough, false) => format!("release profile: {}; checked profile: {}", describe(WORDS_FULL, 4, 3, 2), describe(WORDS_QUICK, 3, 2, 1)),
    };
    rep.bound_completed = format!("VMGRAPH: {graph}; hole programs of length <= {plen} (both profiles); {} directed deep programs", directed_programs().len());
    let t0 = std::time::Instant::now();
    for env in envs() {
        for (words, ds, db, dr) in &plans {
            let mut m = model(words, *ds, *db, *dr, env.clone());
            m.inits = m.inits.into_iter().enumerate().filter(|(i, _)| cfg.mine(*i as u64)).map(|(_, x)| x).collect();
            if !m.inits.is_empty() {
                search(m, if cfg.tier == Tier::Thorough { 6 } else { 2 }, rep, 2);
            }
        }
    }
    let t1 = std::time::Instant::now();
    // whole programs with the hook active (invariant inside compute children)
    let alpha = prog_alphabet();
    let env = ProgEnv::basic(Cost::Const(1), cfg.tier.pick(40, 80));
    let init = RVm::default();
    let px = Px { prop: "C05", alphabet: &alpha, len: plen, init: &init, env: &env, label: format!("hook/len{plen}"), mask_stray_compute_end: true };
    let mut tmp = Report::new();
    px.explore(cfg, &mut tmp, &mut |px, run, rep| hook_check(px, run, rep));
    // C05 only claims totality/bounds: drop reference-comparison verdicts of the shared visitor
    tmp.violations.retain(|_, v| v.signature.clause == "no_panic" || v.signature.clause.starts_with("bounds"));
    for v in tmp.violations.values_mut() {
        v.signature.property = "C05".into();
    }
    merge_with_sets(rep, tmp);
    let t2 = std::time::Instant::now();
    if std::env::var("VERIF_TIMING").is_ok() {
        eprintln!("worker {}: vmgraph {:.1}s progx {:.1}s", cfg.worker, (t1 - t0).as_secs_f64(), (t2 - t1).as_secs_f64());
    }
    for (i, (label, ops, limit)) in directed_programs().into_iter().enumerate() {
        if !cfg.mine(i as u64) {
            continue;
        }
        wal::set(format!("D{i}").as_bytes());
        let env = ProgEnv::basic(Cost::Const(1), limit);
        let h = Holey { ops: Arc::new(ops.iter().cloned().map(Some).collect()) };
        HOOK_BAD.with(|h| *h.borrow_mut() = None);
        HOOK_STEPS.with(|c| c.set(0));
        let real = run_real_with(&init, h.clone(), &env, false);
        let steps = HOOK_STEPS.with(|c| c.get());
        let rf = run_ref(&init, &h, &env);
        let px = Px { prop: "C05", alphabet: &[], len: ops.len(), init: &init, env: &env, label: format!("directed:{label}"), mask_stray_compute_end: true };
        let run = progx::PxRun { ops: ops.iter().cloned().map(Some).collect(), real, rf, real_execs: 1 };
        hook_check(&px, &run, rep);
        rep.eval(Some(hash_of(&label)), hash_of(&run.real));
        rep.transitions += steps;
        rep.sample(|| json!({"directed": label, "ops": ops_json(&ops), "real_steps_observed_by_hook": steps, "outcome": format!("{:?}", run.real).chars().take(120).collect::<String>()}));
    }
}

fn describe_wal(b: &[u8]) -> Value {
    if b.first() == Some(&b'X') {
        return progx::wal_describe(b);
    }
    if let Some((env, st, op)) = wal_decode_step(b) {
        return json!({"step": {"env": env, "state": rvm_json(&st), "op": format!("{op:?}")}});
    }
    let s = String::from_utf8_lossy(b).to_string();
    if let Some(i) = s.strip_prefix('D').and_then(|x| x.parse::<usize>().ok()) {
        if let Some((label, ops, limit)) = directed_programs().into_iter().nth(i) {
            return json!({"directed": label, "ops": ops_json(&ops), "limit": limit});
        }
    }
    json!({"wal": s})
}

fn run_wal(b: &[u8]) {
    if b.first() == Some(&b'X') {
        return progx::wal_run(b);
    }
    if let Some((envl, st, op)) = wal_decode_step(b) {
        if let Some(env) = envs().into_iter().find(|e| e.0 == envl) {
            let m = model(WORDS_QUICK, 1, 1, 1, env);
            let _ = m.real_step(&st, &op);
        }
        return;
    }
    let s = String::from_utf8_lossy(b).to_string();
    if let Some(i) = s.strip_prefix('D').and_then(|x| x.parse::<usize>().ok()) {
        if let Some((_, ops, limit)) = directed_programs().into_iter().nth(i) {
            let env = ProgEnv::basic(Cost::Const(1), limit);
            let h = Holey { ops: Arc::new(ops.iter().cloned().map(Some).collect()) };
            let _ = run_real_with(&RVm::default(), h, &env, false);
        }
    }
}

fn replay(case: &Value) -> Result<bool, String> {
    match case["kind"].as_str() {
        Some("step") => {
            let env = envs().into_iter().find(|e| Some(e.0.as_str()) == case["env"].as_str()).ok_or("env")?;
            super::c08::replay_step("C05", case, model(WORDS_FULL, 4, 3, 2, env))
        }
        Some("prog") => {
            install_hook();
            let ops = ops_from_hex(case["ops_hex"].as_str().ok_or("ops_hex")?)?;
            let init: RvmSer = serde_json::from_value(case["init"].clone()).map_err(|e| e.to_string())?;
            let cost: Cost = serde_json::from_value(case["cost"].clone()).map_err(|e| e.to_string())?;
            let env = ProgEnv::basic(cost, case["limit"].as_u64().ok_or("limit")?);
            HOOK_BAD.with(|h| *h.borrow_mut() = None);
            let h = Holey { ops: Arc::new(ops.into_iter().map(Some).collect()) };
            let r = run_real_with(&RVm::from(&init), h, &env, false);
            let bad = HOOK_BAD.with(|h| h.borrow_mut().take());
            Ok(bad.is_some() || matches!(r, RealOut::Panic { .. }))
        }
        _ => Err("unknown case kind".into()),
    }
}
