//! C09 — control flow, repeat loops and evaluation results follow the specification.
use super::progx::{self, Px};
use crate::fw::*;
use crate::refvm::RVm;
use crate::util::*;
use crate::PropSpec;
use essential_asm::{self as asm, Op};
use essential_vm::{GasLimit, Vm};
use serde_json::{json, Value};

pub fn spec() -> PropSpec {
    PropSpec {
        id: "C09",
        level: "model_checking",
        rule: "hole-program exploration through the real exec loop: all programs of length <= L (quick 6, thorough 8) over {Push c (10 boundary constants), JumpIf, HaltIf, Halt, PanicIf, Repeat, RepeatEnd, RepeatCounter, Pop, Add}, up to dead-code equivalence, gas limit cutting loops; plus directed deep cases; each run compared with the reference VM on final pc, stack, gas, Ok/Err and failing index, and through eval. states = distinct completed programs, transitions = reference steps executed. non-trivial = reference executed >= 2 ops; distinct by bytecode+configuration",
        assumptions: &[
            "a halted VM's pc is the index of the Halt; distance 0 is an error only when the condition is 1",
            "the value of RepeatCounter in a loop entered with count <= 0 is unspecified (masked)",
            "the down-counting loop ends at 1 (property statement), not 0 (YAML prose)",
        ],
        run,
        replay,
        describe_wal: Some(progx::wal_describe),
        run_wal: Some(progx::wal_run),
        both_profiles: false,
        workers: 0,
    }
}

pub fn alphabet() -> Vec<Op> {
    let mut a: Vec<Op> = [MIN, -3, -2, -1, 0, 1, 2, 3, 5, MAX]
        .iter()
        .map(|&c| Op::Stack(asm::Stack::Push(c)))
        .collect();
    a.extend([
        Op::TotalControlFlow(asm::TotalControlFlow::JumpIf),
        Op::TotalControlFlow(asm::TotalControlFlow::HaltIf),
        Op::TotalControlFlow(asm::TotalControlFlow::Halt),
        Op::TotalControlFlow(asm::TotalControlFlow::PanicIf),
        Op::Stack(asm::Stack::Repeat),
        Op::Stack(asm::Stack::RepeatEnd),
        Op::Access(asm::Access::RepeatCounter),
        Op::Stack(asm::Stack::Pop),
        Op::Alu(asm::Alu::Add),
    ]);
    a
}

/// eval: true/false iff top of the final stack is 1/0, error otherwise.
fn check_eval(px: &Px, run: &progx::PxRun, rep: &mut Report) {
    let ops = run.completed();
    let mut vm: Vm = real_vm_from(px.init);
    let cost = px.env.cost;
    let r = catch(|| {
        vm.eval_ops(
            &ops,
            access_of(px.env),
            &px.env.state,
            &move |op: &Op| cost.of(op),
            GasLimit { per_yield: 4096, total: px.env.limit },
        )
    });
    rep.traces_validated_against_impl += 1;
    let want: Result<bool, ()> = match &run.rf.res {
        Ok(v) => match v.stack.last() {
            Some(1) => Ok(true),
            Some(0) => Ok(false),
            _ => Err(()),
        },
        Err(e) if matches!(e.kind, crate::refvm::RErr::Unspecified(_)) || e.hole.is_some() => return,
        Err(_) => Err(()),
    };
    if run.rf.stats.stray_compute_end || run.rf.stats.child_behind_parent {
        return;
    }
    let got: Result<bool, ()> = match &r {
        Ok(Ok(b)) => Ok(*b),
        Ok(Err(_)) => Err(()),
        Err(_) => Err(()),
    };
    let panicked = r.is_err();
    if want != got || panicked {
        let sig = Signature::new("C09", if panicked { "no_panic" } else { "eval.result" });
        let key = sig.key();
        rep.violate(
            || viol(sig, px.case_json(run), json!(format!("{want:?}")), json!(format!("{r:?}")), String::new()),
            Some(&key),
        );
    }
}

fn directed(cfg: &RunCfg, rep: &mut Report) {
    // Deep cases the enumeration cannot reach.
    use asm::{Access as A, Stack as S, TotalControlFlow as T};
    let push = |c| Op::Stack(S::Push(c));
    let mut cases: Vec<(String, Vec<Op>, u64)> = vec![];
    // nesting to the repeat-stack limit: a backward jump re-executes `Repeat` 4097 times
    // [0] Push 2 [1] Push 1 [2] Repeat [3] Push -3 [4] Push 1 [5] JumpIf
    cases.push(("nest-repeat-to-limit".into(), vec![push(2), push(1), Op::Stack(S::Repeat), push(-3), push(1), Op::TotalControlFlow(T::JumpIf)], 1_000_000));
    // nested loops resume at the right place: 3 x (2 x body)
    cases.push((
        "nested-3x2".into(),
        vec![push(3), push(1), Op::Stack(S::Repeat), push(2), push(0), Op::Stack(S::Repeat), Op::Access(A::RepeatCounter), Op::Stack(S::RepeatEnd), Op::Access(A::RepeatCounter), Op::Stack(S::RepeatEnd)],
        10_000,
    ));
    for n in [-1i64, 0, 1, 2, 7, 100] {
        for up in [0i64, 1] {
            cases.push((format!("loop n={n} up={up}"), vec![push(n), push(up), Op::Stack(S::Repeat), Op::Access(A::RepeatCounter), Op::Stack(S::RepeatEnd), push(9)], 10_000));
        }
    }
    // jumps past either end / extremes
    for d in [MIN, MIN + 1, -7, -6, -1, 0, 1, 2, 3, 4, 100, MAX - 1, MAX] {
        cases.push((format!("jump d={d}"), vec![push(7), push(8), push(9), push(d), push(1), Op::TotalControlFlow(T::JumpIf), push(10), push(11)], 1000));
    }
    cases.push(("repeat-end-without-loop".into(), vec![Op::Stack(S::RepeatEnd)], 10));
    cases.push(("counter-without-loop".into(), vec![Op::Access(A::RepeatCounter)], 10));
    for (i, (label, ops, limit)) in cases.into_iter().enumerate() {
        if !cfg.mine(i as u64) {
            continue;
        }
        let env = ProgEnv::basic(Cost::Const(1), limit);
        let init = RVm::default();
        let h = Holey { ops: std::sync::Arc::new(ops.iter().cloned().map(Some).collect()) };
        let real = run_real_with(&init, h.clone(), &env, false);
        let rf = run_ref(&init, &h, &env);
        let px = Px { prop: "C09", alphabet: &[], len: ops.len(), init: &init, env: &env, label: format!("directed:{label}"), mask_stray_compute_end: true };
        let run = progx::PxRun { ops: ops.into_iter().map(Some).collect(), real, rf, real_execs: 1 };
        check_eval(&px, &run, rep);
        let ctx = crate::xplore::Ctx::new(vec![]);
        px.visit(&ctx, run, rep);
    }
}

fn run(cfg: &RunCfg, rep: &mut Report) {
    let alpha = alphabet();
    let len = cfg.tier.pick(6, 8);
    let limit = cfg.tier.pick(64, 160);
    rep.bound_completed = format!("program length <= {len}, {} symbols, gas limit {limit}; directed deep cases", alpha.len());
    let env = ProgEnv::basic(Cost::Const(1), limit);
    let init = RVm::default();
    let px = Px { prop: "C09", alphabet: &alpha, len, init: &init, env: &env, label: format!("empty/len{len}/limit{limit}"), mask_stray_compute_end: true };
    px.explore(cfg, rep, &mut |px, run, rep| check_eval(px, run, rep));
    directed(cfg, rep);
    rep.states = rep.nontrivial_evals; // every completed program is distinct by construction (dead-code equivalence)
}

fn replay(case: &Value) -> Result<bool, String> {
    progx::replay_prog("C09", case)
}
