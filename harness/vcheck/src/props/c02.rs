//! C02 — validation is deterministic under any thread schedule and pool size.
use super::c02_corpus::*;
use crate::ckh::*;
use crate::fw::*;
use crate::sched;
use crate::util::*;
use crate::xplore::{self, Bounds};
use crate::PropSpec;
use essential_asm::Op;
use serde_json::{json, Value};
use std::sync::Arc;

pub fn spec() -> PropSpec {
    PropSpec {
        id: "C02",
        level: "model_checking",
        rule: "controlled-scheduler exploration of the REAL checker and VM under the rayon stand-in. Corpus: hand-built checker inputs with >= 2 solutions, graph levels with >= 2 nodes, node programs forking compute children (three nested levels of parallelism), two failing nodes in one level, several unsatisfied leaves, several data outputs; a deterministic thinning of the C01 encoding enumeration (cases with >= 2 solutions); VM programs whose compute children differ by index (memory sizes, final pcs, failing children, loop counters). Mode A: completion orders of every parallel section, every pick costs one deviation, deviation bound 2 (quick) / 3 (thorough) — all 6 orders of any 3-task section are within bound 2; mode B: op-granular preemptive interleavings (shuttle runtime, own DFS scheduler) with preemption bound 1 (quick) / 2 (thorough, capped); mode S: the hand-built corpus again in a build where essential-vm and essential-check are compiled from a token-rewritten copy of /repo's sources whose std::sync Mutex/RwLock/Condvar/Once/OnceLock/atomic/mpsc are shuttle's, so every synchronisation operation inside the checked crates (not only VM-op and task boundaries) is a scheduling point; every departure from the default schedule costs one deviation, bound 2 (quick) / 3 (thorough, capped). In that build std's HashMap/HashSet are also re-bound to the same maps with a hasher whose seed the harness sets: each input's sequential run is repeated under 8 (quick) / 32 (thorough) seeds and must give the seed-0 result (iteration order of hash collections as an owned environment answer; a seed sweep, not an enumeration of orders). Oracle: the observation under every schedule equals the observation of the sequential (index-order) run: Ok/Err class, failing solution and node indices in order, gas, data outputs in order, computed mutations in order; for Vm::exec Ok(gas)+final pc/stack/memory or Err+index. Then the same inputs run free under real rayon pools of 1,2,3,4,8,16 threads x 3 (conformance of the stand-in): every observed result must be the one the exploration produced. states = distinct inputs, transitions = schedules executed, traces_validated_against_impl = schedules + free-running real-rayon runs. non-trivial = input with >= 2 schedules; distinct by input",
        assumptions: &[
            "which failing compute child's inner error is carried inside ComputeError::Exec is not compared (rayon keeps the first error to arrive)",
            "interleavings are at the granularity of synchronisation operations (mode S) and VM operations (mode B); safe Rust has no data races, so finer interleavings cannot change results; HashMap iteration order is covered by a deterministic seed sweep in mode S only, and in modes A/B and the conformance pass it is std's RandomState",
            "mode S binds by token rewriting: a synchronisation primitive reached through a path other than std::sync (core::sync, a re-export, another crate) stays std's and is not a scheduling point; Arc stays std's",
            "the stand-in models rayon 1.10's result assembly (index-ordered collects, first-arrived error) — bound to the implementation by the conformance runs",
        ],
        run,
        replay,
        describe_wal: None,
        run_wal: None,
        both_profiles: false,
        workers: 0,
    }
}

fn report(kind: &str, name: &str, mode: &str, choices: Vec<u32>, case: Value, want: &str, got: &str, rep: &mut Report) {
    let sig = Signature::new("C02", "schedule_independent").feat(format!("mode:{mode}")).feat(format!("kind:{kind}"));
    let key = sig.key();
    rep.violate(
        || {
            let mut c = case;
            c["mode"] = json!(mode);
            c["schedule"] = json!(choices);
            c["name"] = json!(name);
            viol(sig, c, json!(want), json!(got), String::new())
        },
        Some(&key),
    );
}

pub fn explore_checker(name: &str, case: &CkCase, tier: Tier, rep: &mut Report) -> std::collections::BTreeSet<String> {
    let b = Arc::new(build(case));
    let case = Arc::new(case.clone());
    let seq = sched::run_sequential(|| ck_obs(&case, &b));
    let mut seen = std::collections::BTreeSet::new();
    seen.insert(seq.clone());
    let cj = || json!({"kind": "ck-sched", "case": &*case});
    // mode A
    let bounds = Bounds { sched: tier.pick(2, 3), env: 0, max_runs: tier.pick(4000, 200_000) };
    let st = xplore::explore(
        vec![],
        &bounds,
        |ctx| sched::run_atomic_opt(ctx, false, || ck_obs(&case, &b)).0,
        |ctx, o| {
            rep.transitions += 1;
            rep.traces_validated_against_impl += 1;
            if o != seq {
                report("checker", name, "A", ctx.choices(), cj(), &seq, &o, rep);
            }
            seen.insert(o);
        },
    );
    rep.add_extra("schedules_mode_a", st.runs);
    if st.capped {
        rep.cap("mode A run cap hit on some checker inputs (count in inputs_capped_mode_a)");
        rep.add_extra("inputs_capped_mode_a", 1);
    }
    let nontrivial = st.runs >= 2;
    // mode B
    let bounds = Bounds { sched: tier.pick(1, 2), env: 0, max_runs: tier.pick(6000, 100_000) };
    let (c2, b2) = (case.clone(), b.clone());
    let st = sched::explore_threads(
        vec![],
        &bounds,
        move || ck_obs(&c2, &b2),
        |choices, o| {
            rep.transitions += 1;
            rep.traces_validated_against_impl += 1;
            let o = o.unwrap_or_else(|e| format!("PANIC/DEADLOCK {e}"));
            if o != seq {
                report("checker", name, "B", choices.to_vec(), cj(), &seq, &o, rep);
            }
            seen.insert(o);
        },
    );
    rep.add_extra("schedules_mode_b", st.runs);
    if st.capped {
        rep.cap("mode B run cap hit on some checker inputs (count in inputs_capped_mode_b); below the cap the preemption-bounded DFS is complete");
        rep.add_extra("inputs_capped_mode_b", 1);
    }
    rep.eval(if nontrivial { Some(hash_of(&*case)) } else { None }, hash_of(&seq));
    seen
}

pub fn explore_program(name: &str, ops: &[Op], init: &crate::refvm::RVm, envk: &str, tier: Tier, rep: &mut Report) -> std::collections::BTreeSet<String> {
    let env = ProgEnv::named(envk, Cost::Const(1), 100_000);
    let h = Holey { ops: Arc::new(ops.iter().cloned().map(Some).collect()) };
    let seq = sched::run_sequential(|| run_real_with(init, h.clone(), &env, false));
    let want = sched_obs(&seq);
    let mut seen = std::collections::BTreeSet::new();
    seen.insert(format!("{want:?}"));
    let cj = || json!({"kind": "vm-sched", "ops_hex": ops_hex(ops), "ops": ops_json(ops), "init": RvmSer::from(init), "env": envk});
    let bounds = Bounds { sched: tier.pick(3, 5), env: 0, max_runs: tier.pick(5000, 200_000) };
    let st = xplore::explore(
        vec![],
        &bounds,
        |ctx| sched::run_atomic_opt(ctx, false, || run_real_with(init, h.clone(), &env, false)).0,
        |ctx, o| {
            rep.transitions += 1;
            rep.traces_validated_against_impl += 1;
            if sched_obs(&o) != want {
                report("vm", name, "A", ctx.choices(), cj(), &format!("{want:?}"), &format!("{o:?}"), rep);
            }
            seen.insert(format!("{:?}", sched_obs(&o)));
        },
    );
    rep.add_extra("schedules_mode_a", st.runs);
    if st.capped {
        rep.cap("mode A run cap hit on some vm programs (count in programs_capped_mode_a)");
        rep.add_extra("programs_capped_mode_a", 1);
    }
    let bounds = Bounds { sched: tier.pick(2, 3), env: 0, max_runs: tier.pick(20_000, 400_000) };
    let (h2, i2, e2) = (h.clone(), init.clone(), env.clone());
    let stb = sched::explore_threads(
        vec![],
        &bounds,
        move || run_real_with(&i2, h2.clone(), &e2, false),
        |choices, o| {
            rep.transitions += 1;
            rep.traces_validated_against_impl += 1;
            let got = match &o {
                Ok(o) => format!("{:?}", sched_obs(o)),
                Err(e) => format!("PANIC/DEADLOCK {e}"),
            };
            if got != format!("{want:?}") {
                report("vm", name, "B", choices.to_vec(), cj(), &format!("{want:?}"), &got, rep);
            }
            seen.insert(got);
        },
    );
    rep.add_extra("schedules_mode_b", stb.runs);
    if stb.capped {
        rep.cap("mode B run cap hit on some vm programs (count in programs_capped_mode_b)");
        rep.add_extra("programs_capped_mode_b", 1);
    }
    rep.eval(if st.runs >= 2 { Some(hash_of(&ops_hex(ops))) } else { None }, hash_of(&format!("{want:?}")));
    seen
}

/// Deterministic thinning of the C01 enumeration: cases with >= 2 solutions.
fn c01_sample(tier: Tier, mut f: impl FnMut(String, CkCase)) {
    let stride = tier.pick(4999u64, 499);
    let mut i = 0u64;
    for n in 2..=3 {
        for e in 1..=3 {
            super::c01::encodings(n, e, |starts, edges| {
                super::c01::cases_for(starts, edges, false, |case| {
                    if case.sols.len() >= 2 {
                        i += 1;
                        if i % stride == 0 {
                            f(format!("c01#{i}"), case);
                        }
                    }
                });
            });
        }
    }
}

fn conformance(rep: &mut Report, expected: &std::collections::BTreeMap<String, std::collections::BTreeSet<String>>) {
    // free-running real rayon (hooks off): every observed result must be one the exploration produced
    let exe = verif_root().join("harness-real/target/release/vreal");
    if !exe.exists() {
        rep.machinery_errors.push(format!("conformance binary {exe:?} not built"));
        return;
    }
    let out = std::process::Command::new(&exe).output();
    let Ok(out) = out else {
        rep.machinery_errors.push("cannot run the conformance binary".into());
        return;
    };
    if !out.status.success() {
        rep.machinery_errors.push(format!("conformance binary failed: {}", String::from_utf8_lossy(&out.stderr).chars().take(300).collect::<String>()));
        return;
    }
    let mut runs = 0u64;
    for line in String::from_utf8_lossy(&out.stdout).lines() {
        let Ok(v) = serde_json::from_str::<Value>(line) else { continue };
        let (Some(name), Some(obs)) = (v["name"].as_str(), v["obs"].as_str()) else { continue };
        let Some(set) = expected.get(name) else { continue };
        runs += 1;
        if !set.contains(obs) {
            let sig = Signature::new("C02", "real_rayon_conforms").feat(format!("threads:{}", v["threads"]));
            let key = sig.key();
            rep.violate(|| viol(sig, json!({"kind": "conformance", "name": name, "threads": v["threads"]}), json!(set), json!(obs), String::new()), Some(&key));
        }
    }
    rep.traces_validated_against_impl += runs;
    rep.add_extra("real_rayon_conformance_runs", runs);
    if runs == 0 {
        rep.machinery_errors.push("conformance binary produced no runs".into());
    }
}

/// Mode S: the same inputs in the `syncmc` binary, where essential-vm and essential-check are
/// compiled from a token-rewritten copy of /repo's sources with shuttle's Mutex / RwLock / Once /
/// atomics / channels in place of `std::sync`'s — every synchronisation operation INSIDE the
/// checked crates is a scheduling point there.
fn sync_level(tier: Tier, names: &[String], rep: &mut Report) {
    let exe = verif_root().join("harness/target/release/syncmc");
    if std::env::var("C02_SYNC_UNAVAILABLE").is_ok() {
        rep.cap("mode S unavailable: the rewritten copy of essential-vm/essential-check did not compile against shuttle's primitives on this tree (see the build note on stderr); modes A and B and the real-rayon conformance ran");
        return;
    }
    if std::env::var("C02_HASH_UNAVAILABLE").is_ok() {
        rep.cap("mode S ran without the hash-seed sweep: the copy did not compile with std's HashMap/HashSet re-bound to the seeded maps on this tree (see the build note on stderr)");
    }
    if !exe.exists() {
        rep.machinery_errors.push(format!("sync-level binary {exe:?} not built"));
        return;
    }
    let out = std::process::Command::new(&exe).arg(if tier == Tier::Quick { "quick" } else { "thorough" }).args(names).output();
    let Ok(out) = out else {
        rep.machinery_errors.push("cannot run the sync-level binary".into());
        return;
    };
    if !out.status.success() {
        rep.machinery_errors.push(format!("sync-level binary failed: {}", String::from_utf8_lossy(&out.stderr).chars().take(300).collect::<String>()));
        return;
    }
    let mut inputs = 0u64;
    for line in String::from_utf8_lossy(&out.stdout).lines() {
        let Ok(v) = serde_json::from_str::<Value>(line) else { continue };
        let (Some(name), Some(n)) = (v["name"].as_str(), v["schedules"].as_u64()) else { continue };
        inputs += 1;
        rep.transitions += n;
        rep.traces_validated_against_impl += n;
        rep.add_extra("schedules_mode_s", n);
        let seeds = v["hash_seeds"].as_u64().unwrap_or(1);
        rep.transitions += seeds - 1;
        rep.traces_validated_against_impl += seeds - 1;
        rep.add_extra("hash_seed_runs_mode_s", seeds - 1);
        if v["capped"].as_bool().unwrap_or(false) {
            rep.cap("mode S run cap hit on some inputs (count in inputs_capped_mode_s); below the cap the deviation-bounded DFS is complete");
            rep.add_extra("inputs_capped_mode_s", 1);
        }
        let want = v["want"].as_str().unwrap_or("");
        for bad in v["violations"].as_array().cloned().unwrap_or_default() {
            let kind = if v["kind"] == "ck-sync" { "checker" } else { "vm" };
            let choices: Vec<u32> = serde_json::from_value(bad["schedule"].clone()).unwrap_or_default();
            let seed = bad["hash_seed"].as_u64().unwrap_or(0);
            let mut case = v["case"].clone();
            case["hash_seed"] = json!(seed);
            // "H": the sequential run under another hasher seed differs (iteration-order dependence)
            report(kind, name, if seed == 0 { "S" } else { "H" }, choices, case, want, bad["got"].as_str().unwrap_or(""), rep);
        }
    }
    rep.add_extra("inputs_mode_s", inputs);
    if inputs as usize != names.len() {
        rep.machinery_errors.push(format!("sync-level binary answered for {inputs} of {} inputs", names.len()));
    }
}

fn run(cfg: &RunCfg, rep: &mut Report) {
    super::vmgraph::install_hook();
    rep.bound_completed = format!("mode A deviation bound {} (checker) / {} (vm); mode B preemption bound {} (checker) / {} (vm); mode S deviation bound {}", cfg.tier.pick(2, 3), cfg.tier.pick(3, 5), cfg.tier.pick(1, 2), cfg.tier.pick(2, 3), cfg.tier.pick(2, 3));
    let mut expected = std::collections::BTreeMap::new();
    let mut i = 0u64;
    for (name, case) in checker_inputs() {
        i += 1;
        if cfg.mine(i) {
            wal::tick();
            let s = explore_checker(&name, &case, cfg.tier, rep);
            rep.sample(|| json!({"checker_input": name, "distinct_results_over_all_schedules": s.len()}));
            expected.insert(name, s);
        }
    }
    for (name, ops, init, envk) in vm_programs() {
        i += 1;
        if cfg.mine(i) {
            wal::tick();
            let s = explore_program(&name, &ops, &init, envk, cfg.tier, rep);
            rep.sample(|| json!({"vm_program": name, "ops": ops_json(&ops), "distinct_results_over_all_schedules": s.len()}));
            expected.insert(name, s);
        }
    }
    c01_sample(cfg.tier, |name, case| {
        i += 1;
        if cfg.mine(i) {
            wal::tick();
            explore_checker(&name, &case, Tier::Quick, rep);
        }
    });
    // conformance: each worker validates the inputs it explored (the binary runs everything;
    // only worker 0..n run it for their own names)
    if !expected.is_empty() {
        conformance(rep, &expected);
        let names: Vec<String> = expected.keys().cloned().collect();
        sync_level(cfg.tier, &names, rep);
    }
    rep.states = rep.distinct_nontrivial.len() as u64;
}

fn replay(case: &Value) -> Result<bool, String> {
    super::vmgraph::install_hook();
    let choices: Vec<u32> = serde_json::from_value(case["schedule"].clone()).map_err(|e| e.to_string())?;
    let mode = case["mode"].as_str().unwrap_or("A").to_string();
    match case["kind"].as_str() {
        Some("ck-sync") | Some("vm-sync") => {
            // mode S schedules only exist in the sync-level binary
            let dir = verif_root().join("work");
            let _ = std::fs::create_dir_all(&dir);
            let f = dir.join(format!("c02-sync-replay-{}.json", std::process::id()));
            std::fs::write(&f, case.to_string()).map_err(|e| e.to_string())?;
            let st = std::process::Command::new(verif_root().join("harness/target/release/syncmc")).arg("--replay").arg(&f).status().map_err(|e| e.to_string())?;
            let _ = std::fs::remove_file(&f);
            match st.code() {
                Some(0) => Ok(true),
                Some(3) => Ok(false),
                c => Err(format!("sync-level replay failed (exit {c:?}): divergence, nondeterminism or unreadable case")),
            }
        }
        Some("ck-sched") => {
            let c: CkCase = serde_json::from_value(case["case"].clone()).map_err(|e| e.to_string())?;
            let b = Arc::new(build(&c));
            let c = Arc::new(c);
            let seq = sched::run_sequential(|| ck_obs(&c, &b));
            let once = || -> Result<String, String> {
                let ctx = xplore::Ctx::new(choices.clone());
                let o = if mode == "A" {
                    sched::run_atomic_opt(&ctx, false, || ck_obs(&c, &b)).0
                } else {
                    let (c2, b2) = (c.clone(), b.clone());
                    sched::run_threads(&ctx, move || ck_obs(&c2, &b2)).unwrap_or_else(|e| format!("PANIC/DEADLOCK {e}"))
                };
                if ctx.diverged() {
                    return Err("replay divergence".into());
                }
                Ok(o)
            };
            let (a, b2) = (once()?, once()?);
            if a != b2 {
                return Err("nondeterministic replay".into());
            }
            Ok(a != seq)
        }
        Some("vm-sched") => {
            let mut c = case.clone();
            c["kind"] = json!("sched");
            c["cost"] = json!(Cost::Const(1));
            c["limit"] = json!(100_000);
            // C10's replay uses free picks for small sections; here every pick costs, but the
            // choice vector is the same
            super::c10::replay_sched(&c, false)
        }
        _ => Err("unknown case kind".into()),
    }
}
