//! VMGRAPH — explicit-state search (stateright) over VM configurations.
//! Transition = the real `sync::step_op` on a VM rebuilt from the state; the reference
//! single-step function runs alongside. Oracles run as a side effect of `next_state` and
//! append to a shared report (stateright stops at the first discovery per property, which
//! would hide everything behind a known finding), the stateright property is a trivial `always`.

use crate::fw::*;
use crate::refvm::{self, Flow, RErr, RSlot, RVm, RefProg, W};
use crate::util::*;
use essential_asm::Op;
use essential_vm::{GasLimit, ProgramControlFlow};
use serde_json::{json, Value};
use stateright::{Checker, Model, Property};
use std::sync::atomic::{AtomicU64, Ordering};
use std::sync::{Arc, Mutex};

#[derive(Clone, Debug, Hash, PartialEq, Eq)]
pub struct VState {
    pub depth: u8,
    pub init: u8,
    pub vm: RVm,
}

/// Program accessor: index i maps to cont[i - base] (children of a Compute at `base-1`).
#[derive(Clone)]
pub struct Shifted {
    pub base: usize,
    pub cont: Arc<Vec<Op>>,
}
impl essential_vm::OpAccess for Shifted {
    type Op = Op;
    type Error = core::convert::Infallible;
    fn op_access(&self, index: usize) -> Option<Result<Op, Self::Error>> {
        index.checked_sub(self.base).and_then(|i| self.cont.get(i)).cloned().map(Ok)
    }
}
impl RefProg for Shifted {
    fn at(&self, pc: usize) -> Option<Result<Op, ()>> {
        pc.checked_sub(self.base).and_then(|i| self.cont.get(i)).cloned().map(Ok)
    }
}

/// Per-thread shards of the report so that search threads do not contend.
#[derive(Clone)]
pub struct Sink(pub Arc<Vec<Mutex<Report>>>);

static NEXT_SHARD: std::sync::atomic::AtomicUsize = std::sync::atomic::AtomicUsize::new(0);
thread_local! {
    static MY_SHARD: usize = NEXT_SHARD.fetch_add(1, Ordering::Relaxed);
}

impl Sink {
    pub fn new() -> Self {
        Sink(Arc::new((0..64).map(|_| Mutex::new(Report::new())).collect()))
    }
    pub fn shard(&self) -> std::sync::MutexGuard<'_, Report> {
        let i = MY_SHARD.with(|s| *s) % self.0.len();
        self.0[i].lock().unwrap()
    }
    pub fn take_all(&self) -> Report {
        let mut acc = Report::new();
        for m in self.0.iter() {
            let r = std::mem::replace(&mut *m.lock().unwrap(), Report::new());
            merge_with_sets(&mut acc, r);
        }
        acc
    }
}

pub struct VmGraph {
    pub prop: &'static str,
    pub actions: Vec<Op>,
    pub inits: Vec<(String, RVm, u8)>, // label, config, max depth
    pub env: ProgEnv,
    pub env_label: String,
    pub cont: Arc<Vec<Op>>,
    pub compare_ref: bool,
    pub check_bounds: bool,
    pub sink: Sink,
    pub transitions: AtomicU64,
    pub err_transitions: AtomicU64,
}

thread_local! {
    /// Bound violation seen by the on_step hook during the current transition.
    pub static HOOK_BAD: std::cell::RefCell<Option<String>> = const { std::cell::RefCell::new(None) };
    pub static HOOK_STEPS: std::cell::Cell<u64> = const { std::cell::Cell::new(0) };
}

pub fn bounds_violation(vm: &essential_vm::Vm) -> Option<String> {
    if vm.stack.len() > refvm::STACK_LIMIT {
        return Some(format!("bounds.stack: {} words", vm.stack.len()));
    }
    if <[i64]>::len(&vm.memory) > refvm::MEM_LIMIT {
        return Some(format!("bounds.memory: {} words", <[i64]>::len(&vm.memory)));
    }
    if vm.parent_memory.len() > 1 {
        return Some(format!("bounds.compute_depth: {}", vm.parent_memory.len()));
    }
    if let Some(d) = repeat_depth(&vm.repeat) {
        if d > refvm::REPEAT_LIMIT {
            return Some(format!("bounds.repeat: {d} entries"));
        }
    }
    None
}

fn hook(vm: &essential_vm::Vm) {
    crate::sched::maybe_yield();
    HOOK_STEPS.with(|c| c.set(c.get() + 1));
    if let Some(b) = bounds_violation(vm) {
        HOOK_BAD.with(|h| {
            let mut h = h.borrow_mut();
            if h.is_none() {
                *h = Some(b);
            }
        });
    }
}

pub fn install_hook() {
    essential_vm::verif::set_on_step(hook);
}

pub enum RealStep {
    Ok(Snap, bool /* terminal */),
    Err(String),
    Panic(String, String),
}

impl VmGraph {
    pub fn real_step(&self, st: &RVm, op: &Op) -> RealStep {
        let mut vm = real_vm_from(st);
        let oa = Shifted { base: st.pc + 1, cont: self.cont.clone() };
        let cost = self.env.cost;
        let limit = GasLimit { per_yield: 4096, total: self.env.limit };
        let r = catch(|| {
            essential_vm::sync::step_op(access_of(&self.env), op.clone(), &mut vm, &self.env.state, oa, &move |o: &Op| cost.of(o), limit)
        });
        match r {
            Err((site, msg)) => RealStep::Panic(site, msg),
            Ok(Err(e)) => RealStep::Err(format!("{e:?}").chars().take(200).collect()),
            Ok(Ok(flow)) => {
                let mut terminal = false;
                match flow {
                    None => vm.pc += 1,
                    Some(ProgramControlFlow::Pc(n)) => vm.pc = n,
                    Some(ProgramControlFlow::Halt) => terminal = true,
                    Some(ProgramControlFlow::ComputeEnd) => {
                        vm.pc += 1;
                        terminal = true
                    }
                    Some(ProgramControlFlow::ComputeResult((pc, _gas, _halt))) => vm.pc = pc,
                }
                if self.check_bounds {
                    if let Some(b) = bounds_violation(&vm) {
                        HOOK_BAD.with(|h| *h.borrow_mut() = Some(b));
                    }
                }
                RealStep::Ok(snap_real(&vm, false), terminal)
            }
        }
    }

    pub fn ref_step(&self, st: &RVm, op: &Op) -> (Result<(RVm, bool), RErr>, u64) {
        let mut vm = st.clone();
        let prog = Shifted { base: st.pc + 1, cont: self.cont.clone() };
        let mut ex = refvm::Exec::new(&self.env, &prog);
        let r = match ex.step_any(&mut vm, op) {
            Ok(flow) => {
                let mut terminal = false;
                match flow {
                    Flow::Next => vm.pc += 1,
                    Flow::Jump(t) => vm.pc = t,
                    Flow::Halt => terminal = true,
                    Flow::ComputeEnd => {
                        vm.pc += 1;
                        terminal = true
                    }
                }
                Ok((vm, terminal))
            }
            Err(e) => Err(e.kind),
        };
        (r, ex.stats.ops)
    }

    /// Write-ahead form of one transition: 'S' + postcard(env label, state, op bytes).
    pub fn wal_encode(&self, st: &RVm, op: &Op) -> Vec<u8> {
        let mut v = vec![b'S'];
        let body = (self.env_label.clone(), RvmSer::from(st), essential_asm::to_bytes([op.clone()]).collect::<Vec<u8>>());
        v.extend(postcard::to_allocvec(&body).unwrap_or_default());
        v
    }

    fn case(&self, st: &VState, op: &Op) -> Value {
        json!({
            "kind": "step",
            "env": self.env_label,
            "init": self.inits[st.init as usize].0,
            "depth": st.depth,
            "state": RvmSer::from(&st.vm),
            "state_brief": rvm_json(&st.vm),
            "op": format!("{op:?}"),
            "op_hex": ops_hex(&[op.clone()]),
            "cont_hex": ops_hex(&self.cont),
        })
    }

    /// The oracle for one transition; returns the successor (if any).
    pub fn transition(&self, st: &VState, op: &Op, rep: &mut Report) -> Option<VState> {
        HOOK_BAD.with(|h| *h.borrow_mut() = None);
        let real = self.real_step(&st.vm, op);
        let hook_bad = HOOK_BAD.with(|h| h.borrow_mut().take());
        let (rf, ref_ops) = self.ref_step(&st.vm, op);
        let _ = ref_ops;
        let obs = match &real {
            RealStep::Ok(s, t) => hash_of(&(s, t)),
            RealStep::Err(_) => 1,
            RealStep::Panic(..) => 2,
        };
        rep.eval(
            if matches!(real, RealStep::Ok(..)) { Some(hash_of(&(&self.inits[st.init as usize].0, &st.vm, ops_hex(&[op.clone()])))) } else { None },
            obs,
        );
        // totality + bounds
        if let RealStep::Panic(site, msg) = &real {
            let sig = Signature::new(self.prop, "no_panic").site(format!("{site}: {msg}"));
            let key = sig.key();
            rep.violate(|| viol(sig, self.case(st, op), json!("Ok or typed Err"), json!(format!("panic at {site}: {msg}")), step_snippet(&st.vm, op)), Some(&key));
            return None;
        }
        if self.check_bounds {
            if let Some(b) = hook_bad {
                let clause = b.split(':').next().unwrap_or("bounds").to_string();
                let sig = Signature::new(self.prop, &clause).feat(format!("op:{}", op_name(op)));
                let key = sig.key();
                rep.violate(|| viol(sig, self.case(st, op), json!("within resource bounds after every op"), json!(b), step_snippet(&st.vm, op)), Some(&key));
            }
        }
        if !self.compare_ref {
            // successor = what the real VM produced (rebuilt into reference form)
            return match (real, rf) {
                (RealStep::Ok(s, terminal), Ok((rvm, _))) if !terminal => {
                    // use the reference form only if it mirrors the real configuration
                    let (rs, _) = snap_ref(&rvm, s.repeat_depth.is_some());
                    if rs == s || (rs.pc == s.pc && rs.stack == s.stack && rs.memory == s.memory && rs.repeat_depth == s.repeat_depth) {
                        Some(VState { depth: st.depth + 1, init: st.init, vm: rvm })
                    } else {
                        None
                    }
                }
                _ => None,
            };
        }
        match (real, rf) {
            (_, Err(RErr::Unspecified(w))) => {
                rep.mask(w);
                None
            }
            (RealStep::Err(_), Err(_)) => None,
            (RealStep::Ok(s, rt), Ok((rvm, ft))) => {
                let (rs, degenerate) = snap_ref(&rvm, s.repeat_depth.is_some());
                let mut s2 = s.clone();
                if degenerate {
                    s2.repeat_top = None;
                }
                if rs != s2 || rt != ft {
                    let sig = Signature::new(self.prop, "step.result").feat(format!("op:{}", op_name(op)));
                    let key = sig.key();
                    rep.violate(|| viol(sig, self.case(st, op), json!(format!("{rs:?} terminal={ft}")), json!(format!("{s2:?} terminal={rt}")), step_snippet(&st.vm, op)), Some(&key));
                    return None;
                }
                if rt {
                    None
                } else {
                    Some(VState { depth: st.depth + 1, init: st.init, vm: rvm })
                }
            }
            (RealStep::Ok(s, _), Err(e)) => {
                let sig = Signature::new(self.prop, "missing_error").feat(format!("op:{}", op_name(op)));
                let key = sig.key();
                rep.violate(|| viol(sig, self.case(st, op), json!(format!("Err({e:?})")), json!(format!("Ok {s:?}")), step_snippet(&st.vm, op)), Some(&key));
                None
            }
            (RealStep::Err(d), Ok((rvm, _))) => {
                let sig = Signature::new(self.prop, "spurious_error").feat(format!("op:{}", op_name(op)));
                let key = sig.key();
                rep.violate(|| viol(sig, self.case(st, op), json!(format!("Ok {}", rvm_json(&rvm))), json!(format!("Err {d}")), step_snippet(&st.vm, op)), Some(&key));
                None
            }
            (RealStep::Panic(..), _) => None,
        }
    }
}

pub fn op_name(op: &Op) -> String {
    let s = format!("{op:?}");
    match s.find("(Push(") {
        Some(_) => "Stack(Push)".into(),
        None => s,
    }
}

fn step_snippet(st: &RVm, op: &Op) -> String {
    format!(
        "#[test]\nfn replay() {{\n    use essential_vm::{{*, asm::*}};\n    let mut vm = Vm::default();\n    vm.pc = {};\n    vm.stack = Stack::try_from(vec!{:?}).unwrap();\n    vm.memory = Memory::try_from(vec!{:?}).unwrap();\n    // op: {:?}; see the replay file for parent memory / repeat state / continuation\n}}\n",
        st.pc,
        if st.stack.len() <= 32 { st.stack.clone() } else { vec![] },
        if st.memory.len() <= 32 { st.memory.clone() } else { vec![] },
        op
    )
}

impl Model for VmGraph {
    type State = VState;
    type Action = u16;

    fn init_states(&self) -> Vec<VState> {
        self.inits
            .iter()
            .enumerate()
            .map(|(i, (_, vm, _))| VState { depth: 0, init: i as u8, vm: vm.clone() })
            .collect()
    }

    fn actions(&self, state: &VState, actions: &mut Vec<u16>) {
        if state.depth < self.inits[state.init as usize].2 {
            // Compute breadth beyond a few thousand is excluded (pure resource question)
            let huge = state.vm.stack.last().map(|&t| t > 20_000).unwrap_or(false);
            for (i, op) in self.actions.iter().enumerate() {
                if huge && refvm::is_compute(op) {
                    continue;
                }
                actions.push(i as u16);
            }
        }
    }

    fn next_state(&self, last: &VState, action: u16) -> Option<VState> {
        let op = &self.actions[action as usize];
        wal::set(&self.wal_encode(&last.vm, op));
        let mut g = self.sink.shard();
        let next = self.transition(last, op, &mut g);
        drop(g);
        self.transitions.fetch_add(1, Ordering::Relaxed);
        if next.is_none() {
            self.err_transitions.fetch_add(1, Ordering::Relaxed);
        }
        next
    }

    fn properties(&self) -> Vec<Property<Self>> {
        vec![Property::<Self>::always("oracles run as side effects", |_, _| true)]
    }
}

/// Run the search; fills `rep` with states/transitions and whatever the oracles recorded.
pub fn search(model: VmGraph, threads: usize, rep: &mut Report, samples: usize) {
    install_hook();
    let sink = model.sink.clone();
    let n_inits = model.inits.len();
    let labels: Vec<String> = model.inits.iter().map(|i| format!("{}(depth<={})", i.0, i.2)).collect();
    let nact = model.actions.len();
    let env_label = model.env_label.clone();
    let checker = model.checker().threads(threads).spawn_bfs().join();
    let states = checker.unique_state_count() as u64;
    let model = checker.model();
    let tr = model.transitions.load(Ordering::Relaxed);
    let mut s = sink.take_all();
    s.states = states;
    s.transitions = tr;
    s.traces_validated_against_impl = tr;
    s.exhaustive = true;
    for (i, l) in labels.iter().enumerate().take(samples) {
        let _ = i;
        s.samples.push(json!({"env": env_label, "initial_state": l, "actions_per_state": nact}));
    }
    let _ = n_inits;
    merge_with_sets(rep, s);
}

// ---------------------------------------------------------------------------------------------
// Initial states and action sets shared by C05 / C08

pub fn patterned(n: usize) -> Vec<W> {
    (0..n as W).map(|i| (i % 7) - 3).collect()
}

pub fn base_inits(d_small: u8, d_big: u8) -> Vec<(String, RVm, u8)> {
    let vm = |stack: Vec<W>, memory: Vec<W>, pm: Option<Vec<W>>| RVm { pc: 5, stack, memory, parent_memory: pm, repeat: vec![] };
    vec![
        ("empty".into(), vm(vec![], vec![], None), d_small),
        ("mixed".into(), vm(vec![3, 5, 5, 3], vec![7, 8, 9], None), d_small),
        ("sets".into(), vm(vec![5, 1, 6, 1, 4, 6, 1, 5, 1, 4], vec![], None), d_small),
        ("ranges".into(), vm(vec![1, 2, 3, 1, 2, 4, 3, 0], vec![0; 8], None), d_small),
        ("child".into(), vm(vec![2, 1], vec![4], Some(vec![7, 8, 9])), d_small),
        ("child-empty-parent".into(), vm(vec![0], vec![], Some(vec![])), d_small),
        ("stack-4095".into(), vm(patterned(4095), vec![1, 2], None), d_big),
        ("stack-4096".into(), vm(patterned(4096), vec![1, 2], None), d_big),
        ("memory-10239".into(), vm(vec![1, 2], patterned(10239), None), d_big),
        ("memory-10240".into(), vm(vec![1, 2], patterned(10240), None), d_big),
    ]
}

pub fn repeat_inits(d: u8) -> Vec<(String, RVm, u8)> {
    let slots = |n: usize| -> Vec<RSlot> {
        (0..n)
            .map(|i| RSlot { counter: 0, up: Some(2), ret: i + 1, degenerate: false })
            .collect()
    };
    let mk = |n: usize| RVm { pc: 5, stack: vec![2, 1], memory: vec![], parent_memory: None, repeat: slots(n) };
    let mut down = mk(0);
    down.repeat.push(RSlot { counter: 3, up: None, ret: 2, degenerate: false });
    vec![
        ("repeat-1-down".into(), down, d),
        ("repeat-4095".into(), mk(4095), d),
        ("repeat-4096".into(), mk(4096), d),
    ]
}

pub fn pushes(words: &[W]) -> Vec<Op> {
    words.iter().map(|&w| Op::Stack(essential_asm::Stack::Push(w))).collect()
}

pub fn continuation() -> Arc<Vec<Op>> {
    use essential_asm::{Compute as C, Memory as M, ParentMemory as PM, Stack as S};
    // children: allocate (index+1) words, store the index, read parent memory[0] if any, end
    Arc::new(vec![
        Op::Stack(S::Dup),
        Op::Stack(S::Push(1)),
        Op::Alu(essential_asm::Alu::Add),
        Op::Memory(M::Alloc),
        Op::Memory(M::Store),
        Op::Compute(C::ComputeEnd),
        Op::ParentMemory(PM::Load),
    ])
}

pub fn wal_decode_step(b: &[u8]) -> Option<(String, RVm, Op)> {
    if b.first() != Some(&b'S') {
        return None;
    }
    let (env, st, opb): (String, RvmSer, Vec<u8>) = postcard::from_bytes(&b[1..]).ok()?;
    let op = essential_asm::from_bytes(opb.into_iter()).next()?.ok()?;
    Some((env, RVm::from(&st), op))
}
