//! C01 — solution-set verdict equals the predicate-graph reference semantics.
use crate::ckh::*;
use crate::fw::*;
use crate::refcheck::{self, Expect, Graph, RefRun, SolExpect};
use crate::refvm::W;
use crate::PropSpec;
use serde_json::{json, Value};
use std::collections::{BTreeMap, BTreeSet};

pub fn spec() -> PropSpec {
    PropSpec {
        id: "C01",
        level: "model_checking",
        rule: "enumeration of predicate-graph ENCODINGS: all (nodes, edges) with n <= 3 (thorough 4) nodes and E <= 3 (thorough 4) edges where every edge_start is in {0..=E, E+1, 0xFFFF} and every edge in {0..n-1, n (dangling)} — every numbering incl. non-topological ones, multi-edges, diamonds, overlapping slices, cycles, self-loops, malformed slices; x node-role assignments (all-tracer/dump base plus each node in turn made post-reading / failing / true / false[0] / empty / [1,1] leaf; all nodes sharing one program; every pair of nodes sharing one post-reading program) x solution sets {one solution, two solutions of the same predicate, two predicates} x both collect_all_failures x two call patterns (two-pass entry point; check_set_predicates in mode Outputs then Checks over a shared cache). Oracle = reference graph semantics evaluated with the reference VM (verdict class, failing solutions/nodes, gas, computed mutations, data outputs) plus the echo log (every node exactly once, after its parents, rejected graphs never partially evaluated). states = distinct cases, transitions = node executions observed through the echo channel. non-trivial = at least one node program ran; distinct by full case",
        assumptions: &[
            "an edge to a node index >= n is ignored for ordering (the accessor does not reject it); its acceptance is not reported",
            "children of a failed node have no defined input: their outcome is masked; with collect_all_failures=false only 'a non-empty subset of genuinely failing nodes' is required",
            "data outputs and failing indices are compared as sets/multisets (order is not specified)",
        ],
        run,
        replay,
        describe_wal: None,
        run_wal: None,
        both_profiles: false,
        workers: 0,
    }
}

fn is_echo(r: &Rec) -> bool {
    r.2 == 0 && r.1.first() == Some(&ECHO_MAGIC) && r.1.len() >= 2
}

fn multiset(log: &[Rec]) -> BTreeMap<Rec, usize> {
    let mut m = BTreeMap::new();
    for r in log.iter().filter(|r| is_echo(r)) {
        *m.entry(r.clone()).or_default() += 1;
    }
    m
}

fn fail(prop: &str, clause: &str, feats: &[String], case: &CkCase, pattern: &str, want: String, got: String, rep: &mut Report) {
    let mut sig = Signature::new(prop, clause);
    for f in feats {
        sig = sig.feat(f.clone());
    }
    let key = sig.key();
    rep.violate(|| viol(sig, json!({"kind": "ck", "pattern": pattern, "case": case}), json!(want), json!(got), String::new()), Some(&key));
}

/// Discriminating features of a case (for known-finding signatures).
pub fn features(case: &CkCase, rf: &RefRun) -> Vec<String> {
    let mut f = vec![];
    for (si, s) in case.sols.iter().enumerate() {
        let g = Graph::of(&case.preds[s.pred]);
        if g.invalid() {
            continue;
        }
        // a deferred node with a larger index than one of its (transitive) children
        let d = &rf.deferred[si];
        for &i in d {
            if g.children(i).iter().any(|&c| c < i) {
                f.push("deferred_parent_index>child_index".to_string());
            }
        }
    }
    f.sort();
    f.dedup();
    f
}

fn tag_owner(case: &CkCase, tag: W) -> Option<(usize, usize)> {
    for (p, pc) in case.preds.iter().enumerate() {
        for (n, node) in pc.nodes.iter().enumerate() {
            if matches!(&node.1, Role::Tagged(_, t) if *t == tag) {
                return Some((p, n));
            }
        }
    }
    let t = tag - 1;
    let (p, n) = ((t / 32) as usize, (t % 32) as usize);
    if p < case.preds.len() && n < case.preds[p].nodes.len() {
        Some((p, n))
    } else {
        None
    }
}

/// Compare the two-pass entry point with the reference.
pub fn compare_two_pass(prop: &str, case: &CkCase, real: &RealRun, rf: &RefRun, rep: &mut Report) {
    let feats = features(case, rf);
    let pat = "two_pass";
    if let CkOut::Panic { site, msg } = &real.out {
        let sig = Signature::new(prop, "no_panic").site(format!("{site}: {msg}"));
        let key = sig.key();
        rep.violate(|| viol(sig, json!({"kind": "ck", "pattern": pat, "case": case}), json!("Ok or typed Err"), json!(format!("panic {site}: {msg}")), String::new()), Some(&key));
        return;
    }
    match (&rf.expect, &real.out) {
        (Expect::Unspecified(w), _) => {
            rep.mask(w);
            return;
        }
        (Expect::Ok { gas, mutations }, CkOut::Ok { gas: g2, mutations: m2 }) => {
            if gas != g2 {
                fail(prop, "gas.total", &feats, case, pat, gas.to_string(), g2.to_string(), rep);
            }
            // per solution: declared prefix in order, computed part as a multiset
            let norm = |m: &Vec<Vec<(Vec<W>, Vec<W>)>>| -> Vec<Vec<(Vec<W>, Vec<W>)>> {
                m.iter()
                    .map(|v| {
                        let mut v = v.clone();
                        v.sort();
                        v
                    })
                    .collect()
            };
            if norm(mutations) != norm(m2) {
                fail(prop, "computed_mutations", &feats, case, pat, format!("{mutations:?}"), format!("{m2:?}"), rep);
            }
        }
        (Expect::Ok { .. }, other) => {
            fail(prop, "verdict_class", &feats, case, pat, "Ok".into(), format!("{other:?}"), rep);
        }
        (Expect::Fail { pass, sols }, CkOut::Failed(got)) => {
            let want_set: BTreeSet<u16> = sols.iter().map(|s| s.0).collect();
            let got_set: BTreeSet<u16> = got.iter().map(|s| s.0).collect();
            let mutations_fail = sols.iter().all(|s| matches!(s.1, SolExpect::Mutations));
            let ok_set = if mutations_fail { !got_set.is_empty() && got_set.is_subset(&want_set) } else { got_set == want_set };
            if !ok_set {
                fail(prop, "failing_solutions", &feats, case, pat, format!("pass {pass}: {want_set:?}"), format!("{got_set:?}"), rep);
                return;
            }
            for (si, g) in got {
                let Some((_, w)) = sols.iter().find(|s| s.0 == *si) else { continue };
                match (w, g) {
                    (SolExpect::InvalidGraph, SolFail::InvalidGraph) | (SolExpect::Mutations, SolFail::Mutations) => {}
                    (SolExpect::Unsatisfied(want), SolFail::Unsatisfied(gotn)) => {
                        let gotn: BTreeSet<usize> = gotn.iter().copied().collect();
                        if *want != gotn {
                            fail(prop, "failing_nodes.unsatisfied", &feats, case, pat, format!("{want:?}"), format!("{gotn:?}"), rep);
                        }
                    }
                    (SolExpect::Program { roots, tainted }, SolFail::ProgramErrors(gotn)) => {
                        let gotn: BTreeSet<usize> = gotn.iter().copied().collect();
                        let within = gotn.is_subset(tainted) && !gotn.is_empty();
                        let covers = !case.collect_all || roots.is_subset(&gotn);
                        if !within || !covers {
                            fail(prop, "failing_nodes.program", &feats, case, pat, format!("roots {roots:?} within {tainted:?}"), format!("{gotn:?}"), rep);
                        }
                    }
                    (w, g) => fail(prop, "failure_kind", &feats, case, pat, format!("{w:?}"), format!("{g:?}"), rep),
                }
            }
        }
        (Expect::Fail { pass, sols }, other) => {
            fail(prop, "verdict_class", &feats, case, pat, format!("fails in pass {pass}: {sols:?}"), format!("{other:?}"), rep);
            return;
        }
    }
    // echo log
    let mut expected = multiset(&rf.log1);
    for (k, v) in multiset(&rf.log2) {
        *expected.entry(k).or_default() += v;
    }
    let got = multiset(&real.log);
    let tainted_tags: BTreeSet<W> = rf
        .passes
        .iter()
        .enumerate()
        .flat_map(|(si, (a, b))| {
            let p = case.sols[si].pred;
            a.tainted.iter().chain(b.iter().flat_map(|b| b.tainted.iter())).map(move |&n| tag_of(p, n)).collect::<Vec<_>>()
        })
        .collect();
    let ok_expected = matches!(rf.expect, Expect::Ok { .. });
    for (r, &n) in &got {
        let want = expected.get(r).copied().unwrap_or(0);
        if n > want && !tainted_tags.contains(&r.1[1]) {
            // a probe echo (tag + memory window) that differs from the expected one is a wrong value
            let probe = r.1.len() > 4;
            let same_tag_expected: Vec<&Rec> = expected.keys().filter(|e| e.1[1] == r.1[1] && e.1.len() == r.1.len()).collect();
            if probe && !same_tag_expected.is_empty() {
                let mut f2 = feats.clone();
                if let Some((p, nn)) = tag_owner(case, r.1[1]) {
                    if let Role::Probe { op, .. } = &case.preds[p].nodes[nn].1 {
                        f2.push(format!("probe_op:{op}"));
                    }
                }
                fail(prop, "read.value", &f2, case, pat, format!("{same_tag_expected:?}"), format!("{r:?}"), rep);
            } else {
                fail(prop, "exactly_once_after_parents", &feats, case, pat, format!("record {r:?} x{want}"), format!("x{n}"), rep);
            }
            return;
        }
    }
    // pass attribution: every echo of a deferred node comes after every echo of a non-deferred one
    {
        let echoes: Vec<&Rec> = real.log.iter().filter(|r| is_echo(r)).collect();
        let is_def = |r: &Rec| -> Option<bool> {
            let (p, n) = tag_owner(case, r.1[1])?;
            let si = case.sols.iter().position(|s| s.pred == p && s.contract == r.0)?;
            Some(rf.deferred[si].contains(&n))
        };
        let last_p1 = echoes.iter().rposition(|r| is_def(r) == Some(false));
        let first_p2 = echoes.iter().position(|r| is_def(r) == Some(true));
        if let (Some(a), Some(b)) = (last_p1, first_p2) {
            if b < a {
                fail(prop, "pass_attribution", &feats, case, pat, "deferred nodes run after all first-pass nodes".into(), format!("deferred echo at {b} before first-pass echo at {a}"), rep);
            }
        }
    }
    if ok_expected || case.collect_all {
        for (r, &n) in &expected {
            if got.get(r).copied().unwrap_or(0) < n {
                fail(prop, "exactly_once_after_parents", &feats, case, pat, format!("record {r:?} x{n}"), format!("x{}", got.get(r).copied().unwrap_or(0)), rep);
                return;
            }
        }
    }
    // rejected rather than partially evaluated; order: parents first
    let echoes: Vec<&Rec> = real.log.iter().filter(|r| is_echo(r)).collect();
    for (si, s) in case.sols.iter().enumerate() {
        let g = Graph::of(&case.preds[s.pred]);
        if g.invalid() {
            // only if no other solution shares this predicate's tags legitimately
            if echoes.iter().any(|r| tag_owner(case, r.1[1]).map(|o| o.0 == s.pred).unwrap_or(false) && r.0 == s.contract) {
                fail(prop, "rejected_not_partially_evaluated", &feats, case, pat, "no node of an invalid graph runs".into(), format!("solution {si} ran nodes"), rep);
            }
            continue;
        }
        // nodes that share a program with another node cannot be told apart in the log:
        // the ordering clause is checked on uniquely tagged nodes only
        let eff_tag = |n: usize| match &case.preds[s.pred].nodes[n].1 {
            Role::Tagged(_, t) => *t,
            _ => tag_of(s.pred, n),
        };
        let unique = |tag: W| (0..case.preds[s.pred].nodes.len()).filter(|&n| eff_tag(n) == tag).count() == 1;
        let pos: BTreeMap<usize, usize> = echoes
            .iter()
            .enumerate()
            .filter(|(_, r)| r.0 == s.contract && unique(r.1[1]))
            .filter_map(|(i, r)| tag_owner(case, r.1[1]).filter(|o| o.0 == s.pred).map(|o| (o.1, i)))
            .collect();
        for (&node, &at) in &pos {
            for p in g.parents(node) {
                if let Some(&pa) = pos.get(&p) {
                    if pa > at && !tainted_tags.contains(&tag_of(s.pred, node)) {
                        fail(prop, "exactly_once_after_parents", &feats, case, pat, format!("node {node} after parent {p}"), "ran before its parent".into(), rep);
                    }
                }
            }
        }
    }
}

/// Compare the two run modes called in sequence over a shared cache.
pub fn compare_modes(prop: &str, case: &CkCase, m: &ModesRun, rf: &RefRun, rep: &mut Report) {
    let feats = features(case, rf);
    let pat = "modes";
    if let Expect::Unspecified(_) = rf.expect {
        return;
    }
    let p1_fail = matches!(&rf.expect, Expect::Fail { pass: 1, sols } if !sols.iter().all(|s| matches!(s.1, SolExpect::Mutations)));
    let data_of = |passes: &dyn Fn(&(refcheck::SolPass, Option<refcheck::SolPass>)) -> Option<&refcheck::SolPass>| -> (u64, BTreeMap<u16, Vec<Vec<W>>>) {
        let mut gas = 0;
        let mut d = BTreeMap::new();
        for (si, p) in rf.passes.iter().enumerate() {
            if let Some(p) = passes(p) {
                gas += p.gas;
                let mut v: Vec<Vec<W>> = p.data.iter().map(|x| x.1.clone()).collect();
                v.sort();
                d.insert(si as u16, v);
            }
        }
        (gas, d)
    };
    let norm = |v: &Vec<(u16, Vec<Vec<W>>)>| -> BTreeMap<u16, Vec<Vec<W>>> {
        v.iter()
            .map(|(i, d)| {
                let mut d = d.clone();
                d.sort();
                (*i, d)
            })
            .collect()
    };
    match (&m.pass1, p1_fail) {
        (Err(CkOut::Panic { site, msg }), _) => {
            let sig = Signature::new(prop, "no_panic").site(format!("{site}: {msg}"));
            let key = sig.key();
            rep.violate(|| viol(sig, json!({"kind": "ck", "pattern": pat, "case": case}), json!("Ok or typed Err"), json!(format!("panic {site}: {msg}")), String::new()), Some(&key));
            return;
        }
        (Ok(_), true) => fail(prop, "verdict_class", &feats, case, "modes.outputs", "fails".into(), "Ok".into(), rep),
        (Err(e), false) => fail(prop, "verdict_class", &feats, case, "modes.outputs", "Ok".into(), format!("{e:?}"), rep),
        (Err(_), true) => {}
        (Ok((gas, data)), false) => {
            let (wg, wd) = data_of(&|p| Some(&p.0));
            if *gas != wg {
                fail(prop, "gas.total", &feats, case, "modes.outputs", wg.to_string(), gas.to_string(), rep);
            }
            if norm(data) != wd {
                fail(prop, "data_outputs", &feats, case, "modes.outputs", format!("{wd:?}"), format!("{:?}", norm(data)), rep);
            }
        }
    }
    // second call only meaningful when the reference has a pass 2
    let has_p2 = rf.passes.iter().all(|p| p.1.is_some()) && !rf.passes.is_empty();
    if let (Some(p2), true) = (&m.pass2, has_p2) {
        let p2_fail = matches!(&rf.expect, Expect::Fail { pass: 2, sols } if !sols.iter().all(|s| matches!(s.1, SolExpect::Mutations)));
        match (p2, p2_fail) {
            (Err(CkOut::Panic { site, msg }), _) => {
                let sig = Signature::new(prop, "no_panic").site(format!("{site}: {msg}"));
                let key = sig.key();
                rep.violate(|| viol(sig, json!({"kind": "ck", "pattern": pat, "case": case}), json!("Ok or typed Err"), json!(format!("panic {site}: {msg}")), String::new()), Some(&key));
            }
            (Ok(_), true) => fail(prop, "verdict_class", &feats, case, "modes.checks", "fails".into(), "Ok".into(), rep),
            (Err(e), false) => fail(prop, "verdict_class", &feats, case, "modes.checks", "Ok".into(), format!("{e:?}"), rep),
            (Err(_), true) => {}
            (Ok((gas, data)), false) => {
                let (wg, wd) = data_of(&|p| p.1.as_ref());
                if *gas != wg {
                    fail(prop, "gas.total", &feats, case, "modes.checks", wg.to_string(), gas.to_string(), rep);
                }
                if norm(data) != wd {
                    fail(prop, "data_outputs", &feats, case, "modes.checks", format!("{wd:?}"), format!("{:?}", norm(data)), rep);
                }
            }
        }
        // every node exactly once overall across the two calls
        let mut expected = multiset(&rf.log1);
        for (k, v) in multiset(&rf.log2) {
            *expected.entry(k).or_default() += v;
        }
        if matches!(rf.expect, Expect::Ok { .. }) {
            let mut got = multiset(&m.log1);
            for (k, v) in multiset(&m.log2) {
                *got.entry(k).or_default() += v;
            }
            if got != expected {
                fail(prop, "exactly_once_after_parents", &feats, case, pat, format!("{expected:?}"), format!("{got:?}"), rep);
            } else if multiset(&m.log1) != multiset(&rf.log1) {
                fail(prop, "pass_attribution", &feats, case, pat, format!("outputs call runs {:?}", multiset(&rf.log1)), format!("{:?}", multiset(&m.log1)), rep);
            }
        }
    }
}

pub fn run_case(prop: &str, case: &CkCase, patterns: (bool, bool), rep: &mut Report) {
    let b = build(case);
    let rf = refcheck::reference(case, &b);
    let ran: usize = rf.passes.iter().map(|p| p.0.ran.len() + p.1.as_ref().map(|x| x.ran.len()).unwrap_or(0)).sum();
    let mut obs = 0u64;
    if patterns.0 {
        let real = run_two_pass(case, &b);
        rep.transitions += real.log.iter().filter(|r| is_echo(r)).count() as u64;
        rep.traces_validated_against_impl += 1;
        obs = hash_of(&real.out);
        compare_two_pass(prop, case, &real, &rf, rep);
    }
    if patterns.1 {
        let overlay = rf.overlay.clone();
        let m = run_modes(case, &b, &|_| overlay.clone());
        rep.transitions += m.log1.iter().chain(m.log2.iter()).filter(|r| is_echo(r)).count() as u64;
        rep.traces_validated_against_impl += 1;
        compare_modes(prop, case, &m, &rf, rep);
    }
    rep.eval(if ran > 0 { Some(hash_of(case)) } else { None }, obs);
}

// ---------------------------------------------------------------------------------------------
// Enumeration

/// All encodings with exactly n nodes and e edges.
pub fn encodings(n: usize, e: usize, mut f: impl FnMut(&[u16], &[u16])) {
    let starts: Vec<u16> = (0..=e as u16 + 1).chain([u16::MAX]).collect();
    let targets: Vec<u16> = (0..=n as u16).collect();
    let mut si = vec![0usize; n];
    loop {
        let ns: Vec<u16> = si.iter().map(|&i| starts[i]).collect();
        let mut ei = vec![0usize; e];
        loop {
            let es: Vec<u16> = ei.iter().map(|&i| targets[i]).collect();
            f(&ns, &es);
            let mut k = 0;
            while k < e {
                ei[k] += 1;
                if ei[k] < targets.len() {
                    break;
                }
                ei[k] = 0;
                k += 1;
            }
            if k == e {
                break;
            }
        }
        let mut k = 0;
        while k < n {
            si[k] += 1;
            if si[k] < starts.len() {
                break;
            }
            si[k] = 0;
            k += 1;
        }
        if k == n {
            break;
        }
    }
}

/// Role assignments for one encoding: the base assignment plus single-node variations.
pub fn role_assignments(starts: &[u16], edges: &[u16]) -> Vec<Vec<Role>> {
    let n = starts.len();
    let leaf: Vec<bool> = (0..n).map(|i| edges_of(starts, edges, i).map(|e| e.is_empty()).unwrap_or(true)).collect();
    let base: Vec<Role> = leaf.iter().map(|&l| if l { Role::LeafDump } else { Role::Tracer }).collect();
    let mut out = vec![base.clone()];
    // nodes sharing one program: all tracers one program, all dump leaves another
    out.push(base.iter().map(|r| Role::Tagged(Box::new(r.clone()), if *r == Role::Tracer { 999 } else { 998 })).collect());
    // two nodes sharing one post-state-reading program
    for i in 0..n {
        for j in i + 1..n {
            if leaf[i] == leaf[j] {
                let shared = if leaf[i] { Role::LeafTruePost } else { Role::TracerPost };
                let mut a = base.clone();
                a[i] = Role::Tagged(Box::new(shared.clone()), 997);
                a[j] = Role::Tagged(Box::new(shared), 997);
                out.push(a);
            }
        }
    }
    for i in 0..n {
        let specials: Vec<Role> = if leaf[i] {
            vec![Role::LeafDumpPost, Role::LeafTrue, Role::LeafTruePost, Role::LeafFalse0, Role::LeafEmpty, Role::LeafOneOne, Role::Fails]
        } else {
            vec![Role::TracerPost, Role::Fails, Role::TracerFakePost]
        };
        for s in specials {
            let mut a = base.clone();
            a[i] = s;
            out.push(a);
        }
    }
    out
}

fn fixed_second_pred() -> PredCase {
    // 0 -> 1, tracer then dump
    PredCase { nodes: vec![(0, Role::Tracer), (u16::MAX, Role::LeafDump)], edges: vec![1] }
}

pub fn cases_for(starts: &[u16], edges: &[u16], thorough: bool, mut f: impl FnMut(CkCase)) {
    for roles in role_assignments(starts, edges) {
        let p = PredCase { nodes: starts.iter().cloned().zip(roles).collect(), edges: edges.to_vec() };
        let sets: Vec<(Vec<PredCase>, Vec<SolCase>)> = {
            let s = |pred, contract| SolCase { pred, contract, data: vec![], mutations: vec![] };
            let mut v = vec![
                (vec![p.clone()], vec![s(0, 0xC1)]),
                (vec![p.clone()], vec![s(0, 0xC1), s(0, 0xC2)]),
                (vec![p.clone(), fixed_second_pred()], vec![s(0, 0xC1), s(1, 0xC2)]),
            ];
            if thorough {
                v.push((vec![p.clone(), fixed_second_pred()], vec![s(1, 0xC3), s(0, 0xC1), s(0, 0xC2)]));
            }
            v
        };
        for (preds, sols) in sets {
            for collect_all in [false, true] {
                f(CkCase { preds: preds.clone(), sols: sols.clone(), pre: vec![], strict: false, short: false, collect_all });
            }
        }
    }
}

fn run(cfg: &RunCfg, rep: &mut Report) {
    let (nmax, emax) = cfg.tier.pick((3, 3), (4, 4));
    rep.bound_completed = format!("all encodings with n <= {nmax} nodes, E <= {emax} edges");
    let mut idx = 0u64;
    for n in 1..=nmax {
        for e in 0..=emax {
            encodings(n, e, |starts, edges| {
                idx += 1;
                if !cfg.mine(idx) {
                    return;
                }
                wal::tick();
                let mut first = true;
                cases_for(starts, edges, cfg.tier == Tier::Thorough, |case| {
                    if first && idx % 997 == 0 {
                        rep.sample(|| json!({"nodes(edge_start)": starts, "edges": edges, "example_case": case}));
                    }
                    first = false;
                    run_case("C01", &case, (true, true), rep);
                });
            });
        }
    }
    rep.states = rep.nontrivial_evals; // the enumeration never repeats a case
}

fn replay(case: &Value) -> Result<bool, String> {
    let c: CkCase = serde_json::from_value(case["case"].clone()).map_err(|e| e.to_string())?;
    let mut r1 = Report::new();
    run_case("C01", &c, (true, true), &mut r1);
    let mut r2 = Report::new();
    run_case("C01", &c, (true, true), &mut r2);
    if r1.violations.keys().collect::<Vec<_>>() != r2.violations.keys().collect::<Vec<_>>() {
        return Err("nondeterministic replay".into());
    }
    Ok(!r1.violations.is_empty())
}
