//! Corpus of C02: checker inputs with >= 2 solutions and levels with >= 2 nodes (some node
//! programs forking compute children), and VM programs whose compute children differ by index.
//! Pure data, shared with the real-rayon conformance binary.
use crate::ckh::*;
use crate::refvm::{RVm, W};
use essential_asm::{self as asm, Op};

fn sol(pred: usize, contract: u8) -> SolCase {
    SolCase { pred, contract, data: vec![], mutations: vec![] }
}

pub fn checker_inputs() -> Vec<(String, CkCase)> {
    let l = u16::MAX;
    let mut v: Vec<(String, CkCase)> = vec![];
    let mut add = |name: &str, preds: Vec<PredCase>, sols: Vec<SolCase>| {
        for collect_all in [false, true] {
            v.push((format!("{name}/collect_all={collect_all}"), CkCase { preds: preds.clone(), sols: sols.clone(), pre: vec![(0xC1, vec![0], vec![5])], strict: false, short: false, collect_all }));
        }
    };
    // diamond 0 -> {1,2} -> 3
    let diamond = |a: Role, b: Role, leaf: Role| PredCase { nodes: vec![(0, Role::Tracer), (2, a), (3, b), (l, leaf)], edges: vec![1, 2, 3, 3] };
    add("diamond x2", vec![diamond(Role::Tracer, Role::Tracer, Role::LeafDump)], vec![sol(0, 0xC1), sol(0, 0xC2)]);
    add("diamond compute x2", vec![diamond(Role::TracerCompute(3), Role::TracerCompute(2), Role::LeafDump)], vec![sol(0, 0xC1), sol(0, 0xC2)]);
    add("diamond two failing in one level", vec![diamond(Role::Fails, Role::Fails, Role::LeafDump)], vec![sol(0, 0xC1), sol(0, 0xC2)]);
    add("diamond post", vec![diamond(Role::TracerPost, Role::Tracer, Role::LeafDump)], vec![sol(0, 0xC1), sol(0, 0xC2), sol(0, 0xC3)]);
    // two roots -> leaves, unsatisfied in several
    let fan = PredCase { nodes: vec![(0, Role::Tracer), (2, Role::Tracer), (l, Role::LeafFalse0), (l, Role::LeafOneOne), (l, Role::LeafDump)], edges: vec![2, 4, 3, 4] };
    add("fan unsatisfied", vec![fan.clone()], vec![sol(0, 0xC1), sol(0, 0xC2)]);
    // wide level: 4 leaves producing data outputs (order of outputs matters)
    let wide = PredCase { nodes: vec![(0, Role::Tracer), (l, Role::LeafDump), (l, Role::LeafDump), (l, Role::LeafDump), (l, Role::LeafDump)], edges: vec![1, 2, 3, 4] };
    add("wide outputs", vec![wide.clone()], vec![sol(0, 0xC1), sol(0, 0xC2)]);
    add("mixed predicates", vec![wide, fan, diamond(Role::TracerCompute(2), Role::Tracer, Role::LeafDumpPost)], vec![sol(2, 0xC3), sol(0, 0xC1), sol(1, 0xC2)]);
    // two post-state readers of one start key with different counts in one level, and in two solutions
    let rd = |count| Role::Probe { op: 2, ext: 0xC1, key: vec![0], count };
    let two = PredCase { nodes: vec![(l, rd(1)), (l, rd(2)), (l, rd(3))], edges: vec![] };
    let one_a = PredCase { nodes: vec![(l, rd(2))], edges: vec![] };
    let one_b = PredCase { nodes: vec![(l, rd(1))], edges: vec![] };
    add("readers same key different counts", vec![two.clone()], vec![sol(0, 0xC1), sol(0, 0xC1)]);
    add("readers in two solutions", vec![one_a, one_b, two], vec![sol(0, 0xC1), sol(1, 0xC1), sol(2, 0xC1)]);
    // failing solutions among passing ones (failing indices must be stable)
    let bad = PredCase { nodes: vec![(l, Role::LeafFalse0), (l, Role::Fails)], edges: vec![] };
    let good = PredCase { nodes: vec![(l, Role::LeafTrue), (l, Role::LeafDump)], edges: vec![] };
    add("good bad good bad", vec![good, bad], vec![sol(0, 0xC1), sol(1, 0xC2), sol(0, 0xC3), sol(1, 0xC4)]);
    // solutions of one contract COMPUTE different values for one key (which solution is named as
    // the one in conflict must not depend on which task gets there first); the first solution
    // computes several other mutations before the contested one, the others only that one
    let raw = |muts: &[(W, W)]| {
        let mut ws = vec![muts.len() as W];
        for (k, val) in muts {
            ws.extend([1, *k, 1, *val]);
        }
        PredCase { nodes: vec![(l, Role::LeafRaw(ws))], edges: vec![] }
    };
    add("conflicting computed mutations", vec![raw(&[(1, 1), (2, 2), (3, 3), (9, 5)]), raw(&[(9, 6)]), raw(&[(9, 7)])], vec![sol(0, 0xC1), sol(1, 0xC1), sol(2, 0xC1)]);
    add("conflicting computed mutations, agreeing pair first", vec![raw(&[(9, 5)]), raw(&[(9, 5), (8, 1)]), raw(&[(8, 2)])], vec![sol(0, 0xC1), sol(1, 0xC1), sol(2, 0xC1), sol(2, 0xC2)]);
    v
}

/// VM programs with compute children that differ by index.
pub fn vm_programs() -> Vec<(String, Vec<Op>, RVm, &'static str)> {
    use asm::{Compute as C, Memory as M, Pred, Stack as S, TotalControlFlow as T};
    let push = |c| Op::Stack(S::Push(c));
    let mut v = vec![];
    for breadth in [2i64, 3, 4] {
        // child i allocates i+1 words, stores i
        v.push((
            format!("alloc-by-index/{breadth}"),
            vec![push(breadth), Op::Compute(C::Compute), Op::Stack(S::Dup), push(1), Op::Alu(asm::Alu::Add), Op::Memory(M::Alloc), Op::Memory(M::Store), Op::Compute(C::ComputeEnd), push(9)],
            RVm::default(),
            "basic",
        ));
        // children end at different pcs: child 0 halts early
        v.push((
            format!("different-ends/{breadth}"),
            vec![push(breadth), Op::Compute(C::Compute), Op::Stack(S::Dup), push(0), Op::Pred(Pred::Eq), Op::TotalControlFlow(T::HaltIf), Op::Stack(S::Dup), Op::Memory(M::Alloc), Op::Compute(C::ComputeEnd), push(42)],
            RVm::default(),
            "basic",
        ));
        // two failing children (index 1 and the last): which error is carried is masked
        v.push((
            format!("two-failing/{breadth}"),
            vec![push(breadth), Op::Compute(C::Compute), Op::Stack(S::Dup), push(0), Op::Pred(Pred::Gt), Op::TotalControlFlow(T::PanicIf), Op::Compute(C::ComputeEnd)],
            RVm::default(),
            "basic",
        ));
        // children consume words the parent left below the index (base + index), leave the stack as high
        v.push((
            format!("consume-parent-words/{breadth}"),
            vec![push(1000), push(7), push(breadth), Op::Compute(C::Compute), Op::Alu(asm::Alu::Add), Op::Alu(asm::Alu::Add), Op::Stack(S::Dup), push(1), Op::Memory(M::Alloc), Op::Memory(M::Store), Op::Compute(C::ComputeEnd), push(9)],
            RVm::default(),
            "basic",
        ));
        // children exit from inside their own repeat loop (early exit), later children read the counter
        v.push((
            format!("early-loop-exit/{breadth}"),
            vec![
                push(2), push(1), Op::Stack(S::Repeat),
                push(breadth), Op::Compute(C::Compute),
                Op::Access(asm::Access::RepeatCounter), push(1), Op::Memory(M::Alloc), Op::Memory(M::Store),
                push(3), push(1), Op::Stack(S::Repeat), Op::Compute(C::ComputeEnd), Op::Stack(S::RepeatEnd),
            ],
            RVm::default(),
            "basic",
        ));
        // children inside an open repeat loop using the counter
        v.push((
            format!("in-loop/{breadth}"),
            vec![push(2), push(1), Op::Stack(S::Repeat), push(breadth), Op::Compute(C::Compute), Op::Access(asm::Access::RepeatCounter), push(1), Op::Alu(asm::Alu::Add), Op::Memory(M::Alloc), Op::Compute(C::ComputeEnd), Op::Stack(S::RepeatEnd)],
            RVm::default(),
            "basic",
        ));
        // children look up predicate-data hashes through the VM's shared lazy cache: child 0
        // asks for the LAST solution's hash, the others for the first one's; all exist
        {
            let env = crate::util::ProgEnv::named("two-solutions", crate::util::Cost::Const(1), 1);
            let h = |i: usize| crate::refvm::words4(crate::refvm::sha256(&crate::refvm::predicate_exists_preimage(&env.solutions[i])));
            let mut ops: Vec<Op> = h(0).iter().chain(h(1).iter()).map(|w| push(*w)).collect();
            ops.extend([
                push(breadth), Op::Compute(C::Compute),
                push(0), Op::Pred(Pred::Eq), push(4), Op::Stack(S::Swap), Op::Stack(S::SelectRange),
                Op::Access(asm::Access::PredicateExists),
                push(1), Op::Memory(M::Alloc), Op::Memory(M::Store),
                Op::Compute(C::ComputeEnd),
            ]);
            v.push((format!("predicate-exists/{breadth}"), ops, RVm::default(), "two-solutions"));
        }
    }
    v
}
