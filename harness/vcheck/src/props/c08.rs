//! C08 — stack, predicate, ALU and memory operations compute their documented results.
use super::vmgraph::*;
use crate::fw::*;
use crate::refvm::RVm;
use crate::util::*;
use crate::PropSpec;
use essential_asm::Op;
use serde_json::Value;
use std::sync::atomic::AtomicU64;

pub fn spec() -> PropSpec {
    PropSpec {
        id: "C08",
        level: "model_checking",
        rule: "stateright BFS over VM configurations: actions = every Stack (minus Repeat/RepeatEnd) / Pred / Alu / Memory / ParentMemory op plus Push c for c in the boundary alphabet (quick: 9 values, thorough: 21); initial states: empty, mixed, set/range encodings, compute-child contexts, stack at 4095/4096 words, memory at 10239/10240 words; transition = real sync::step_op, compared on the complete configuration with the reference single-step function. non-trivial = transition on which the real op succeeded; distinct by (state, op)",
        assumptions: &[
            "Mod(MIN,-1) accepts either outcome (masked); error variants are not compared, only error-ness",
            "EqSet uses set semantics (duplicates collapse); remainder has the sign of the dividend",
        ],
        run,
        replay,
        describe_wal: None,
        run_wal: None,
        both_profiles: false,
        workers: 0,
    }
}

pub fn data_ops() -> Vec<Op> {
    crate::refvm::all_ops()
        .into_iter()
        .filter(|o| match o {
            Op::Stack(essential_asm::Stack::Repeat) | Op::Stack(essential_asm::Stack::RepeatEnd) | Op::Stack(essential_asm::Stack::Push(_)) => false,
            Op::Stack(_) | Op::Pred(_) | Op::Alu(_) | Op::Memory(_) | Op::ParentMemory(_) => true,
            _ => false,
        })
        .collect()
}

fn model(words: &[i64], ds: u8, db: u8, sink: Sink) -> VmGraph {
    let mut actions = data_ops();
    actions.extend(pushes(words));
    VmGraph {
        prop: "C08",
        actions,
        inits: base_inits(ds, db),
        env: ProgEnv::basic(Cost::Const(1), 1_000_000),
        env_label: "basic".into(),
        cont: continuation(),
        compare_ref: true,
        check_bounds: true,
        sink,
        transitions: AtomicU64::new(0),
        err_transitions: AtomicU64::new(0),
    }
}

fn run(cfg: &RunCfg, rep: &mut Report) {
    // (word alphabet, depth from small initial states, depth from at-limit states)
    let plans: Vec<(&[i64], u8, u8)> = match cfg.tier {
        Tier::Quick => vec![(WORDS_QUICK, 4, 2)],
        Tier::Thorough => vec![(WORDS_FULL, 4, 3), (WORDS_QUICK, 5, 3)],
    };
    rep.bound_completed = plans
        .iter()
        .map(|(w, ds, db)| format!("{} push constants: depth {ds} from small / {db} from at-limit initial states", w.len()))
        .collect::<Vec<_>>()
        .join("; ");
    for (words, ds, db) in plans {
        let mut m = model(words, ds, db, Sink::new());
        // initial states are independent searches: shard them over the worker processes
        m.inits = m.inits.into_iter().enumerate().filter(|(i, _)| cfg.mine(*i as u64)).map(|(_, x)| x).collect();
        if m.inits.is_empty() {
            continue;
        }
        search(m, if cfg.tier == Tier::Thorough { 8 } else { 4 }, rep, 2);
    }
}

pub fn replay_step(prop: &'static str, case: &Value, m: VmGraph) -> Result<bool, String> {
    let st: RvmSer = serde_json::from_value(case["state"].clone()).map_err(|e| e.to_string())?;
    let op = ops_from_hex(case["op_hex"].as_str().ok_or("op_hex")?)?.into_iter().next().ok_or("no op")?;
    let init_label = case["init"].as_str().unwrap_or("");
    let init = m.inits.iter().position(|i| i.0 == init_label).unwrap_or(0) as u8;
    let vs = VState { depth: 0, init, vm: RVm::from(&st) };
    install_hook();
    let mut r1 = Report::new();
    m.transition(&vs, &op, &mut r1);
    let mut r2 = Report::new();
    m.transition(&vs, &op, &mut r2);
    if r1.violations.keys().collect::<Vec<_>>() != r2.violations.keys().collect::<Vec<_>>() {
        return Err("nondeterministic replay".into());
    }
    let _ = prop;
    Ok(!r1.violations.is_empty())
}

fn replay(case: &Value) -> Result<bool, String> {
    replay_step("C08", case, model(WORDS_FULL, 4, 3, Sink::new()))
}
