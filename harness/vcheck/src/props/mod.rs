//! One module per property.
use crate::PropSpec;

pub mod c15;

pub fn all() -> Vec<PropSpec> {
    vec![c15::spec()]
}
