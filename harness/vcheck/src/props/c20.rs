//! C20 — the lock serialises closures: no lost updates under contention.
//! The exploration itself lives in /verif/lockmc (loom + shuttle around the token-rewritten
//! real lock source); this module runs it and turns its report into evidence.
use crate::fw::*;
use crate::PropSpec;
use serde_json::{json, Value};

pub fn spec() -> PropSpec {
    PropSpec {
        id: "C20",
        level: "model_checking",
        rule: "the repository's crates/lock/src/lib.rs, token-rewritten at build time (std::sync -> loom::sync / shuttle::sync; build fails with 'binding lost' if any other shared-state primitive remains), explored exhaustively: loom (DPOR) with 2..4 threads x 1..2 apply calls x {one lock, two locks used one after the other, two locks split over threads} x critical-section durations 0/1/2/mixed, preemption bound 2 (quick) / unbounded for <= 3 threads and bound 3 for 4 threads (thorough); shuttle runtime with an own preemption-bounded DFS scheduler for 2..16 threads. The guarded value is a pair of tool atomics updated by a split load/store (plus a loom UnsafeCell variant), so a lost or torn update is an explorable event. Oracles in every execution: ticket multiset = {0..N-1} and final value N on both fields, every apply returns its closure's value, no deadlock, no data race. states = executions explored (each a complete interleaving), transitions = the same; non-trivial = scenario with >= 2 distinct outcomes; distinct by scenario",
        assumptions: &[
            "loom's and shuttle's Mutex model std::sync::Mutex; poisoning after a panicking closure is documented behaviour",
            "scenarios that hit their wall/execution cap are reported as caps with exhaustive=false; every capped shape has a complete bounded companion",
        ],
        run,
        replay,
        describe_wal: None,
        run_wal: None,
        both_profiles: false,
        workers: 1,
    }
}

fn exe() -> std::path::PathBuf {
    verif_root().join("lockmc/target/release/lockmc")
}

fn run(cfg: &RunCfg, rep: &mut Report) {
    let out = verif_root().join("work").join(format!("lockmc.{}.json", cfg.tier.name()));
    let rdir = verif_root().join("replays").join("C20");
    let _ = std::fs::create_dir_all(&rdir);
    let _ = std::fs::remove_file(&out);
    // lockmc runs its own child processes; keep the watchdog quiet meanwhile
    let stop = std::sync::Arc::new(std::sync::atomic::AtomicBool::new(false));
    let s2 = stop.clone();
    let ticker = std::thread::spawn(move || {
        while !s2.load(std::sync::atomic::Ordering::Relaxed) {
            wal::tick();
            std::thread::sleep(std::time::Duration::from_secs(1));
        }
    });
    let st = std::process::Command::new(exe())
        .args(["--tier", cfg.tier.name(), "--out"])
        .arg(&out)
        .arg("--replay-dir")
        .arg(&rdir)
        .stdout(std::process::Stdio::null())
        .status();
    stop.store(true, std::sync::atomic::Ordering::Relaxed);
    let _ = ticker.join();
    let code = match st {
        Ok(s) => s.code().unwrap_or(2),
        Err(e) => {
            rep.machinery_errors.push(format!("cannot run lockmc: {e}"));
            return;
        }
    };
    let Ok(body) = std::fs::read(&out) else {
        rep.machinery_errors.push(format!("lockmc left no report (exit {code})"));
        return;
    };
    let Ok(v) = serde_json::from_slice::<Value>(&body) else {
        rep.machinery_errors.push("lockmc report is not JSON".into());
        return;
    };
    if code == 2 || v["machinery_failures"].as_u64().unwrap_or(0) > 0 {
        rep.machinery_errors.push(format!("lockmc machinery failure (exit {code}); see {}", out.display()));
    }
    let mut capped = 0;
    for sc in v["scenarios"].as_array().cloned().unwrap_or_default() {
        let ex = sc["executions"].as_u64().unwrap_or(0);
        let name = sc["name"].as_str().unwrap_or("?").to_string();
        rep.states += ex;
        rep.transitions += ex;
        rep.traces_validated_against_impl += ex;
        let distinct = sc["distinct_outcomes"].as_u64().unwrap_or(0);
        rep.eval(if distinct >= 2 { Some(hash_of(&name)) } else { None }, hash_of(&(name.clone(), distinct)));
        if !sc["exhaustive"].as_bool().unwrap_or(false) {
            capped += 1;
        }
        if !sc["violation"].is_null() {
            let clause = sc["violation"]["clause"].as_str().unwrap_or("panic").to_string();
            let sig = Signature::new("C20", &clause).feat(format!("tool:{}", sc["tool"].as_str().unwrap_or("?")));
            let key = sig.key();
            let replay_file = rdir.join(format!("{name}.json"));
            rep.violate(
                || viol(sig, json!({"kind": "lockmc", "scenario": sc, "lockmc_replay": replay_file}), json!("serialised closures: tickets {0..N-1}, final N, no deadlock"), sc["violation"]["detail"].clone(), String::new()),
                Some(&key),
            );
        }
        if rep.samples.len() < 5 && distinct >= 2 {
            rep.samples.push(json!({"scenario": name, "executions": ex, "distinct_outcomes": distinct, "bound": sc["bound"], "exhaustive": sc["exhaustive"]}));
        }
    }
    if capped > 0 {
        rep.cap(format!("{capped} scenario(s) hit their execution/wall cap (complete below the cap; see scenarios_capped)"));
        rep.add_extra("scenarios_capped", capped);
    }
    rep.add_extra("scenarios", v["scenarios"].as_array().map(|a| a.len()).unwrap_or(0) as u64);
    rep.extra.insert("lock_src".into(), v["lock_src"].clone());
    rep.extra.insert("lock_src_fnv64".into(), v["lock_src_fnv64"].clone());
    rep.extra.insert("std_sync_rewrites".into(), v["std_sync_rewrites"].clone());
    if let Some(s) = v["samples"].as_array() {
        for x in s.iter().take(2) {
            rep.samples.push(json!({"outcome": x}));
        }
    }
    rep.bound_completed = format!("{} scenarios; see per-scenario bounds in work/lockmc.{}.json", v["scenarios"].as_array().map(|a| a.len()).unwrap_or(0), cfg.tier.name());
}

fn replay(case: &Value) -> Result<bool, String> {
    let f = case["lockmc_replay"].as_str().ok_or("lockmc_replay")?;
    let st = std::process::Command::new(exe()).args(["--replay", f]).status().map_err(|e| e.to_string())?;
    match st.code() {
        Some(0) => Ok(false),
        Some(1) => Ok(true),
        other => Err(format!("lockmc --replay exited with {other:?}")),
    }
}
