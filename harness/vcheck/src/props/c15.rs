//! C15 — effect analysis reports exactly the effects a program contains.
use crate::fw::*;
use crate::util::{ops_from_hex, ops_hex};
use crate::PropSpec;
use essential_asm::effects::{analyze, bytes_contains_any, Effects};
use essential_asm::Op;
use serde_json::{json, Value};

pub fn spec() -> PropSpec {
    PropSpec {
        id: "C15",
        level: "exploration",
        rule: "all programs of <=2 (quick) / <=3 (thorough) symbols over the 61 non-Push ops plus Push with 58 immediates (byte k = each effect opcode or 0x01, others 0; 0; -1), each against all 64 effect subsets; plus all sequences of length 4..=7 (thorough 8; quick thins the longest length to every 3rd) over the six effect ops, Pop, Halt and Push 1 (analyze exact; byte scan against the six singleton subsets and the full set); non-trivial = program contains at least one effect op or an immediate containing an effect opcode byte; distinct by bytecode",
        assumptions: &["the op -> effect table is derived from the op names (KeyRange, KeyRangeExtern, PostKeyRange, PostKeyRangeExtern, ThisAddress, ThisContractAddress)"],
        run,
        replay,
        describe_wal: None,
        run_wal: None,
        both_profiles: false,
        workers: 0,
    }
}

fn effect_of(op: &Op) -> Effects {
    match format!("{op:?}").as_str() {
        "StateRead(KeyRange)" => Effects::KeyRange,
        "StateRead(KeyRangeExtern)" => Effects::KeyRangeExtern,
        "StateRead(PostKeyRange)" => Effects::PostKeyRange,
        "StateRead(PostKeyRangeExtern)" => Effects::PostKeyRangeExtern,
        "Access(ThisAddress)" => Effects::ThisAddress,
        "Access(ThisContractAddress)" => Effects::ThisContractAddress,
        _ => Effects::empty(),
    }
}

fn alphabet() -> Vec<(Op, bool)> {
    // (op, interesting): interesting = effect op or tricky immediate
    let mut v: Vec<(Op, bool)> = vec![];
    let effect_bytes: Vec<u8> = crate::refvm::all_ops()
        .iter()
        .filter(|o| !effect_of(o).is_empty())
        .map(|o| essential_asm::to_bytes([o.clone()]).next().unwrap())
        .collect();
    for op in crate::refvm::all_ops() {
        if let Op::Stack(essential_asm::Stack::Push(_)) = op {
            let mut tricky = effect_bytes.clone();
            tricky.push(0x01);
            for b in tricky {
                for k in 0..8 {
                    let mut bytes = [0u8; 8];
                    bytes[k] = b;
                    v.push((Op::Stack(essential_asm::Stack::Push(i64::from_be_bytes(bytes))), true));
                }
            }
            v.push((Op::Stack(essential_asm::Stack::Push(0)), false));
            v.push((Op::Stack(essential_asm::Stack::Push(-1)), false));
        } else {
            let e = !effect_of(&op).is_empty();
            v.push((op, e));
        }
    }
    v
}

fn check_one(ops: &[Op], rep: &mut Report, interesting: bool) {
    let bytes: Vec<u8> = essential_asm::to_bytes(ops.iter().cloned()).collect();
    let mut want = Effects::empty();
    for o in ops {
        want |= effect_of(o);
    }
    let got = analyze(ops);
    let mut obs = got.bits() as u64;
    if got != want {
        let missing = want.difference(got);
        let extra = got.difference(want);
        let sig = Signature::new("C15", "effects.exact")
            .feat(format!("analyze missing={:?} extra={:?}", missing, extra));
        rep.violate(
            || {
                viol(
                    sig.clone(),
                    json!({"kind": "analyze", "ops_hex": ops_hex(ops), "ops": crate::util::ops_json(ops)}),
                    json!(format!("{want:?}")),
                    json!(format!("{got:?}")),
                    format!("#[test]\nfn replay() {{\n    use essential_asm::{{effects::*, *}};\n    let ops: Vec<Op> = from_bytes(hex::decode(\"{}\").unwrap().into_iter()).collect::<Result<_,_>>().unwrap();\n    assert_eq!(format!(\"{{:?}}\", analyze(&ops)), {:?});\n}}\n", ops_hex(ops), format!("{want:?}")),
                )
            },
            Some(&sig.key()),
        );
    }
    for e in 0..64u8 {
        let set = Effects::from_bits_truncate(e);
        let w = want.intersects(set);
        let g = bytes_contains_any(&bytes, set);
        obs = obs.wrapping_mul(31).wrapping_add(g as u64);
        if w != g {
            let sig = Signature::new("C15", "bytes_contains_any.exact")
                .feat(if g { "false_positive" } else { "false_negative" });
            rep.violate(
                || {
                    viol(
                        sig.clone(),
                        json!({"kind": "bytes", "ops_hex": ops_hex(ops), "effects_bits": e, "ops": crate::util::ops_json(ops)}),
                        json!(w),
                        json!(g),
                        format!("#[test]\nfn replay() {{\n    use essential_asm::effects::*;\n    let bytes = hex::decode(\"{}\").unwrap();\n    assert_eq!(bytes_contains_any(&bytes, Effects::from_bits_truncate({e})), {w});\n}}\n", ops_hex(ops)),
                    )
                },
                Some(&sig.key()),
            );
        }
    }
    rep.eval(if interesting { Some(hash_of(&bytes)) } else { None }, obs);
}

fn run(cfg: &RunCfg, rep: &mut Report) {
    let alpha = alphabet();
    let maxlen = cfg.tier.pick(2, 3);
    rep.bound_completed = format!("programs of length <= {maxlen} over {} symbols x 64 effect subsets", alpha.len());
    if cfg.mine(0) {
        check_one(&[], rep, false);
    }
    for (i, (a, ia)) in alpha.iter().enumerate() {
        if !cfg.mine(i as u64 + 1) {
            continue;
        }
        check_one(&[a.clone()], rep, *ia);
        for (b, ib) in &alpha {
            let p2 = [a.clone(), b.clone()];
            check_one(&p2, rep, *ia || *ib);
            if maxlen >= 3 {
                for (c, ic) in &alpha {
                    check_one(&[a.clone(), b.clone(), c.clone()], rep, *ia || *ib || *ic);
                }
            }
        }
        rep.sample(|| json!({"program": crate::util::ops_json(&[a.clone(), alpha[(i * 7) % alpha.len()].0.clone()]), "effect_subsets": 64}));
    }
    long_sequences(cfg, rep);
}

/// Long sequences over the six effect ops plus one neutral op: `analyze` must not lose an
/// effect however many effectful ops precede it; the byte scan is checked against the six
/// singleton subsets and the full set.
fn long_sequences(cfg: &RunCfg, rep: &mut Report) {
    let mut alpha: Vec<Op> = crate::refvm::all_ops().into_iter().filter(|o| !effect_of(o).is_empty()).collect();
    alpha.push(Op::Stack(essential_asm::Stack::Pop));
    alpha.push(Op::TotalControlFlow(essential_asm::TotalControlFlow::Halt));
    alpha.push(Op::Stack(essential_asm::Stack::Push(1)));
    let n = alpha.len();
    let maxlen = cfg.tier.pick(7, 8);
    let subsets: Vec<Effects> = (0..6).map(|i| Effects::from_bits_truncate(1 << i)).chain([Effects::all()]).collect();
    for len in 4..=maxlen {
        let total = (n as u64).pow(len as u32);
        // quick tier: every 3rd sequence of the longest length
        let stride = if len == maxlen && cfg.tier == Tier::Quick { 3 } else { 1 };
        let mut k = 0u64;
        while k < total {
            if cfg.mine(k / 4096) {
                let mut x = k;
                let ops: Vec<Op> = (0..len).map(|_| { let o = alpha[(x % n as u64) as usize].clone(); x /= n as u64; o }).collect();
                let mut want = Effects::empty();
                for o in &ops {
                    want |= effect_of(o);
                }
                let got = analyze(&ops);
                let bytes: Vec<u8> = essential_asm::to_bytes(ops.iter().cloned()).collect();
                let mut bad = got != want;
                for s in &subsets {
                    bad |= bytes_contains_any(&bytes, *s) != want.intersects(*s);
                }
                if bad {
                    // full report through the common path (all 64 subsets)
                    check_one(&ops, rep, true);
                } else {
                    rep.eval(Some(hash_of(&bytes)), got.bits() as u64);
                }
            }
            k += stride;
        }
    }
    rep.sample(|| json!({"long_sequence_alphabet": alpha.iter().map(|o| format!("{o:?}")).collect::<Vec<_>>(), "max_length": maxlen}));
}

fn replay(case: &Value) -> Result<bool, String> {
    let ops = ops_from_hex(case["ops_hex"].as_str().ok_or("ops_hex")?)?;
    let mut rep = Report::new();
    check_one(&ops, &mut rep, true);
    Ok(!rep.violations.is_empty())
}
