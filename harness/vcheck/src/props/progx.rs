//! Shared engine: lazy enumeration of programs ("hole programs") through the real exec loop.
//!
//! A program of fixed length L starts as L holes. Executing it with the real VM either
//! finishes or reaches a hole (surfacing as a decode error at that position); the explorer
//! then chooses the op for that hole and re-executes from scratch. Only positions some
//! execution reaches are branched on, so all programs of length <= L are covered up to
//! dead-code equivalence, with the real fetch/step/pc-update code in the loop.

use crate::fw::*;
use crate::refvm::RVm;
use crate::util::*;
use crate::xplore::{self, Bounds, Class, Ctx};
use essential_asm::Op;
use serde_json::{json, Value};
use std::sync::Arc;

pub struct Px<'a> {
    pub prop: &'static str,
    pub alphabet: &'a [Op],
    pub len: usize,
    pub init: &'a RVm,
    pub env: &'a ProgEnv,
    /// label of this configuration (initial state / cost / limit) for reports
    pub label: String,
    /// Mask runs in which a non-child VM meets ComputeEnd.
    pub mask_stray_compute_end: bool,
}

pub struct PxRun {
    pub ops: Vec<Option<Op>>,
    pub real: RealOut,
    pub rf: RefOut,
    pub real_execs: u32,
}

impl PxRun {
    pub fn completed(&self) -> Vec<Op> {
        self.ops
            .iter()
            .map(|o| o.clone().unwrap_or(Op::TotalControlFlow(essential_asm::TotalControlFlow::Halt)))
            .collect()
    }
}

impl<'a> Px<'a> {
    /// One run under the choice context.
    pub fn run(&self, ctx: &Ctx) -> PxRun {
        let mut ops: Vec<Option<Op>> = vec![None; self.len];
        let mut execs = 0;
        let real = loop {
            let h = Holey { ops: Arc::new(ops.clone()) };
            // write-ahead: should this execution never return (or abort), the parent re-runs it alone
            wal::set(&wal_encode(&self.label, self.env, self.init, &ops));
            let r = run_real_with(self.init, h, self.env, false);
            execs += 1;
            if let RealOut::Err { hole: Some(p), .. } = &r {
                if *p < ops.len() && ops[*p].is_none() {
                    let k = ctx.choose(Class::Hole, self.alphabet.len());
                    ops[*p] = Some(self.alphabet[k].clone());
                    continue;
                }
            }
            break r;
        };
        let h = Holey { ops: Arc::new(ops.clone()) };
        let rf = run_ref(self.init, &h, self.env);
        PxRun { ops, real, rf, real_execs: execs }
    }

    pub fn case_json(&self, run: &PxRun) -> Value {
        let ops = run.completed();
        json!({
            "kind": "prog",
            "label": self.label,
            "ops": ops_json(&ops),
            "ops_hex": ops_hex(&ops),
            "holes_unreached": run.ops.iter().enumerate().filter(|(_, o)| o.is_none()).map(|(i, _)| i).collect::<Vec<_>>(),
            "init": RvmSer::from(self.init),
            "cost": self.env.cost,
            "limit": self.env.limit,
        })
    }

    /// Standard visit: compare with the reference, record.
    pub fn visit(&self, ctx: &Ctx, run: PxRun, rep: &mut Report) {
        rep.traces_validated_against_impl += run.real_execs as u64;
        rep.transitions += run.rf.stats.ops;
        let nontrivial = run.rf.stats.ops >= 2;
        let ops = run.completed();
        let obs = hash_of(&(&run.real, ops_hex(&ops)));
        rep.eval(
            if nontrivial { Some(hash_of(&(ops_hex(&ops), &self.label))) } else { None },
            hash_of(&run.real),
        );
        let _ = obs;
        if ctx.diverged() {
            rep.machinery_errors.push(format!("replay divergence in {} at {:?}", self.label, ctx.choices()));
            return;
        }
        // reference reached a hole the real execution never reached: control flow differs
        if let Err(e) = &run.rf.res {
            if let Some(h) = e.hole {
                let sig = Signature::new(self.prop, "control_flow_divergence");
                let key = sig.key();
                rep.violate(
                    || viol(sig, self.case_json(&run), json!(format!("reference reads position {h}")), json!(format!("{:?}", run.real)), String::new()),
                    Some(&key),
                );
                return;
            }
        }
        if self.mask_stray_compute_end && run.rf.stats.stray_compute_end {
            rep.mask("ComputeEnd met outside a compute child");
            return;
        }
        if run.rf.stats.child_behind_parent {
            rep.mask("all compute children ended at or before the Compute");
            return;
        }
        let mut masks: Vec<String> = vec![];
        let diff = compare(&run.real, &run.rf, &|i| ops.get(i).map(crate::refvm::is_compute).unwrap_or(false), &mut |m| masks.push(m.to_string()));
        for m in masks {
            rep.mask(&m);
        }
        if let Some((clause, detail)) = diff {
            let mut sig = Signature::new(self.prop, &clause);
            if let RealOut::Panic { site, msg } = &run.real {
                sig = sig.site(format!("{site}: {msg}"));
            }
            for f in features(&ops, &run) {
                sig = sig.feat(f);
            }
            let key = sig.key();
            rep.violate(
                || {
                    viol(
                        sig,
                        self.case_json(&run),
                        json!(format!("{:?} gas {}", run.rf.res.as_ref().map(|v| rvm_json(v)), run.rf.gas)),
                        json!(format!("{:?}", run.real)),
                        prog_test_snippet(&ops, self.init, self.env, &detail),
                    )
                },
                Some(&key),
            );
        }
        rep.sample(|| json!({"config": self.label, "program": ops_json(&ops), "reference": format!("{:?}", run.rf.res.as_ref().map(|v| (v.pc, v.stack.len(), v.memory.len())).map_err(|e| (e.index, format!("{:?}", e.kind)))), "gas": run.rf.gas as u64}));
    }

    /// Explore this worker's share of the program tree.
    pub fn explore(&self, cfg: &RunCfg, rep: &mut Report, extra: &mut dyn FnMut(&Px, &PxRun, &mut Report)) {
        let b = Bounds::default();
        // deterministic split; shallow runs are visited by the worker owning their index
        let roots = xplore::split(&b, cfg.nworkers * 64, |c| self.run(c), |i, c, o| {
            if cfg.mine(i) {
                extra(self, &o, rep);
                self.visit(c, o, rep);
            }
        });
        for (i, root) in roots.into_iter().enumerate() {
            if !cfg.mine(i as u64) {
                continue;
            }
            let st = xplore::explore(root, &b, |c| self.run(c), |c, o| {
                wal::tick();
                extra(self, &o, rep);
                self.visit(c, o, rep);
            });
            if st.capped {
                rep.cap("run cap in subtree");
            }
        }
    }
}

/// Discriminating features of a counterexample (for known-finding signatures).
fn features(ops: &[Op], run: &PxRun) -> Vec<String> {
    let mut f = vec![];
    if ops.iter().any(crate::refvm::is_compute) && run.rf.stats.computes > 0 {
        f.push("has_op:Compute".to_string());
    }
    f
}

/// Re-run a recorded program case; true = still violates.
pub fn replay_prog(prop: &'static str, case: &Value) -> Result<bool, String> {
    let ops = ops_from_hex(case["ops_hex"].as_str().ok_or("ops_hex")?)?;
    let init: RvmSer = serde_json::from_value(case["init"].clone()).map_err(|e| e.to_string())?;
    let init = RVm::from(&init);
    let cost: Cost = serde_json::from_value(case["cost"].clone()).map_err(|e| e.to_string())?;
    let limit = case["limit"].as_u64().ok_or("limit")?;
    let env = ProgEnv::basic(cost, limit);
    let h = Holey { ops: Arc::new(ops.iter().cloned().map(Some).collect()) };
    let r1 = run_real_with(&init, h.clone(), &env, false);
    let r2 = run_real_with(&init, h.clone(), &env, false);
    if r1 != r2 {
        return Err("nondeterministic replay".into());
    }
    let rf = run_ref(&init, &h, &env);
    let _ = prop;
    if rf.stats.child_behind_parent {
        return Ok(false);
    }
    Ok(compare(&r1, &rf, &|i| ops.get(i).map(crate::refvm::is_compute).unwrap_or(false), &mut |_| {}).is_some())
}

/// Write-ahead form of one program execution: 'X' + postcard(label, cost, limit, init, bytecode
/// with holes filled by Halt, hole positions).
pub fn wal_encode(label: &str, env: &ProgEnv, init: &RVm, ops: &[Option<Op>]) -> Vec<u8> {
    let halt = Op::TotalControlFlow(essential_asm::TotalControlFlow::Halt);
    let filled: Vec<Op> = ops.iter().map(|o| o.clone().unwrap_or(halt.clone())).collect();
    let holes: Vec<u16> = ops.iter().enumerate().filter(|(_, o)| o.is_none()).map(|(i, _)| i as u16).collect();
    let body = (label.to_string(), env.cost, env.limit, RvmSer::from(init), essential_asm::to_bytes(filled).collect::<Vec<u8>>(), holes);
    let mut v = vec![b'X'];
    v.extend(postcard::to_allocvec(&body).unwrap_or_default());
    v
}

type WalBody = (String, Cost, u64, RvmSer, Vec<u8>, Vec<u16>);

fn wal_decode(b: &[u8]) -> Option<(WalBody, Vec<Option<Op>>)> {
    if b.first() != Some(&b'X') {
        return None;
    }
    let body: WalBody = postcard::from_bytes(&b[1..]).ok()?;
    let ops: Vec<Op> = essential_asm::from_bytes(body.4.iter().copied()).collect::<Result<_, _>>().ok()?;
    let mut ops: Vec<Option<Op>> = ops.into_iter().map(Some).collect();
    for h in &body.5 {
        if let Some(o) = ops.get_mut(*h as usize) {
            *o = None;
        }
    }
    Some((body, ops))
}

pub fn wal_describe(b: &[u8]) -> Value {
    match wal_decode(b) {
        Some((body, ops)) => json!({
            "kind": "prog", "label": body.0, "cost": body.1, "limit": body.2, "init": body.3,
            "ops": ops.iter().map(|o| o.as_ref().map(|o| format!("{o:?}")).unwrap_or("<hole>".into())).collect::<Vec<_>>(),
            "ops_hex": hex::encode(&body.4),
        }),
        None => json!("undecodable write-ahead record"),
    }
}

/// Re-execute the recorded program alone (may hang or die: that is the point).
pub fn wal_run(b: &[u8]) {
    if let Some((body, ops)) = wal_decode(b) {
        let env = ProgEnv::basic(body.1, body.2);
        let h = Holey { ops: Arc::new(ops) };
        let _ = run_real_with(&RVm::from(&body.3), h, &env, false);
    }
}
