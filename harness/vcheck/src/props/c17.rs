//! C17 — content addresses are canonical, order-independent and injective up to SHA-256.
//!
//! Also hosts the helpers shared with C18: plain mirror types of the subject's data types
//! (`PSpec`, `CSpec`, `SSpec`, `VSpec`), the small-value generators and an independent
//! reference codec for predicates written from the layout table in
//! `crates/types/src/predicate/encode.rs` (it never calls the subject's encoder).
use crate::fw::*;
use crate::PropSpec;
use essential_hash::{self as eh, contract_addr, solution_set_addr, Address};
use essential_types::{
    contract::Contract,
    predicate::{Node, Predicate, Program},
    solution::{Mutation, Solution, SolutionSet},
    ContentAddress, PredicateAddress, Word,
};
use serde::{Deserialize, Serialize};
use serde_json::{json, Value};
use sha2::{Digest, Sha256};

pub fn spec() -> PropSpec {
    PropSpec {
        id: "C17",
        level: "exploration",
        rule: "values: all predicates with <=2 nodes/<=2 edges over 2 program addresses and edge/edge_start in {0,1,0xFFFF} (559) plus generated predicates with {0,999,1000,1001} nodes x edges; 9 programs; all 252 solutions over 2 contracts x 2 predicates x predicate_data {[],[[1]],[[],[1]]} x 0..2 mutations (keys {[0],[1]} values {[],[7]}); contracts = all multisets of <=3 predicates from a pool of 10 (quick) / 20 (thorough) near-miss predicates x 3 salts (zero, and two salts equal to the addresses of pool predicates) x all distinct permutations; solution sets = all multisets of <=3 from a pool of 10/20 solutions x all permutations; thorough additionally all contracts of 1..2 predicates over the full 559 x 3 salts; every single-field perturbation of every value; all pairs of distinct values of one kind (injectivity on the subject's address and, where observable, on the pre-hash bytes). non-trivial = predicate with >=1 node or edge / non-empty program / every solution / contract or set under a non-identity permutation of >=2 distinct members / every pair of distinct values; distinct by (kind, value[, permutation]) resp. (value, value)",
        assumptions: &[
            "SHA-256 is computed with the sha2 crate directly; the expected predicate bytes come from the harness' own encoder written from the documented layout table",
            "contract / set pre-images are recomputed from the member addresses the subject reports (so a member-level defect is reported once, at the member level)",
            "over-limit predicates (1001 nodes or edges): encode fails and content_addr is the all-zero address; documented in address_impl.rs, counted as masked",
        ],
        run,
        replay,
        describe_wal: None,
        run_wal: None,
        both_profiles: false,
        workers: 0,
    }
}

// ---------------------------------------------------------------------------------------------
// Mirror types (own serde, independent of the subject's serde impls)

/// 32 bytes, serialised as a lower-case hex string.
#[derive(Clone, Copy, Debug, PartialEq, Eq, PartialOrd, Ord, Hash)]
pub struct H32(pub [u8; 32]);

impl Serialize for H32 {
    fn serialize<S: serde::Serializer>(&self, s: S) -> Result<S::Ok, S::Error> {
        s.serialize_str(&hex::encode(self.0))
    }
}
impl<'de> Deserialize<'de> for H32 {
    fn deserialize<D: serde::Deserializer<'de>>(d: D) -> Result<Self, D::Error> {
        let s = String::deserialize(d)?;
        let v = hex::decode(&s).map_err(serde::de::Error::custom)?;
        Ok(H32(v.try_into().map_err(|_| serde::de::Error::custom("need 32 bytes"))?))
    }
}

/// A predicate: literal, or generated (`n` nodes, `e` edges, deterministic contents).
#[derive(Clone, Debug, PartialEq, Eq, PartialOrd, Ord, Hash, Serialize, Deserialize)]
pub enum PSpec {
    Lit { nodes: Vec<(u16, H32)>, edges: Vec<u16> },
    Gen { n: u32, e: u32 },
}

pub type Parts = (Vec<(u16, [u8; 32])>, Vec<u16>);

impl PSpec {
    pub fn parts(&self) -> Parts {
        match self {
            PSpec::Lit { nodes, edges } => (nodes.iter().map(|(s, a)| (*s, a.0)).collect(), edges.clone()),
            PSpec::Gen { n, e } => (
                (0..*n)
                    .map(|i| {
                        let mut a = [(i % 251) as u8; 32];
                        a[0] = (i >> 8) as u8;
                        a[1] = i as u8;
                        (if i % 5 == 4 { 0xFFFF } else { (i % 1000) as u16 }, a)
                    })
                    .collect(),
                (0..*e).map(|i| ((i * 7) % 1000) as u16).collect(),
            ),
        }
    }
    pub fn build(&self) -> Predicate {
        let (nodes, edges) = self.parts();
        Predicate {
            nodes: nodes.into_iter().map(|(edge_start, a)| Node { edge_start, program_address: ContentAddress(a) }).collect(),
            edges,
        }
    }
    pub fn is_default(&self) -> bool {
        let (n, e) = self.sizes();
        n == 0 && e == 0
    }
    pub fn sizes(&self) -> (usize, usize) {
        match self {
            PSpec::Lit { nodes, edges } => (nodes.len(), edges.len()),
            PSpec::Gen { n, e } => (*n as usize, *e as usize),
        }
    }
    /// A Rust expression (public API only) building this predicate.
    pub fn expr(&self) -> String {
        match self {
            PSpec::Lit { nodes, edges } => {
                let ns: Vec<String> = nodes
                    .iter()
                    .map(|(s, a)| format!("Node {{ edge_start: {s}, program_address: ContentAddress({:?}) }}", a.0))
                    .collect();
                format!("Predicate {{ nodes: vec![{}], edges: vec!{:?} }}", ns.join(", "), edges)
            }
            PSpec::Gen { n, e } => format!(
                "Predicate {{ nodes: (0..{n}u32).map(|i| {{ let mut a = [(i % 251) as u8; 32]; a[0] = (i >> 8) as u8; a[1] = i as u8; Node {{ edge_start: if i % 5 == 4 {{ 0xFFFF }} else {{ (i % 1000) as u16 }}, program_address: ContentAddress(a) }} }}).collect(), edges: (0..{e}u32).map(|i| ((i * 7) % 1000) as u16).collect() }}"
            ),
        }
    }
}

#[derive(Clone, Debug, PartialEq, Eq, PartialOrd, Ord, Hash, Serialize, Deserialize)]
pub struct CSpec {
    pub preds: Vec<PSpec>,
    pub salt: H32,
}

impl CSpec {
    pub fn build(&self) -> Contract {
        Contract { predicates: self.preds.iter().map(|p| p.build()).collect(), salt: self.salt.0 }
    }
    pub fn expr(&self) -> String {
        let ps: Vec<String> = self.preds.iter().map(|p| p.expr()).collect();
        format!("Contract {{ predicates: vec![{}], salt: {:?} }}", ps.join(", "), self.salt.0)
    }
}

#[derive(Clone, Debug, PartialEq, Eq, PartialOrd, Ord, Hash, Serialize, Deserialize)]
pub struct SSpec {
    pub contract: H32,
    pub predicate: H32,
    pub data: Vec<Vec<Word>>,
    pub muts: Vec<(Vec<Word>, Vec<Word>)>,
}

impl SSpec {
    pub fn build(&self) -> Solution {
        Solution {
            predicate_to_solve: PredicateAddress { contract: ContentAddress(self.contract.0), predicate: ContentAddress(self.predicate.0) },
            predicate_data: self.data.clone(),
            state_mutations: self.muts.iter().map(|(k, v)| Mutation { key: k.clone(), value: v.clone() }).collect(),
        }
    }
    pub fn expr(&self) -> String {
        let ms: Vec<String> = self.muts.iter().map(|(k, v)| format!("Mutation {{ key: vec!{k:?}, value: vec!{v:?} }}")).collect();
        let ds: Vec<String> = self.data.iter().map(|d| format!("vec!{d:?}")).collect();
        format!(
            "Solution {{ predicate_to_solve: PredicateAddress {{ contract: ContentAddress({:?}), predicate: ContentAddress({:?}) }}, predicate_data: vec![{}], state_mutations: vec![{}] }}",
            self.contract.0,
            self.predicate.0,
            ds.join(", "),
            ms.join(", ")
        )
    }
}

pub fn build_set(ss: &[SSpec]) -> SolutionSet {
    SolutionSet { solutions: ss.iter().map(|s| s.build()).collect() }
}

#[derive(Clone, Debug, PartialEq, Eq, PartialOrd, Ord, Hash, Serialize, Deserialize)]
pub enum VSpec {
    Pred(PSpec),
    Contract(CSpec),
    Program(Vec<u8>),
    Solution(SSpec),
    Set(Vec<SSpec>),
}

impl VSpec {
    pub fn kind(&self) -> &'static str {
        match self {
            VSpec::Pred(_) => "predicate",
            VSpec::Contract(_) => "contract",
            VSpec::Program(_) => "program",
            VSpec::Solution(_) => "solution",
            VSpec::Set(_) => "set",
        }
    }
    /// Canonical form: member order of contracts and sets does not matter (multisets).
    fn canon(&self) -> VSpec {
        match self {
            VSpec::Contract(c) => {
                let mut ps: Vec<(Parts, PSpec)> = c.preds.iter().map(|p| (p.parts(), p.clone())).collect();
                ps.sort();
                // compare by contents, not by how the predicate is described
                VSpec::Contract(CSpec {
                    preds: ps
                        .into_iter()
                        .map(|((n, e), _)| PSpec::Lit { nodes: n.into_iter().map(|(s, a)| (s, H32(a))).collect(), edges: e })
                        .collect(),
                    salt: c.salt,
                })
            }
            VSpec::Set(s) => {
                let mut s = s.clone();
                s.sort();
                VSpec::Set(s)
            }
            VSpec::Pred(p) => {
                let (n, e) = p.parts();
                VSpec::Pred(PSpec::Lit { nodes: n.into_iter().map(|(s, a)| (s, H32(a))).collect(), edges: e })
            }
            other => other.clone(),
        }
    }
    /// Which components differ between two values of one kind.
    fn diff(&self, o: &VSpec) -> String {
        let mut d: Vec<&str> = vec![];
        match (self.canon(), o.canon()) {
            (VSpec::Pred(a), VSpec::Pred(b)) => {
                let ((an, ae), (bn, be)) = (a.parts(), b.parts());
                if an != bn {
                    d.push("nodes");
                }
                if ae != be {
                    d.push("edges");
                }
            }
            (VSpec::Contract(a), VSpec::Contract(b)) => {
                if a.preds != b.preds {
                    d.push("predicates");
                }
                if a.salt != b.salt {
                    d.push("salt");
                }
            }
            (VSpec::Program(_), VSpec::Program(_)) => d.push("bytes"),
            (VSpec::Solution(a), VSpec::Solution(b)) => {
                if (a.contract, a.predicate) != (b.contract, b.predicate) {
                    d.push("predicate_to_solve");
                }
                if a.data != b.data {
                    d.push("predicate_data");
                }
                if a.muts != b.muts {
                    d.push("state_mutations");
                }
            }
            (VSpec::Set(_), VSpec::Set(_)) => d.push("solutions"),
            _ => d.push("kind"),
        }
        d.join("+")
    }
}

// ---------------------------------------------------------------------------------------------
// Independent reference codec (from the layout table in predicate/encode.rs)
//
//   number_of_nodes u16 BE | nodes: (edge_start u16 BE | program_address 32 bytes)* |
//   number_of_edges u16 BE | edges: u16 BE*

pub const LIMIT_NODES: usize = 1000;
pub const LIMIT_EDGES: usize = 1000;

fn be16(v: usize) -> [u8; 2] {
    [(v >> 8) as u8, (v & 0xFF) as u8]
}

/// `None` when the predicate is over the documented limits.
pub fn ref_encode_predicate(nodes: &[(u16, [u8; 32])], edges: &[u16]) -> Option<Vec<u8>> {
    if nodes.len() > LIMIT_NODES || edges.len() > LIMIT_EDGES {
        return None;
    }
    let mut out = Vec::with_capacity(4 + 34 * nodes.len() + 2 * edges.len());
    out.extend(be16(nodes.len()));
    for (start, addr) in nodes {
        out.extend(be16(*start as usize));
        out.extend(addr);
    }
    out.extend(be16(edges.len()));
    for e in edges {
        out.extend(be16(*e as usize));
    }
    Some(out)
}

/// Name of the documented field that holds byte `off` of an encoding with `n_nodes` nodes.
pub fn ref_field_at(n_nodes: usize, off: usize) -> &'static str {
    if off < 2 {
        return "number_of_nodes";
    }
    let nodes_end = 2 + 34 * n_nodes;
    if off < nodes_end {
        return if (off - 2) % 34 < 2 { "edge_start" } else { "program_address" };
    }
    if off < nodes_end + 2 {
        "number_of_edges"
    } else {
        "edges"
    }
}

pub fn sha256(b: &[u8]) -> [u8; 32] {
    Sha256::digest(b).into()
}

// ---------------------------------------------------------------------------------------------
// Small-value generators

pub const ADDR_A: [u8; 32] = [0; 32];
pub const ADDR_B: [u8; 32] = {
    let mut b = [0u8; 32];
    b[1] = 1;
    b[31] = 0xFF;
    b
};
pub const EDGE_VALUES: [u16; 3] = [0, 1, 0xFFFF];

/// All lists over `alpha` of length 0..=max, shortest first.
pub fn lists<T: Clone>(alpha: &[T], max: usize) -> Vec<Vec<T>> {
    let mut out: Vec<Vec<T>> = vec![vec![]];
    let mut layer: Vec<Vec<T>> = vec![vec![]];
    for _ in 0..max {
        let mut next = vec![];
        for l in &layer {
            for a in alpha {
                let mut l2 = l.clone();
                l2.push(a.clone());
                next.push(l2);
            }
        }
        out.extend(next.iter().cloned());
        layer = next;
    }
    out
}

/// All predicates with <= 2 nodes / <= 2 edges over 2 addresses and values {0,1,0xFFFF}: 43 x 13 = 559.
pub fn small_predicates() -> Vec<PSpec> {
    let mut node_alpha = vec![];
    for s in EDGE_VALUES {
        for a in [ADDR_A, ADDR_B] {
            node_alpha.push((s, H32(a)));
        }
    }
    let mut out = vec![];
    for nodes in lists(&node_alpha, 2) {
        for edges in lists(&EDGE_VALUES, 2) {
            out.push(PSpec::Lit { nodes: nodes.clone(), edges });
        }
    }
    out
}

/// Generated predicates with every (nodes, edges) pair over `sizes` (except (0,0)).
pub fn sized_predicates(sizes: &[u32]) -> Vec<PSpec> {
    let mut out = vec![];
    for &n in sizes {
        for &e in sizes {
            if n != 0 || e != 0 {
                out.push(PSpec::Gen { n, e });
            }
        }
    }
    out
}

pub fn small_programs() -> Vec<Vec<u8>> {
    vec![vec![], vec![0], vec![1], vec![0, 0], vec![0, 1], vec![1, 0], vec![0xFF; 3], vec![0; 10_000], (0..10_001u32).map(|i| i as u8).collect()]
}

/// 2 contracts x 2 predicates x 3 predicate_data x 21 mutation lists = 252 solutions.
pub fn small_solutions() -> Vec<SSpec> {
    let mut_alpha: Vec<(Vec<Word>, Vec<Word>)> = vec![(vec![0], vec![]), (vec![0], vec![7]), (vec![1], vec![]), (vec![1], vec![7])];
    let mut out = vec![];
    for c in [ADDR_A, ADDR_B] {
        for p in [ADDR_A, ADDR_B] {
            for data in [vec![], vec![vec![1]], vec![vec![], vec![1]]] {
                for muts in lists(&mut_alpha, 2) {
                    out.push(SSpec { contract: H32(c), predicate: H32(p), data: data.clone(), muts });
                }
            }
        }
    }
    out
}

/// Non-decreasing index lists of length 0..=max over 0..k (multisets).
pub fn multisets(k: usize, max: usize) -> Vec<Vec<usize>> {
    fn go(k: usize, from: usize, left: usize, cur: &mut Vec<usize>, out: &mut Vec<Vec<usize>>) {
        out.push(cur.clone());
        if left == 0 {
            return;
        }
        for i in from..k {
            cur.push(i);
            go(k, i, left - 1, cur, out);
            cur.pop();
        }
    }
    let mut out = vec![];
    go(k, 0, max, &mut vec![], &mut out);
    out
}

/// All permutations of 0..n in lexicographic order (identity first).
pub fn permutations(n: usize) -> Vec<Vec<usize>> {
    fn go(n: usize, cur: &mut Vec<usize>, out: &mut Vec<Vec<usize>>) {
        if cur.len() == n {
            out.push(cur.clone());
            return;
        }
        for i in 0..n {
            if !cur.contains(&i) {
                cur.push(i);
                go(n, cur, out);
                cur.pop();
            }
        }
    }
    let mut out = vec![];
    go(n, &mut vec![], &mut out);
    out
}

fn lit(nodes: &[(u16, [u8; 32])], edges: &[u16]) -> PSpec {
    PSpec::Lit { nodes: nodes.iter().map(|(s, a)| (*s, H32(*a))).collect(), edges: edges.to_vec() }
}

/// Pool of near-miss predicates from which contracts are built.
pub fn contract_pool(k: usize) -> Vec<PSpec> {
    let (a, b) = (ADDR_A, ADDR_B);
    let mut pool = vec![
        lit(&[], &[]),
        lit(&[(0, a)], &[]),
        lit(&[(0, b)], &[]),
        lit(&[(0xFFFF, a)], &[]),
        lit(&[(0, a)], &[0]),
        lit(&[(0, a), (1, b)], &[1, 0]),
        lit(&[(0, a), (1, b)], &[0, 1]),
        lit(&[(1, b), (0, a)], &[1, 0]),
        lit(&[], &[0]),
        lit(&[(0, a), (0, a)], &[]),
        PSpec::Gen { n: 1000, e: 1000 },
        lit(&[(1, a)], &[]),
    ];
    let small = small_predicates();
    let mut j = 0;
    while pool.len() < k {
        let c = small[(j * 67 + 5) % small.len()].clone();
        if !pool.contains(&c) {
            pool.push(c);
        }
        j += 1;
    }
    pool.truncate(k);
    pool
}

pub fn solution_pool(k: usize) -> Vec<SSpec> {
    let all = small_solutions();
    (0..k).map(|j| all[(j * 37) % all.len()].clone()).collect()
}

// ---------------------------------------------------------------------------------------------
// Reporting helpers

fn fail(rep: &mut Report, clause: &str, feats: &[String], case: &dyn Fn() -> Value, want: Value, got: Value, snippet: &dyn Fn() -> String) {
    let mut sig = Signature::new("C17", clause);
    for f in feats {
        sig = sig.feat(f.clone());
    }
    let key = sig.key();
    rep.violate(|| viol(sig, case(), want, got, snippet()), Some(&key));
}

/// Stable panic site: path from `crates/` on, message with every number replaced by `N`
/// (lengths and indices vary with the input; one defect, one signature).
pub fn panic_site(e: &(String, String)) -> String {
    let loc = match e.0.find("crates/") {
        Some(i) => &e.0[i..],
        None => &e.0[..],
    };
    let mut msg = String::new();
    let mut in_num = false;
    for ch in e.1.chars() {
        if ch.is_ascii_digit() {
            if !in_num {
                msg.push('N');
            }
            in_num = true;
        } else {
            in_num = false;
            msg.push(ch);
        }
    }
    format!("{loc}: {msg}")
}

fn panicked(rep: &mut Report, e: (String, String), case: &dyn Fn() -> Value) {
    let sig = Signature::new("C17", "no_panic").site(panic_site(&e));
    let key = sig.key();
    rep.violate(|| viol(sig, case(), json!("no panic"), json!(format!("panic at {}: {}", e.0, e.1)), String::new()), Some(&key));
}

fn hx(b: &[u8]) -> String {
    if b.len() <= 160 {
        hex::encode(b)
    } else {
        format!("{}..({} bytes)", hex::encode(&b[..80]), b.len())
    }
}

const USES: &str = "use essential_hash::{self as eh, Address};\n    use essential_types::{contract::Contract, predicate::{Node, Predicate, Program}, solution::{Mutation, Solution, SolutionSet}, ContentAddress, PredicateAddress};\n    use sha2::Digest;";

// ---------------------------------------------------------------------------------------------
// Per-value checks

const ZERO: [u8; 32] = [0; 32];

fn check_predicate(ps: &PSpec, rep: &mut Report) {
    let case = || json!({"kind": "value", "value": VSpec::Pred(ps.clone())});
    let (nodes, edges) = ps.parts();
    let p = ps.build();
    let want = ref_encode_predicate(&nodes, &edges);
    let got = catch(|| {
        let enc: Option<Vec<u8>> = p.encode().ok().map(|it| it.collect());
        let addr = eh::content_addr(&p).0;
        let size = p.encoded_size();
        let via_trait = p.content_address().0;
        let via_hash_bytes = enc.as_ref().map(|e| eh::hash_bytes(e));
        let via_iter = enc.as_ref().map(|e| eh::hash_bytes_iter(e.chunks(7)));
        (enc, addr, size, via_trait, via_hash_bytes, via_iter)
    });
    let (enc, addr, size, via_trait, via_hash_bytes, via_iter) = match got {
        Ok(x) => x,
        Err(e) => {
            rep.eval(Some(hash_of(ps)), 0);
            return panicked(rep, e, &case);
        }
    };
    rep.eval(if ps.is_default() { None } else { Some(hash_of(ps)) }, hash_of(&(addr, size, enc.is_some())));
    let Some(want) = want else {
        if enc.is_none() && addr == ZERO {
            rep.mask("over-limit predicate (1001 nodes or edges): encode fails, content_addr is the all-zero address (documented in address_impl.rs)");
        } else {
            rep.mask("over-limit predicate accepted by encode (behaviour beyond the limits is unspecified)");
        }
        return;
    };
    let pe = ps.expr();
    let Some(enc) = enc else {
        fail(rep, "addr.predicate_encoding", &["encode_fails_within_limits".into()], &case, json!({"encoding": hx(&want)}), json!("encode() returned Err"), &|| {
            format!("#[test]\nfn replay() {{\n    {USES}\n    let p = {pe};\n    assert!(p.encode().is_ok());\n}}\n")
        });
        return;
    };
    if enc != want {
        let first = enc.iter().zip(&want).position(|(a, b)| a != b);
        let what = match first {
            Some(off) => format!("encode_vs_documented_layout:{}", ref_field_at(nodes.len(), off)),
            None => "encode_vs_documented_layout:length".to_string(),
        };
        fail(rep, "addr.predicate_encoding", &[what], &case, json!({"encoding": hx(&want), "len": want.len()}), json!({"encoding": hx(&enc), "len": enc.len(), "first_difference_at": first}), &|| {
            format!("#[test]\nfn replay() {{\n    {USES}\n    let p = {pe};\n    let bytes: Vec<u8> = p.encode().unwrap().collect();\n    assert_eq!(hex::encode(&bytes[..bytes.len().min(80)]), {:?});\n}}\n", hex::encode(&want[..want.len().min(80)]))
        });
    }
    let want_addr = sha256(&enc);
    if addr != want_addr {
        fail(rep, "addr.predicate_encoding", &["content_addr_vs_sha256_of_encoding".into()], &case, json!(hex::encode(want_addr)), json!(hex::encode(addr)), &|| {
            format!("#[test]\nfn replay() {{\n    {USES}\n    let p = {pe};\n    let bytes: Vec<u8> = p.encode().unwrap().collect();\n    let h: [u8; 32] = sha2::Sha256::digest(&bytes).into();\n    assert_eq!(eh::content_addr(&p).0, h);\n}}\n")
        });
    }
    if size != enc.len() {
        let delta = size as i64 - enc.len() as i64;
        fail(rep, "size_matches", &[format!("encoded_size-actual={delta}")], &case, json!(enc.len()), json!(size), &|| {
            format!("#[test]\nfn replay() {{\n    {USES}\n    let p = {pe};\n    assert_eq!(p.encoded_size(), p.encode().unwrap().count());\n}}\n")
        });
    }
    // the trait method against the shorthand; the raw hashing helpers against SHA-256 itself
    for (name, v, w) in [("Address::content_address", Some(via_trait), addr), ("hash_bytes(encoding)", via_hash_bytes, want_addr), ("hash_bytes_iter(encoding chunks)", via_iter, want_addr)] {
        if v != Some(w) {
            fail(rep, "helpers_agree", &[format!("predicate:{name}")], &case, json!(hex::encode(w)), json!(v.map(hex::encode)), &|| String::new());
        }
    }
}

fn check_program(bytes: &[u8], rep: &mut Report) {
    let case = || json!({"kind": "value", "value": VSpec::Program(bytes.to_vec())});
    let pr = Program(bytes.to_vec());
    let got = catch(|| (eh::content_addr(&pr).0, pr.content_address().0, eh::hash_bytes(bytes), eh::hash_bytes_iter(bytes.chunks(3))));
    let (addr, via_trait, hb, hbi) = match got {
        Ok(x) => x,
        Err(e) => {
            rep.eval(Some(hash_of(bytes)), 0);
            return panicked(rep, e, &case);
        }
    };
    rep.eval(if bytes.is_empty() { None } else { Some(hash_of(bytes)) }, hash_of(&addr));
    let want = sha256(bytes);
    for (name, v, want) in [("content_addr_vs_sha256(bytes)", addr, want), ("Address::content_address", via_trait, addr), ("hash_bytes", hb, want), ("hash_bytes_iter", hbi, want)] {
        if v != want {
            fail(rep, "helpers_agree", &[format!("program:{name}")], &case, json!(hex::encode(want)), json!(hex::encode(v)), &|| {
                format!("#[test]\nfn replay() {{\n    {USES}\n    let bytes = hex::decode({:?}).unwrap();\n    let h: [u8; 32] = sha2::Sha256::digest(&bytes).into();\n    assert_eq!(eh::content_addr(&Program(bytes)).0, h);\n}}\n", hex::encode(bytes))
            });
        }
    }
}

/// postcard, by hand: unsigned LEB128 varints, zigzag for signed words, sequences as varint length
/// + elements, structs as the concatenation of their fields in declaration order, byte slices as
/// sequences of bytes. Nothing is ever omitted: an empty list is its length 0.
fn pc_varint(mut v: u64, out: &mut Vec<u8>) {
    loop {
        let b = (v & 0x7F) as u8;
        v >>= 7;
        if v == 0 {
            out.push(b);
            return;
        }
        out.push(b | 0x80);
    }
}
fn pc_words(ws: &[Word], out: &mut Vec<u8>) {
    pc_varint(ws.len() as u64, out);
    for w in ws {
        pc_varint(((*w << 1) ^ (*w >> 63)) as u64, out);
    }
}
pub fn ref_postcard_solution(ss: &SSpec) -> Vec<u8> {
    let mut out = vec![];
    for a in [&ss.contract, &ss.predicate] {
        pc_varint(32, &mut out);
        out.extend_from_slice(&a.0);
    }
    pc_varint(ss.data.len() as u64, &mut out);
    for d in &ss.data {
        pc_words(d, &mut out);
    }
    pc_varint(ss.muts.len() as u64, &mut out);
    for (k, v) in &ss.muts {
        pc_words(k, &mut out);
        pc_words(v, &mut out);
    }
    out
}

fn check_solution(ss: &SSpec, rep: &mut Report) {
    let case = || json!({"kind": "value", "value": VSpec::Solution(ss.clone())});
    let s = ss.build();
    let got = catch(|| (eh::content_addr(&s).0, s.content_address().0, eh::hash(&s), eh::serialize(&s)));
    let (addr, via_trait, h, ser) = match got {
        Ok(x) => x,
        Err(e) => {
            rep.eval(Some(hash_of(ss)), 0);
            return panicked(rep, e, &case);
        }
    };
    rep.eval(Some(hash_of(ss)), hash_of(&addr));
    let pc = postcard::to_allocvec(&s).unwrap_or_default();
    if ser != pc {
        fail(rep, "helpers_agree", &["solution:serialize_vs_postcard".into()], &case, json!(hx(&pc)), json!(hx(&ser)), &|| String::new());
    }
    // the pre-hash bytes are the complete postcard encoding of every field, written out by hand
    let by_hand = ref_postcard_solution(ss);
    if ser != by_hand {
        fail(rep, "addr.solution_encoding", &["solution:serialize_vs_hand_written_postcard".into()], &case, json!(hx(&by_hand)), json!(hx(&ser)), &|| String::new());
    }
    let want = sha256(&ser);
    let se = ss.expr();
    for (name, v, want) in [("content_addr_vs_sha256(serialize)", addr, want), ("Address::content_address", via_trait, addr), ("hash", h, want)] {
        if v != want {
            fail(rep, "helpers_agree", &[format!("solution:{name}")], &case, json!(hex::encode(want)), json!(hex::encode(v)), &|| {
                format!("#[test]\nfn replay() {{\n    {USES}\n    let s = {se};\n    let h: [u8; 32] = sha2::Sha256::digest(&eh::serialize(&s)).into();\n    assert_eq!(eh::content_addr(&s).0, h);\n}}\n")
            });
        }
    }
}

/// Distinct reorderings of `items` (as index vectors), identity first.
fn distinct_perms<T: PartialEq>(items: &[T]) -> Vec<Vec<usize>> {
    let mut seen: Vec<Vec<&T>> = vec![];
    let mut out = vec![];
    for p in permutations(items.len()) {
        let view: Vec<&T> = p.iter().map(|&i| &items[i]).collect();
        if !seen.contains(&view) {
            seen.push(view);
            out.push(p);
        }
    }
    out
}

fn concat(addrs: &[[u8; 32]], tail: &[u8]) -> Vec<u8> {
    let mut v: Vec<u8> = addrs.iter().flatten().copied().collect();
    v.extend(tail);
    v
}

fn check_contract(cs: &CSpec, rep: &mut Report) {
    let case = || json!({"kind": "value", "value": VSpec::Contract(cs.clone())});
    let c = cs.build();
    let salt = cs.salt.0;
    let got = catch(|| {
        let paddrs: Vec<ContentAddress> = c.predicates.iter().map(eh::content_addr).collect();
        let base = eh::content_addr(&c).0;
        let mut sl = paddrs.clone();
        let helpers = vec![
            ("Address::content_address", c.content_address().0),
            ("contract_addr::from_contract", contract_addr::from_contract(&c).0),
            ("contract_addr::from_predicate_addrs", contract_addr::from_predicate_addrs(paddrs.clone(), &salt).0),
            ("contract_addr::from_predicate_addrs_slice", contract_addr::from_predicate_addrs_slice(&mut sl, &salt).0),
        ];
        (paddrs, base, helpers)
    });
    let (paddrs, base, helpers) = match got {
        Ok(x) => x,
        Err(e) => {
            rep.eval(Some(hash_of(cs)), 0);
            return panicked(rep, e, &case);
        }
    };
    // pre-image: member addresses sorted ascending as 32-byte strings, then the salt
    let input: Vec<[u8; 32]> = paddrs.iter().map(|a| a.0).collect();
    let mut sorted = input.clone();
    sorted.sort();
    let pre = concat(&sorted, &salt);
    let want = sha256(&pre);
    let ce = cs.expr();
    if base != want {
        // diagnose with a salt that cannot coincide with a member address (the enumerated salts
        // deliberately do), so that one defect gets one label
        let probe = [0x5A; 32];
        let pc = Contract { predicates: c.predicates.clone(), salt: probe };
        let how = match catch(|| eh::content_addr(&pc).0) {
            Ok(pb) if pb == sha256(&concat(&sorted, &[])) => "observed=salt_not_hashed",
            Ok(pb) if pb == sha256(&[&probe[..], &concat(&sorted, &[])[..]].concat()) => "observed=salt_first",
            Ok(pb) if pb == sha256(&concat(&input, &probe)) => "observed=input_order",
            _ => "observed=other",
        };
        fail(rep, "preimage.contract", &[how.into()], &case, json!({"address": hex::encode(want), "preimage": hx(&pre)}), json!({"address": hex::encode(base)}), &|| {
            format!("#[test]\nfn replay() {{\n    {USES}\n    let c = {ce};\n    let mut addrs: Vec<[u8; 32]> = c.predicates.iter().map(|p| eh::content_addr(p).0).collect();\n    addrs.sort();\n    let mut pre: Vec<u8> = addrs.concat();\n    pre.extend(c.salt);\n    let h: [u8; 32] = sha2::Sha256::digest(&pre).into();\n    assert_eq!(eh::content_addr(&c).0, h);\n}}\n")
        });
    }
    let helper_base: Vec<[u8; 32]> = helpers[2..4].iter().map(|h| h.1).collect();
    for (name, v) in helpers {
        if v != base {
            fail(rep, "helpers_agree", &[format!("contract:{name}")], &case, json!(hex::encode(base)), json!(hex::encode(v)), &|| String::new());
        }
    }
    // all distinct member orders
    let parts: Vec<Parts> = cs.preds.iter().map(|p| p.parts()).collect();
    for perm in distinct_perms(&parts) {
        let identity = perm.iter().enumerate().all(|(i, &j)| i == j);
        let c2 = Contract { predicates: perm.iter().map(|&i| c.predicates[i].clone()).collect(), salt };
        let a2 = catch(|| {
            let mut sl: Vec<ContentAddress> = perm.iter().map(|&i| paddrs[i].clone()).collect();
            (eh::content_addr(&c2).0, contract_addr::from_predicate_addrs(sl.clone(), &salt).0, contract_addr::from_predicate_addrs_slice(&mut sl, &salt).0)
        });
        let pcase = || json!({"kind": "value", "value": VSpec::Contract(cs.clone()), "permutation": perm});
        match a2 {
            Err(e) => {
                rep.eval(Some(hash_of(&(cs, &perm))), 0);
                panicked(rep, e, &pcase);
            }
            Ok((a2, h2, h3)) => {
                rep.eval(if identity { None } else { Some(hash_of(&(cs, &perm))) }, hash_of(&(a2, h2, h3)));
                let (b2, b3) = (helper_base[0], helper_base[1]);
                if a2 != base || h2 != b2 || h3 != b3 {
                    let pe: Vec<String> = perm.iter().map(|&i| cs.preds[i].expr()).collect();
                    let f = if a2 != base {
                        "content_addr"
                    } else if h2 != b2 {
                        "from_predicate_addrs"
                    } else {
                        "from_predicate_addrs_slice"
                    };
                    fail(rep, "permutation_invariant.contract", &[f.into()], &pcase, json!(hex::encode(base)), json!({"content_addr": hex::encode(a2), "from_predicate_addrs": hex::encode(h2), "from_predicate_addrs_slice": hex::encode(h3)}), &|| {
                        format!("#[test]\nfn replay() {{\n    {USES}\n    let a = {ce};\n    let b = Contract {{ predicates: vec![{}], salt: a.salt }};\n    assert_eq!(eh::content_addr(&a), eh::content_addr(&b));\n}}\n", pe.join(", "))
                    });
                }
            }
        }
    }
}

fn check_set(ss: &[SSpec], rep: &mut Report) {
    let case = || json!({"kind": "value", "value": VSpec::Set(ss.to_vec())});
    let set = build_set(ss);
    let got = catch(|| {
        let saddrs: Vec<ContentAddress> = set.solutions.iter().map(eh::content_addr).collect();
        let base = eh::content_addr(&set).0;
        let mut sl = saddrs.clone();
        let helpers = vec![
            ("Address::content_address", set.content_address().0),
            ("solution_set_addr::from_set", solution_set_addr::from_set(&set).0),
            ("solution_set_addr::from_solution_addrs", solution_set_addr::from_solution_addrs(saddrs.clone()).0),
            ("solution_set_addr::from_solution_addrs_slice", solution_set_addr::from_solution_addrs_slice(&mut sl).0),
        ];
        (saddrs, base, helpers)
    });
    let (saddrs, base, helpers) = match got {
        Ok(x) => x,
        Err(e) => {
            rep.eval(Some(hash_of(ss)), 0);
            return panicked(rep, e, &case);
        }
    };
    let input: Vec<[u8; 32]> = saddrs.iter().map(|a| a.0).collect();
    let mut sorted = input.clone();
    sorted.sort();
    let pre = concat(&sorted, &[]);
    let want = sha256(&pre);
    let se: Vec<String> = ss.iter().map(|s| s.expr()).collect();
    if base != want {
        let how = if base == sha256(&concat(&input, &[])) { "observed=input_order" } else { "observed=other" };
        fail(rep, "preimage.set", &[how.into()], &case, json!({"address": hex::encode(want), "preimage": hx(&pre)}), json!({"address": hex::encode(base)}), &|| {
            format!("#[test]\nfn replay() {{\n    {USES}\n    let set = SolutionSet {{ solutions: vec![{}] }};\n    let mut addrs: Vec<[u8; 32]> = set.solutions.iter().map(|s| eh::content_addr(s).0).collect();\n    addrs.sort();\n    let h: [u8; 32] = sha2::Sha256::digest(&addrs.concat()).into();\n    assert_eq!(eh::content_addr(&set).0, h);\n}}\n", se.join(", "))
        });
    }
    let helper_base: Vec<[u8; 32]> = helpers[2..4].iter().map(|h| h.1).collect();
    for (name, v) in helpers {
        if v != base {
            fail(rep, "helpers_agree", &[format!("set:{name}")], &case, json!(hex::encode(base)), json!(hex::encode(v)), &|| String::new());
        }
    }
    for perm in distinct_perms(ss) {
        let identity = perm.iter().enumerate().all(|(i, &j)| i == j);
        let s2 = SolutionSet { solutions: perm.iter().map(|&i| set.solutions[i].clone()).collect() };
        let a2 = catch(|| {
            let mut sl: Vec<ContentAddress> = perm.iter().map(|&i| saddrs[i].clone()).collect();
            (eh::content_addr(&s2).0, solution_set_addr::from_solution_addrs(sl.clone()).0, solution_set_addr::from_solution_addrs_slice(&mut sl).0)
        });
        let pcase = || json!({"kind": "value", "value": VSpec::Set(ss.to_vec()), "permutation": perm});
        match a2 {
            Err(e) => {
                rep.eval(Some(hash_of(&(ss, &perm))), 0);
                panicked(rep, e, &pcase);
            }
            Ok((a2, h2, h3)) => {
                rep.eval(if identity { None } else { Some(hash_of(&(ss, &perm))) }, hash_of(&(a2, h2, h3)));
                let (b2, b3) = (helper_base[0], helper_base[1]);
                if a2 != base || h2 != b2 || h3 != b3 {
                    let pe: Vec<String> = perm.iter().map(|&i| ss[i].expr()).collect();
                    let f = if a2 != base {
                        "content_addr"
                    } else if h2 != b2 {
                        "from_solution_addrs"
                    } else {
                        "from_solution_addrs_slice"
                    };
                    fail(rep, "permutation_invariant.set", &[f.into()], &pcase, json!(hex::encode(base)), json!({"content_addr": hex::encode(a2), "from_solution_addrs": hex::encode(h2), "from_solution_addrs_slice": hex::encode(h3)}), &|| {
                        format!("#[test]\nfn replay() {{\n    {USES}\n    let a = SolutionSet {{ solutions: vec![{}] }};\n    let b = SolutionSet {{ solutions: vec![{}] }};\n    assert_eq!(eh::content_addr(&a), eh::content_addr(&b));\n}}\n", se.join(", "), pe.join(", "))
                    });
                }
            }
        }
    }
}

fn check_value(v: &VSpec, rep: &mut Report) {
    match v {
        VSpec::Pred(p) => check_predicate(p, rep),
        VSpec::Contract(c) => check_contract(c, rep),
        VSpec::Program(b) => check_program(b, rep),
        VSpec::Solution(s) => check_solution(s, rep),
        VSpec::Set(s) => check_set(s, rep),
    }
}

// ---------------------------------------------------------------------------------------------
// Injectivity: distinct values have distinct addresses (and distinct pre-hash bytes where the
// subject exposes them: predicate encoding, solution serialisation, program bytes).

#[derive(Clone)]
struct Obs {
    addr: [u8; 32],
    pre: Option<Vec<u8>>,
    /// over-limit predicate (no encoding, all-zero address): outside the quantifier
    outside: bool,
}

fn observe(v: &VSpec) -> Result<Obs, (String, String)> {
    catch(|| match v {
        VSpec::Pred(ps) => {
            let p = ps.build();
            let pre: Option<Vec<u8>> = p.encode().ok().map(|i| i.collect());
            let (n, e) = ps.sizes();
            Obs { addr: eh::content_addr(&p).0, outside: n > LIMIT_NODES || e > LIMIT_EDGES, pre }
        }
        VSpec::Contract(cs) => Obs { addr: eh::content_addr(&cs.build()).0, pre: None, outside: cs.preds.iter().any(|p| p.sizes().0 > LIMIT_NODES || p.sizes().1 > LIMIT_EDGES) },
        VSpec::Program(b) => Obs { addr: eh::content_addr(&Program(b.clone())).0, pre: Some(b.clone()), outside: false },
        VSpec::Solution(ss) => {
            let s = ss.build();
            Obs { addr: eh::content_addr(&s).0, pre: Some(eh::serialize(&s)), outside: false }
        }
        VSpec::Set(ss) => Obs { addr: eh::content_addr(&build_set(ss)).0, pre: None, outside: false },
    })
}

/// `a` and `b` are different values (as multisets for contracts and sets).
fn check_pair(a: &VSpec, oa: &Obs, b: &VSpec, ob: &Obs, how: &str, rep: &mut Report) {
    if oa.outside || ob.outside {
        rep.mask("pair involving an over-limit predicate (all-zero address): outside the quantifier");
        return;
    }
    let same_pre = oa.pre.is_some() && oa.pre == ob.pre;
    let same_addr = oa.addr == ob.addr;
    rep.eval(Some(hash_of(&(a, b))), hash_of(&(same_pre, same_addr)));
    if same_pre || same_addr {
        let f = if same_pre { "same_prehash_bytes" } else { "same_address" };
        let case = || json!({"kind": "pair", "a": a, "b": b, "how": how});
        fail(rep, "injective", &[a.kind().into(), format!("differs:{}", a.diff(b)), f.into()], &case, json!("different pre-hash bytes and different addresses"), json!({"address_a": hex::encode(oa.addr), "address_b": hex::encode(ob.addr), "prehash_a": oa.pre.as_deref().map(hx), "prehash_b": ob.pre.as_deref().map(hx)}), &|| match (a, b) {
            (VSpec::Solution(x), VSpec::Solution(y)) => format!("#[test]\nfn replay() {{\n    {USES}\n    let a = {};\n    let b = {};\n    assert_ne!(eh::content_addr(&a), eh::content_addr(&b));\n}}\n", x.expr(), y.expr()),
            (VSpec::Contract(x), VSpec::Contract(y)) => format!("#[test]\nfn replay() {{\n    {USES}\n    let a = {};\n    let b = {};\n    assert_ne!(eh::content_addr(&a), eh::content_addr(&b));\n}}\n", x.expr(), y.expr()),
            (VSpec::Pred(x), VSpec::Pred(y)) => format!("#[test]\nfn replay() {{\n    {USES}\n    let a = {};\n    let b = {};\n    assert_ne!(eh::content_addr(&a), eh::content_addr(&b));\n}}\n", x.expr(), y.expr()),
            _ => String::new(),
        });
    }
}

fn check_pair_cold(a: &VSpec, b: &VSpec, how: &str, rep: &mut Report) {
    if a.canon() == b.canon() {
        rep.mask("perturbation that leaves the value unchanged");
        return;
    }
    match (observe(a), observe(b)) {
        (Ok(oa), Ok(ob)) => check_pair(a, &oa, b, &ob, how, rep),
        (Err(e), _) | (_, Err(e)) => {
            rep.eval(Some(hash_of(&(a, b))), 0);
            panicked(rep, e, &|| json!({"kind": "pair", "a": a, "b": b, "how": how}));
        }
    }
}

// ---------------------------------------------------------------------------------------------
// Single-field perturbations

fn flip32(a: &H32, byte: usize, bit: u8) -> H32 {
    let mut b = a.0;
    b[byte] ^= 1 << bit;
    H32(b)
}

fn perturb_pred(ps: &PSpec) -> Vec<(String, PSpec)> {
    let PSpec::Lit { nodes, edges } = ps else { return vec![] };
    let mut out = vec![];
    let mk = |n: &Vec<(u16, H32)>, e: &Vec<u16>| PSpec::Lit { nodes: n.clone(), edges: e.clone() };
    for i in 0..nodes.len() {
        for x in [1u16, 0x100, 0xFFFF] {
            let mut n = nodes.clone();
            n[i].0 ^= x;
            out.push((format!("node[{i}].edge_start^={x:#x}"), mk(&n, edges)));
        }
        for byte in 0..32 {
            let mut n = nodes.clone();
            n[i].1 = flip32(&n[i].1, byte, if byte % 2 == 0 { 0 } else { 7 });
            out.push((format!("node[{i}].program_address[{byte}]"), mk(&n, edges)));
        }
        let mut n = nodes.clone();
        n.remove(i);
        out.push((format!("remove node[{i}]"), mk(&n, edges)));
    }
    for i in 0..edges.len() {
        for x in [1u16, 0x100, 0xFFFF] {
            let mut e = edges.clone();
            e[i] ^= x;
            out.push((format!("edge[{i}]^={x:#x}"), mk(nodes, &e)));
        }
        let mut e = edges.clone();
        e.remove(i);
        out.push((format!("remove edge[{i}]"), mk(nodes, &e)));
    }
    for extra in [(0u16, H32(ADDR_A)), (0xFFFF, H32(ADDR_B))] {
        let mut n = nodes.clone();
        n.push(extra);
        out.push(("append node".into(), mk(&n, edges)));
        let mut n = nodes.clone();
        n.insert(0, extra);
        out.push(("prepend node".into(), mk(&n, edges)));
    }
    for extra in [0u16, 0xFFFF] {
        let mut e = edges.clone();
        e.push(extra);
        out.push(("append edge".into(), mk(nodes, &e)));
    }
    if nodes.len() == 2 {
        out.push(("swap nodes".into(), mk(&vec![nodes[1], nodes[0]], edges)));
    }
    if edges.len() == 2 {
        out.push(("swap edges".into(), mk(nodes, &vec![edges[1], edges[0]])));
    }
    // move bytes across the node/edge boundary: one edge fewer/more with the same byte count elsewhere
    out
}

fn perturb_words(ws: &[Word]) -> Vec<Vec<Word>> {
    let mut out = vec![];
    for i in 0..ws.len() {
        let mut w = ws.to_vec();
        w[i] ^= 1;
        out.push(w);
        let mut w = ws.to_vec();
        w.remove(i);
        out.push(w);
    }
    let mut w = ws.to_vec();
    w.push(0);
    out.push(w);
    out
}

fn perturb_solution(s: &SSpec) -> Vec<(String, SSpec)> {
    let mut out = vec![];
    for byte in 0..32 {
        let bit = if byte % 2 == 0 { 0 } else { 7 };
        out.push((format!("contract[{byte}]"), SSpec { contract: flip32(&s.contract, byte, bit), ..s.clone() }));
        out.push((format!("predicate[{byte}]"), SSpec { predicate: flip32(&s.predicate, byte, bit), ..s.clone() }));
    }
    if s.contract != s.predicate {
        out.push(("swap contract/predicate".into(), SSpec { contract: s.predicate, predicate: s.contract, ..s.clone() }));
    }
    for i in 0..s.data.len() {
        for w in perturb_words(&s.data[i]) {
            let mut d = s.data.clone();
            d[i] = w;
            out.push((format!("predicate_data[{i}]"), SSpec { data: d, ..s.clone() }));
        }
        let mut d = s.data.clone();
        d.remove(i);
        out.push((format!("remove predicate_data[{i}]"), SSpec { data: d, ..s.clone() }));
    }
    for extra in [vec![], vec![1]] {
        let mut d = s.data.clone();
        d.push(extra.clone());
        out.push(("append predicate_data".into(), SSpec { data: d, ..s.clone() }));
        let mut d = s.data.clone();
        d.insert(0, extra);
        out.push(("prepend predicate_data".into(), SSpec { data: d, ..s.clone() }));
    }
    for i in 0..s.muts.len() {
        for k in perturb_words(&s.muts[i].0) {
            let mut m = s.muts.clone();
            m[i].0 = k;
            out.push((format!("state_mutations[{i}].key"), SSpec { muts: m, ..s.clone() }));
        }
        for v in perturb_words(&s.muts[i].1) {
            let mut m = s.muts.clone();
            m[i].1 = v;
            out.push((format!("state_mutations[{i}].value"), SSpec { muts: m, ..s.clone() }));
        }
        // move a word from the value to the key and vice versa (same words, different split)
        let (k, v) = &s.muts[i];
        if let Some((first, rest)) = v.split_first() {
            let mut m = s.muts.clone();
            m[i] = ([k.clone(), vec![*first]].concat(), rest.to_vec());
            out.push((format!("state_mutations[{i}] key/value split"), SSpec { muts: m, ..s.clone() }));
        }
        let mut m = s.muts.clone();
        m.remove(i);
        out.push((format!("remove state_mutations[{i}]"), SSpec { muts: m, ..s.clone() }));
    }
    let mut m = s.muts.clone();
    m.push((vec![], vec![]));
    out.push(("append state_mutation".into(), SSpec { muts: m, ..s.clone() }));
    if s.muts.len() == 2 {
        out.push(("swap state_mutations".into(), SSpec { muts: vec![s.muts[1].clone(), s.muts[0].clone()], ..s.clone() }));
        // the same words in the same order, every other split into key0 | value0 | key1 | value1
        let flat: Vec<Word> = s.muts.iter().flat_map(|(k, v)| k.iter().chain(v.iter()).copied().collect::<Vec<_>>()).collect();
        let n = flat.len();
        for a in 0..=n {
            for b in a..=n {
                for c in b..=n {
                    let m = vec![(flat[..a].to_vec(), flat[a..b].to_vec()), (flat[b..c].to_vec(), flat[c..].to_vec())];
                    if m != s.muts {
                        out.push(("state_mutations re-split".into(), SSpec { muts: m, ..s.clone() }));
                    }
                }
            }
        }
    }
    // move a word between predicate_data and the first mutation key
    if let (Some(last), Some(m0)) = (s.data.last(), s.muts.first()) {
        if let Some((w, rest)) = last.split_last() {
            let mut d = s.data.clone();
            *d.last_mut().unwrap() = rest.to_vec();
            let mut m = s.muts.clone();
            m[0] = ([vec![*w], m0.0.clone()].concat(), m0.1.clone());
            out.push(("move word predicate_data -> mutation key".into(), SSpec { data: d, muts: m, ..s.clone() }));
        }
    }
    out
}

fn perturb(v: &VSpec) -> Vec<(String, VSpec)> {
    match v {
        VSpec::Pred(p) => perturb_pred(p).into_iter().map(|(h, p)| (h, VSpec::Pred(p))).collect(),
        VSpec::Program(b) => {
            let mut out = vec![];
            let idx: Vec<usize> = if b.len() <= 8 { (0..b.len()).collect() } else { vec![0, 1, b.len() / 2, b.len() - 2, b.len() - 1] };
            for i in idx {
                for bit in 0..8 {
                    let mut c = b.clone();
                    c[i] ^= 1 << bit;
                    out.push((format!("byte[{i}] bit {bit}"), VSpec::Program(c)));
                }
            }
            let mut c = b.clone();
            c.push(0);
            out.push(("append 0".into(), VSpec::Program(c)));
            let mut c = b.clone();
            c.insert(0, 0);
            out.push(("prepend 0".into(), VSpec::Program(c)));
            if !b.is_empty() {
                out.push(("drop last".into(), VSpec::Program(b[..b.len() - 1].to_vec())));
            }
            out
        }
        VSpec::Solution(s) => perturb_solution(s).into_iter().map(|(h, s)| (h, VSpec::Solution(s))).collect(),
        VSpec::Contract(c) => {
            let mut out = vec![];
            for byte in 0..32 {
                out.push((format!("salt[{byte}]"), VSpec::Contract(CSpec { salt: flip32(&c.salt, byte, if byte % 2 == 0 { 0 } else { 7 }), ..c.clone() })));
            }
            for i in 0..c.preds.len() {
                for (h, p) in perturb_pred(&c.preds[i]).into_iter().filter(|(h, _)| !h.contains("program_address[") || h.ends_with("[0]") || h.ends_with("[31]")) {
                    let mut ps = c.preds.clone();
                    ps[i] = p;
                    out.push((format!("predicates[{i}]: {h}"), VSpec::Contract(CSpec { preds: ps, ..c.clone() })));
                }
                let mut ps = c.preds.clone();
                ps.remove(i);
                out.push((format!("remove predicates[{i}]"), VSpec::Contract(CSpec { preds: ps, ..c.clone() })));
                let mut ps = c.preds.clone();
                ps.push(c.preds[i].clone());
                out.push((format!("duplicate predicates[{i}]"), VSpec::Contract(CSpec { preds: ps, ..c.clone() })));
            }
            out
        }
        VSpec::Set(ss) => {
            let mut out = vec![];
            for i in 0..ss.len() {
                for (h, s) in perturb_solution(&ss[i]).into_iter().filter(|(h, _)| !(h.starts_with("contract[") || h.starts_with("predicate[")) || h.ends_with("[0]") || h.ends_with("[31]")) {
                    let mut v = ss.clone();
                    v[i] = s;
                    out.push((format!("solutions[{i}]: {h}"), VSpec::Set(v)));
                }
                let mut v = ss.clone();
                v.remove(i);
                out.push((format!("remove solutions[{i}]"), VSpec::Set(v)));
                let mut v = ss.clone();
                v.push(ss[i].clone());
                out.push((format!("duplicate solutions[{i}]"), VSpec::Set(v)));
            }
            out
        }
    }
}

// ---------------------------------------------------------------------------------------------
// Driver

fn salts(pool: &[PSpec]) -> Vec<H32> {
    // zero, and two salts that equal member addresses (so that a salt treated as one more sorted
    // member, or dropped, collides inside the enumerated domain)
    let addr = |p: &PSpec| {
        let (n, e) = p.parts();
        H32(sha256(&ref_encode_predicate(&n, &e).unwrap_or_default()))
    };
    vec![H32([0; 32]), addr(&pool[1]), addr(&pool[2])]
}

fn run(cfg: &RunCfg, rep: &mut Report) {
    let k = cfg.tier.pick(10, 20);
    let thorough = cfg.tier == Tier::Thorough;
    let mut next = {
        let mut ix = 0u64;
        move || {
            ix += 1;
            ix
        }
    };
    let mut preds = small_predicates();
    let n_small = preds.len();
    preds.extend(sized_predicates(&[0, 999, 1000, 1001]));
    let pool = contract_pool(k);
    let salts = salts(&pool);
    let mut contracts: Vec<CSpec> = vec![];
    for ms in multisets(k, 3) {
        for s in &salts {
            contracts.push(CSpec { preds: ms.iter().map(|&i| pool[i].clone()).collect(), salt: *s });
        }
    }
    let sols = small_solutions();
    let spool = solution_pool(k);
    let sets: Vec<Vec<SSpec>> = multisets(k, 3).into_iter().map(|ms| ms.iter().map(|&i| spool[i].clone()).collect()).collect();
    let programs = small_programs();

    let mut kinds: Vec<(&str, Vec<VSpec>)> = vec![
        ("predicate", preds.iter().cloned().map(VSpec::Pred).collect()),
        ("program", programs.iter().cloned().map(VSpec::Program).collect()),
        ("solution", sols.iter().cloned().map(VSpec::Solution).collect()),
        ("contract", contracts.iter().cloned().map(VSpec::Contract).collect()),
        ("set", sets.iter().cloned().map(VSpec::Set).collect()),
    ];
    // the table of every kind must consist of pairwise different values
    for (name, vs) in kinds.iter_mut() {
        let mut seen = std::collections::HashSet::new();
        let before = vs.len();
        vs.retain(|v| seen.insert(v.canon()));
        if vs.len() != before {
            rep.notes.push(format!("{name}: {} duplicate values removed from the enumeration", before - vs.len()));
        }
    }
    rep.bound_completed = format!(
        "{} predicates ({n_small} small + 15 sized), {} programs, {} solutions, {} contracts (pool {k}, <=3 members, 3 salts), {} sets (pool {k}, <=3 members); every distinct permutation, every single-field perturbation, all pairs per kind{}",
        kinds[0].1.len(),
        kinds[1].1.len(),
        kinds[2].1.len(),
        kinds[3].1.len(),
        kinds[4].1.len(),
        if thorough { "; plus all contracts of 1..2 members over the 559 small predicates x 3 salts" } else { "" }
    );

    for (name, vs) in &kinds {
        // every worker needs every address of the kind for the pair phase (cheap); only the
        // owner of a value counts and reports its per-value checks
        let table: Vec<Option<Obs>> = vs.iter().map(|v| observe(v).ok()).collect();
        for (i, v) in vs.iter().enumerate() {
            wal::tick();
            if !cfg.mine(next()) {
                continue;
            }
            check_value(v, rep);
            if i % 97 == 3 {
                rep.sample(|| json!({"kind": name, "value": v}));
            }
            for (how, v2) in perturb(v) {
                check_pair_cold(v, &v2, &how, rep);
            }
            let Some(oi) = &table[i] else { continue };
            for j in (i + 1)..vs.len() {
                if let Some(oj) = &table[j] {
                    check_pair(v, oi, &vs[j], oj, "enumerated pair", rep);
                }
            }
        }
    }
    if thorough {
        let small = &preds[..n_small];
        for (i, p) in small.iter().enumerate() {
            wal::tick();
            if !cfg.mine(next()) {
                continue;
            }
            for q in &small[i..] {
                for (si, s) in salts.iter().enumerate() {
                    check_value(&VSpec::Contract(CSpec { preds: vec![p.clone(), q.clone()], salt: *s }), rep);
                    if si == 0 && std::ptr::eq(p, q) {
                        check_value(&VSpec::Contract(CSpec { preds: vec![p.clone()], salt: *s }), rep);
                    }
                }
            }
        }
    }
}

fn replay(case: &Value) -> Result<bool, String> {
    let mut rep = Report::new();
    let get = |k: &str| -> Result<VSpec, String> { serde_json::from_value(case[k].clone()).map_err(|e| format!("{k}: {e}")) };
    match case["kind"].as_str() {
        Some("value") => check_value(&get("value")?, &mut rep),
        Some("pair") => check_pair_cold(&get("a")?, &get("b")?, case["how"].as_str().unwrap_or(""), &mut rep),
        other => return Err(format!("unknown case kind {other:?}")),
    }
    Ok(!rep.violations.is_empty())
}
