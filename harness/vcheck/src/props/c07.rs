//! C07 — gas is accounted exactly and the total limit is never exceeded.
use super::progx::{self, Px};
use crate::fw::*;
use crate::refvm::RVm;
use crate::util::*;
use crate::PropSpec;
use essential_asm::{self as asm, Op};
use serde_json::{json, Value};

pub fn spec() -> PropSpec {
    PropSpec {
        id: "C07",
        level: "model_checking",
        rule: "hole-program exploration through the real exec loop: all programs of length <= L (quick 5, thorough 7) over {Push c, Pop, Dup, JumpIf, Halt, Repeat, RepeatEnd, Compute, ComputeEnd, Alloc}, for every (cost function, total limit) configuration: small limits {0,1,2,3,5,8,13,21} x {const 1, const 2, Push free, Compute heavy}; zero cost and huge costs/limits {2^62, MAX} x {2^63, MAX-1, MAX}, and 'only Pop costs' {2^62, 2^63, MAX} x the same limits (a Compute reached with the whole budget left), over the loop-free sub-alphabet; directed breadth 50 and 1000; both arithmetic profiles. Oracle = reference with one shared running total in u128. states = distinct (program, configuration), transitions = reference steps. non-trivial = reference executed >= 2 ops",
        assumptions: &[
            "a ComputeEnd met by a non-child VM is not specified (masked)",
            "when a Compute fails, whether the surfaced failure is out-of-gas or a child's own error is not specified (children run concurrently); only Err-at-the-Compute is compared",
            "zero-cost and 2^63-limit configurations use the loop-free alphabet (no backward jumps): termination is only promised for positive costs and a finite limit",
        ],
        run,
        replay,
        describe_wal: Some(progx::wal_describe),
        run_wal: Some(progx::wal_run),
        both_profiles: true,
        workers: 0,
    }
}

fn alphabet(loop_free: bool) -> Vec<Op> {
    let consts: &[i64] = if loop_free { &[0, 1, 2, 3] } else { &[-2, -1, 0, 1, 2, 3] };
    let mut a: Vec<Op> = consts.iter().map(|&c| Op::Stack(asm::Stack::Push(c))).collect();
    a.extend([
        Op::Stack(asm::Stack::Pop),
        Op::Stack(asm::Stack::Dup),
        Op::TotalControlFlow(asm::TotalControlFlow::JumpIf),
        Op::TotalControlFlow(asm::TotalControlFlow::Halt),
        Op::Stack(asm::Stack::Repeat),
        Op::Stack(asm::Stack::RepeatEnd),
        Op::Compute(asm::Compute::Compute),
        Op::Compute(asm::Compute::ComputeEnd),
        Op::Memory(asm::Memory::Alloc),
    ]);
    a
}

pub fn configs(tier: Tier) -> Vec<(Cost, u64, bool, usize)> {
    // (cost, limit, loop_free alphabet, program length)
    let (l_small, l_big) = tier.pick((5, 4), (7, 6));
    let mut v = vec![];
    for &limit in &[0u64, 1, 2, 3, 5, 8, 13, 21] {
        for cost in [Cost::Const(1), Cost::Const(2), Cost::PushFree, Cost::ComputeHeavy] {
            v.push((cost, limit, false, l_small));
        }
    }
    for &limit in &[0u64, 5] {
        v.push((Cost::Const(0), limit, true, l_big));
    }
    for &limit in &[1u64 << 63, u64::MAX - 1, u64::MAX] {
        for cost in [Cost::Const(1), Cost::Const(1 << 62), Cost::Const(u64::MAX), Cost::Const(0)] {
            v.push((cost, limit, true, l_big));
        }
    }
    // only Pop costs: the Compute is reached with the whole budget left, the children's sum
    // meets / exceeds / overflows it
    for &limit in &[1u64 << 63, u64::MAX - 1, u64::MAX] {
        for cost in [Cost::PopHeavy(1 << 62), Cost::PopHeavy(1 << 63), Cost::PopHeavy(u64::MAX)] {
            v.push((cost, limit, true, l_big));
        }
    }
    if tier == Tier::Thorough {
        v.push((Cost::Const(1), 34, false, 7));
        v.push((Cost::Const(1), 55, false, 7));
    }
    v
}

fn directed(cfg: &RunCfg, rep: &mut Report) {
    use asm::{Compute as C, Stack as S};
    let push = |c| Op::Stack(S::Push(c));
    let mut n = 0u64;
    for breadth in [50i64, 1000] {
        for limit in [200u64, 5_000, 1_000_000] {
            for cost in [Cost::Const(1), Cost::ComputeHeavy] {
                n += 1;
                if !cfg.mine(n) {
                    continue;
                }
                // each child: 3 x (push pop) loop then ComputeEnd
                let ops = vec![
                    push(breadth),
                    Op::Compute(C::Compute),
                    push(3),
                    push(1),
                    Op::Stack(S::Repeat),
                    push(7),
                    Op::Stack(S::Pop),
                    Op::Stack(S::RepeatEnd),
                    Op::Compute(C::ComputeEnd),
                    push(1),
                ];
                let env = ProgEnv::basic(cost, limit);
                let init = RVm::default();
                let h = Holey { ops: std::sync::Arc::new(ops.iter().cloned().map(Some).collect()) };
                let real = run_real_with(&init, h.clone(), &env, false);
                let rf = run_ref(&init, &h, &env);
                let px = Px { prop: "C07", alphabet: &[], len: ops.len(), init: &init, env: &env, label: format!("directed:breadth{breadth}/{cost:?}/limit{limit}"), mask_stray_compute_end: true };
                let run = progx::PxRun { ops: ops.into_iter().map(Some).collect(), real, rf, real_execs: 1 };
                audit(&px, &run, rep);
                px.visit(&crate::xplore::Ctx::new(vec![]), run, rep);
            }
        }
    }
}

/// Independent upper bound: a successful run never reports more than the limit.
fn audit(px: &Px, run: &progx::PxRun, rep: &mut Report) {
    if let RealOut::Ok { gas, .. } = &run.real {
        if *gas > px.env.limit {
            let sig = Signature::new("C07", "gas.limit_exceeded").feat(if run.rf.stats.computes > 0 { "has_op:Compute" } else { "no_compute" });
            let key = sig.key();
            rep.violate(
                || viol(sig, px.case_json(run), json!(format!("gas <= {}", px.env.limit)), json!(format!("Ok({gas})")), String::new()),
                Some(&key),
            );
        }
    }
}

fn run(cfg: &RunCfg, rep: &mut Report) {
    let cfgs = configs(cfg.tier);
    rep.bound_completed = format!("{} (cost,limit) configurations, program length <= {}", cfgs.len(), cfgs.iter().map(|c| c.3).max().unwrap());
    let init = RVm::default();
    for (cost, limit, loop_free, len) in cfgs {
        let alpha = alphabet(loop_free);
        let env = ProgEnv::basic(cost, limit);
        let px = Px { prop: "C07", alphabet: &alpha, len, init: &init, env: &env, label: format!("{cost:?}/limit{limit}/len{len}"), mask_stray_compute_end: true };
        px.explore(cfg, rep, &mut |px, run, rep| audit(px, run, rep));
    }
    directed(cfg, rep);
    rep.states = rep.nontrivial_evals; // every completed program is distinct by construction (dead-code equivalence)
}

fn replay(case: &Value) -> Result<bool, String> {
    progx::replay_prog("C07", case)
}
