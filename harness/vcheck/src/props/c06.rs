//! C06 — checker and decoders are total on untrusted input.
use crate::ckh::*;
use crate::fw::*;
use crate::refvm::W;
use crate::util::{MAX, MIN};
use crate::PropSpec;
use essential_types::predicate::Predicate;
use essential_types::solution::decode::{decode_mutation, decode_mutations};
use serde_json::{json, Value};

pub fn spec() -> PropSpec {
    PropSpec {
        id: "C06",
        level: "exploration",
        rule: "decode_mutation / decode_mutations: all word strings of length <= 4 (thorough 6) over {MIN,-1,0,1,2,3,5,MAX}; Predicate::decode, asm::from_bytes, BytecodeMapped::try_from: all byte strings of length <= 2 over all 256 values, all strings of <= 3 (thorough 4) symbols over {opcode bytes, 0x00, 0x0F, 0xFF}, structure-aware predicate blobs (num_nodes and num_edges in {0,1,2,1000,1001,65535}, every truncation point up to 80 bytes and at every field boundary); Predicate::node_edges on every C01 encoding x node index {0..n+1, usize::MAX}; predicate::check / check_contract on size-limit shapes; every C01 graph encoding (cyclic, dangling, malformed included) through check_set, the two-pass entry point and both run modes; node programs that are arbitrary byte strings (truncated Push at every cut, invalid opcodes) through the same entry points and the raw-byte effect scan; data-output leaves whose memory is each enumerated word string; pre/post reads with counts {0,1,2,10241,2^31,MAX} with the contract present/absent in the post state; a pre-state that answers a read with fewer values than asked. Oracle: returns Ok or a typed Err — no panic (catch_unwind), no abort and no run-away (worker processes under an 8 GiB address-space limit and a 120 s per-case horizon; a dead worker's write-ahead case is re-run alone twice and reported when it dies both times). Both arithmetic profiles. non-trivial = the decoder/check returned Ok; distinct by input",
        assumptions: &[
            "a GetProgram/GetPredicate that lacks a requested address, and calling check_set_predicates on a set check_set rejects, are documented preconditions (not exercised)",
            "'abort on allocation' is observed under an 8 GiB address-space limit; 'run-away' means no new case started for 120 s (quick) / 600 s (thorough)",
        ],
        run,
        replay,
        describe_wal: Some(describe_wal),
        run_wal: Some(run_wal),
        both_profiles: true,
        workers: 0,
    }
}

const WORDS: [W; 8] = [MIN, -1, 0, 1, 2, 3, 5, MAX];

fn panic_violation(kind: &str, case: Value, site: String, msg: String, rep: &mut Report) {
    let sig = Signature::new("C06", "no_panic").site(format!("{site}: {msg}")).feat(format!("entry:{kind}"));
    let key = sig.key();
    rep.violate(|| viol(sig, case, json!("Ok or typed Err"), json!(format!("panic at {site}: {msg}")), String::new()), Some(&key));
}

fn words_case(ws: &[W], rep: &mut Report) {
    let mut wal = vec![b'M'];
    wal.extend(ws.iter().flat_map(|w| w.to_le_bytes()));
    wal::set(&wal);
    let a = catch(|| decode_mutation(ws).is_ok());
    let b = catch(|| decode_mutations(ws).is_ok());
    let mut ok = false;
    for (name, r) in [("decode_mutation", a), ("decode_mutations", b)] {
        match r {
            Ok(x) => ok |= x,
            Err((site, msg)) => panic_violation(name, json!({"kind": "words", "words": ws}), site, msg, rep),
        }
    }
    rep.eval(if ok { Some(hash_of(ws)) } else { None }, hash_of(&(ok, ws.len())));
}

fn bytes_case(bs: &[u8], rep: &mut Report) {
    let mut wal = vec![b'B'];
    wal.extend(bs);
    wal::set(&wal);
    let mut ok = false;
    let p = catch(|| Predicate::decode(bs).map(|p| (p.nodes.len(), p.edges.len())).ok());
    let f = catch(|| essential_asm::from_bytes(bs.iter().copied()).collect::<Result<Vec<_>, _>>().is_ok());
    let m = catch(|| essential_vm::BytecodeMapped::try_from(bs).is_ok());
    let mo = catch(|| essential_vm::BytecodeMapped::try_from(bs.to_vec()).is_ok());
    // the raw-byte effect scan runs over every submitted program before it is parsed
    let sc = catch(|| essential_asm::effects::bytes_contains_any(bs, essential_asm::effects::Effects::all()));
    if let Err((s, m)) = sc {
        panic_violation("effects::bytes_contains_any", json!({"kind": "bytes", "bytes_hex": hex::encode(bs)}), s, m, rep);
    }
    match p {
        Ok(x) => ok |= x.is_some(),
        Err((s, m)) => panic_violation("Predicate::decode", json!({"kind": "bytes", "bytes_hex": hex::encode(bs)}), s, m, rep),
    }
    for (name, r) in [("asm::from_bytes", f), ("BytecodeMapped::try_from(&[u8])", m), ("BytecodeMapped::try_from(Vec<u8>)", mo)] {
        match r {
            Ok(x) => ok |= x,
            Err((s, m)) => panic_violation(name, json!({"kind": "bytes", "bytes_hex": hex::encode(bs)}), s, m, rep),
        }
    }
    rep.eval(if ok { Some(hash_of(bs)) } else { None }, hash_of(&(ok, bs.len())));
}

fn pred_blobs(mut f: impl FnMut(Vec<u8>)) {
    let sizes = [0u16, 1, 2, 1000, 1001, 65535];
    for &nn in &sizes {
        for &ne in &sizes {
            // header claims nn nodes / ne edges; the body really holds min(nn, 3) / min(ne, 3)
            for real_n in [0usize, (nn as usize).min(3)] {
                for real_e in [0usize, (ne as usize).min(3)] {
                    let mut b = nn.to_be_bytes().to_vec();
                    for i in 0..real_n {
                        b.extend((i as u16).to_be_bytes());
                        b.extend([i as u8 + 1; 32]);
                    }
                    b.extend(ne.to_be_bytes());
                    for i in 0..real_e {
                        b.extend((i as u16).to_be_bytes());
                    }
                    for cut in 0..=b.len().min(80) {
                        f(b[..cut].to_vec());
                    }
                    f(b.clone());
                }
            }
            // fully populated
            if nn <= 1001 && ne <= 1001 {
                let mut b = nn.to_be_bytes().to_vec();
                for i in 0..nn as usize {
                    b.extend((i as u16).to_be_bytes());
                    b.extend([7u8; 32]);
                }
                b.extend(ne.to_be_bytes());
                for i in 0..ne as usize {
                    b.extend((i as u16).to_be_bytes());
                }
                let l = b.len();
                f(b.clone());
                if l > 3 {
                    f(b[..l - 1].to_vec());
                    f(b[..l - 2].to_vec());
                    f(b[..l / 2].to_vec());
                }
            }
        }
    }
}

/// Totality of every checker entry point on one case.
fn checker_case(case: &CkCase, rep: &mut Report) {
    let mut wal = vec![b'K'];
    wal.extend(serde_json::to_vec(case).unwrap_or_default());
    wal::set(&wal);
    let b = build(case);
    let mut ok = false;
    let cj = || json!({"kind": "ck", "case": case});
    match catch(|| essential_check::solution::check_set(&b.set).is_ok()) {
        Ok(x) => ok |= x,
        Err((s, m)) => panic_violation("check_set", cj(), s, m, rep),
    }
    for p in &b.preds {
        if let Err((s, m)) = catch(|| essential_check::predicate::check(p).is_ok()) {
            panic_violation("predicate::check", cj(), s, m, rep);
        }
        let n = p.nodes.len();
        for ix in (0..=n + 1).chain([usize::MAX]) {
            if let Err((s, m)) = catch(|| p.node_edges(ix).map(|e| e.len())) {
                panic_violation("node_edges", cj(), s, m, rep);
            }
        }
    }
    let contract: Vec<Predicate> = b.preds.iter().map(|p| (**p).clone()).collect();
    if let Err((s, m)) = catch(|| essential_check::predicate::check_contract(&contract).is_ok()) {
        panic_violation("check_contract", cj(), s, m, rep);
    }
    let r = run_two_pass(case, &b);
    match &r.out {
        CkOut::Panic { site, msg } => panic_violation("check_and_compute_solution_set_two_pass", cj(), site.clone(), msg.clone(), rep),
        CkOut::Ok { .. } => ok = true,
        _ => {}
    }
    let m = run_modes(case, &b, &|_| Default::default());
    for (name, r) in [("check_set_predicates(Outputs)", m.pass1.as_ref().err()), ("check_set_predicates(Checks)", m.pass2.as_ref().and_then(|p| p.as_ref().err()))] {
        if let Some(CkOut::Panic { site, msg }) = r {
            panic_violation(name, cj(), site.clone(), msg.clone(), rep);
        }
    }
    rep.eval(if ok { Some(hash_of(case)) } else { None }, hash_of(&r.out));
}

fn raw_output_case(words: &[W], declared: bool) -> CkCase {
    CkCase {
        preds: vec![PredCase { nodes: vec![(u16::MAX, Role::LeafRaw(words.to_vec()))], edges: vec![] }],
        sols: vec![SolCase { pred: 0, contract: 0xC1, data: vec![], mutations: if declared { vec![(vec![5], vec![1])] } else { vec![] } }],
        pre: vec![],
        strict: false, short: false,
        collect_all: false,
    }
}

fn read_count_cases() -> Vec<CkCase> {
    let mut v = vec![];
    for op in 0..4u8 {
        for count in [0, 1, 2, 10241, 1i64 << 31, MAX] {
            for present in [false, true] {
                for ext in [0xC1u8, 0xC5] {
                    if (op == 0 || op == 2) && ext != 0xC1 {
                        continue;
                    }
                    let probe = Role::Probe { op, ext, key: vec![3], count };
                    v.push(CkCase {
                        preds: vec![PredCase { nodes: vec![(u16::MAX, probe)], edges: vec![] }],
                        sols: vec![SolCase { pred: 0, contract: 0xC1, data: vec![], mutations: if present { vec![(vec![3], vec![8])] } else { vec![] } }],
                        pre: vec![(0xC1, vec![3], vec![5]), (0xC5, vec![3], vec![6])],
                        strict: false, short: false,
                        collect_all: false,
                    });
                }
            }
        }
    }
    v
}

fn short_answer_cases() -> Vec<CkCase> {
    let mut v = vec![];
    for op in 0..4u8 {
        for count in [0, 1, 2, 3] {
            for muts in [vec![], vec![(vec![4], vec![8])], vec![(vec![3], vec![8])]] {
                v.push(CkCase {
                    preds: vec![PredCase { nodes: vec![(u16::MAX, Role::Probe { op, ext: 0xC1, key: vec![3], count })], edges: vec![] }],
                    sols: vec![SolCase { pred: 0, contract: 0xC1, data: vec![], mutations: muts }],
                    pre: vec![(0xC7, vec![3], vec![5])],
                    strict: false,
                    short: true,
                    collect_all: false,
                });
            }
        }
    }
    v
}

fn for_word_strings(maxlen: usize, mut f: impl FnMut(u64, &[W])) {
    let mut idx = 0u64;
    f(idx, &[]);
    for len in 1..=maxlen {
        let mut ix = vec![0usize; len];
        loop {
            let ws: Vec<W> = ix.iter().map(|&i| WORDS[i]).collect();
            idx += 1;
            f(idx, &ws);
            let mut k = 0;
            while k < len {
                ix[k] += 1;
                if ix[k] < WORDS.len() {
                    break;
                }
                ix[k] = 0;
                k += 1;
            }
            if k == len {
                break;
            }
        }
    }
}

fn run(cfg: &RunCfg, rep: &mut Report) {
    let wl = cfg.tier.pick(4, 6);
    let sl = cfg.tier.pick(3, 4);
    let (gn, ge) = cfg.tier.pick((3, 2), (3, 3));
    rep.bound_completed = format!("word strings <= {wl}; byte strings <= 2 over all bytes, symbol strings <= {sl}; predicate blobs; checker on all encodings n <= {gn}, E <= {ge}; raw data outputs = word strings <= {}; read counts up to i64::MAX", wl.min(5));
    // 1. mutation decoders
    for_word_strings(wl, |i, ws| {
        if cfg.mine(i / 64) {
            words_case(ws, rep);
        }
    });
    rep.sample(|| json!({"decode_mutations": [1, 1, 5], "note": "every word string over {MIN,-1,0,1,2,3,5,MAX}"}));
    // 2. byte decoders
    let mut n = 0u64;
    for a in 0..=255u8 {
        n += 1;
        if !cfg.mine(n) {
            continue;
        }
        bytes_case(&[a], rep);
        for b in 0..=255u8 {
            bytes_case(&[a, b], rep);
        }
    }
    let mut sy: Vec<u8> = crate::refvm::all_ops().iter().map(|o| essential_asm::to_bytes([o.clone()]).next().unwrap()).collect();
    sy.extend([0x00, 0x0F, 0xFF]);
    for &a in &sy {
        n += 1;
        if !cfg.mine(n) {
            continue;
        }
        for &b in &sy {
            for &c in &sy {
                bytes_case(&[a, b, c], rep);
                if sl >= 4 {
                    for &d in &sy {
                        bytes_case(&[a, b, c, d], rep);
                    }
                }
            }
        }
    }
    pred_blobs(|b| {
        n += 1;
        if cfg.mine(n) {
            bytes_case(&b, rep);
        }
    });
    rep.sample(|| json!({"predicate_blob": "num_nodes=1001 num_edges=65535, truncated at every point"}));
    // 3. checker on every graph encoding
    let mut idx = 0u64;
    for nn in 1..=gn {
        for e in 0..=ge {
            super::c01::encodings(nn, e, |starts, edges| {
                idx += 1;
                if !cfg.mine(idx) {
                    return;
                }
                // base role assignment and one with a failing / post-reading node
                let roles = super::c01::role_assignments(starts, edges);
                for r in roles.into_iter().step_by(3) {
                    let p = PredCase { nodes: starts.iter().cloned().zip(r).collect(), edges: edges.to_vec() };
                    for collect_all in [false, true] {
                        let case = CkCase { preds: vec![p.clone()], sols: vec![SolCase { pred: 0, contract: 0xC1, data: vec![], mutations: vec![] }, SolCase { pred: 0, contract: 0xC2, data: vec![], mutations: vec![(vec![1], vec![2])] }], pre: vec![], strict: false, short: false, collect_all };
                        checker_case(&case, rep);
                    }
                }
            });
        }
    }
    // 3b. programs that are arbitrary byte strings (truncated Push, invalid opcodes, ...)
    {
        let mut progs: Vec<Vec<u8>> = vec![vec![], vec![0x01], vec![0xFF], vec![0x00]];
        for a in [0x01u8, 0x02, 0x60, 0x82, 0x90, 0x91, 0xFF] {
            for b in [0x01u8, 0x02, 0x82, 0x00] {
                progs.push(vec![a, b]);
                for cut in 0..=9usize {
                    // a, then a Push whose immediate is cut after `cut` bytes, optionally preceded by b
                    let mut p = vec![a, 0x01];
                    p.extend(std::iter::repeat(b).take(cut.min(8)));
                    progs.push(p.clone());
                    p.insert(0, b);
                    progs.push(p);
                }
            }
        }
        for (i, bytes) in progs.into_iter().enumerate() {
            if !cfg.mine(i as u64) {
                continue;
            }
            for leaf in [true, false] {
                let l = u16::MAX;
                let p = if leaf {
                    PredCase { nodes: vec![(l, Role::RawBytes(bytes.clone()))], edges: vec![] }
                } else {
                    PredCase { nodes: vec![(0, Role::RawBytes(bytes.clone())), (l, Role::LeafDump)], edges: vec![1] }
                };
                for collect_all in [false, true] {
                    checker_case(&CkCase { preds: vec![p.clone()], sols: vec![SolCase { pred: 0, contract: 0xC1, data: vec![], mutations: vec![] }], pre: vec![], strict: false, short: false, collect_all }, rep);
                }
            }
        }
        rep.sample(|| json!({"program_bytes_hex": "0101", "note": "Push cut after 1 immediate byte, as a node program"}));
    }
    // 4. arbitrary data outputs
    for_word_strings(wl.min(5), |i, ws| {
        if cfg.mine(i / 16) {
            checker_case(&raw_output_case(ws, false), rep);
            if i % 7 == 0 {
                checker_case(&raw_output_case(ws, true), rep);
            }
        }
    });
    rep.sample(|| json!({"data_output_memory": [1, 1, 5], "via": "leaf program ending with [2]"}));
    // 5. read counts chosen by a program
    for (i, c) in read_count_cases().into_iter().enumerate() {
        if cfg.mine(i as u64) {
            rep.sample(|| json!({"read_count_case": c.preds[0].nodes[0].1}));
            checker_case(&c, rep);
        }
    }
    // 6. a state that answers with fewer values than asked (none, for a contract it has never seen)
    for (i, c) in short_answer_cases().into_iter().enumerate() {
        if cfg.mine(i as u64) {
            checker_case(&c, rep);
        }
    }
    wal::clear();
}

fn describe_wal(b: &[u8]) -> Value {
    match b.first() {
        Some(b'M') => {
            let ws: Vec<W> = b[1..].chunks_exact(8).map(|c| W::from_le_bytes(c.try_into().unwrap())).collect();
            json!({"decode_mutation(s)": ws})
        }
        Some(b'B') => json!({"bytes_hex": hex::encode(&b[1..])}),
        Some(b'K') => serde_json::from_slice::<Value>(&b[1..]).map(|c| json!({"checker_case": c})).unwrap_or(json!("undecodable")),
        _ => json!("?"),
    }
}

fn run_wal(b: &[u8]) {
    let mut rep = Report::new();
    match b.first() {
        Some(b'M') => {
            let ws: Vec<W> = b[1..].chunks_exact(8).map(|c| W::from_le_bytes(c.try_into().unwrap())).collect();
            words_case(&ws, &mut rep);
        }
        Some(b'B') => bytes_case(&b[1..], &mut rep),
        Some(b'K') => {
            if let Ok(c) = serde_json::from_slice::<CkCase>(&b[1..]) {
                checker_case(&c, &mut rep);
            }
        }
        _ => {}
    }
    if !rep.violations.is_empty() {
        panic!("violation");
    }
}

fn replay(case: &Value) -> Result<bool, String> {
    let mut rep = Report::new();
    match case["kind"].as_str() {
        Some("words") => {
            let ws: Vec<W> = serde_json::from_value(case["words"].clone()).map_err(|e| e.to_string())?;
            words_case(&ws, &mut rep);
        }
        Some("bytes") => bytes_case(&hex::decode(case["bytes_hex"].as_str().ok_or("bytes_hex")?).map_err(|e| e.to_string())?, &mut rep),
        Some("ck") => {
            let c: CkCase = serde_json::from_value(case["case"].clone()).map_err(|e| e.to_string())?;
            checker_case(&c, &mut rep);
        }
        _ => return Err("unknown case kind".into()),
    }
    Ok(!rep.violations.is_empty())
}
