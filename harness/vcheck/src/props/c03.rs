//! C03 — post-state reads see pre-state overlaid with all of the set's mutations.
use super::c01::run_case;
use crate::ckh::*;
use crate::fw::*;
use crate::refvm::W;
use crate::util::{MAX, MIN};
use crate::PropSpec;
use serde_json::{json, Value};

pub fn spec() -> PropSpec {
    PropSpec {
        id: "C03",
        level: "model_checking",
        rule: "enumeration of (pre-state: empty / populated over 2 contracts with keys of different lengths incl. [MAX], [0,MAX], [] / partial state erroring on unknown contracts) x declared mutation sets (none, value, deletion, two keys, carry target [1,MIN], empty key) x computed mutations from a first-pass data-output leaf (none, fresh key, key colliding with a declared one) x read request (4 read ops x contract {own, other mutated, other unmutated, unknown} x start key {[0],[1],[2],[MAX],[MAX-1],[0,MAX],[MAX,MAX],[1,MIN],[0,0,MAX],[]} x count {0..4 (thorough 5)} x (thorough) a third solution of the reader's contract mutating fresh keys) x placement of the reading node (single leaf, root, inner, diamond with one deferred and one non-deferred parent, non-topological chain 2->1->0); plus pairs of readers of one start key with different counts/views in one graph level and in two solutions through the two-pass entry point and the two run modes by hand. Oracle: every value returned to a read, echoed back through a pre-state read, equals the overlay reference; pass attribution from the echo order and from the per-call logs; verdict/gas/mutations as in C01. states = distinct cases, transitions = echo records observed. non-trivial = some read op executed; distinct by full case",
        assumptions: &[
            "the mock state's key successor and 'range read = iterated single reads' convention (that of the repository's own test state)",
            "fallback reads that the post-state overlay issues against the pre-state are implementation detail and not compared; only what the program receives is",
        ],
        run,
        replay,
        describe_wal: None,
        run_wal: None,
        both_profiles: false,
        workers: 0,
    }
}

fn enc(muts: &[(Vec<W>, Vec<W>)]) -> Vec<W> {
    let mut v = vec![muts.len() as W];
    for (k, val) in muts {
        v.push(k.len() as W);
        v.extend(k);
        v.push(val.len() as W);
        v.extend(val);
    }
    v
}

fn placements(probe: Role) -> Vec<PredCase> {
    let l = u16::MAX;
    vec![
        // single leaf
        PredCase { nodes: vec![(l, probe.clone())], edges: vec![] },
        // root probe -> dump leaf
        PredCase { nodes: vec![(0, probe.clone()), (l, Role::LeafDump)], edges: vec![1] },
        // tracer -> probe -> true leaf
        PredCase { nodes: vec![(0, Role::Tracer), (1, probe.clone()), (l, Role::LeafTrue)], edges: vec![1, 2] },
        // diamond: 0 -> {1 probe, 2 tracer} -> 3 dump
        PredCase { nodes: vec![(0, Role::Tracer), (2, probe.clone()), (3, Role::Tracer), (l, Role::LeafDump)], edges: vec![1, 2, 3, 3] },
        // non-topological chain 2 -> 1 -> 0 with the probe at 2
        PredCase { nodes: vec![(l, Role::LeafDump), (0, Role::Tracer), (1, probe.clone())], edges: vec![0, 1] },
    ]
}

fn pre_states() -> Vec<(Vec<(u8, Vec<W>, Vec<W>)>, bool)> {
    let populated = vec![
        (0xC1, vec![0], vec![5]),
        (0xC1, vec![1], vec![5, 6]),
        (0xC1, vec![MAX], vec![5]),
        (0xC1, vec![0, MAX], vec![5, 6]),
        (0xC1, vec![1, MIN], vec![6]),
        (0xC1, vec![], vec![5]),
        (0xC2, vec![0], vec![9]),
        (0xC2, vec![2], vec![5]),
        (0xC3, vec![0], vec![1, 1]),
        (0xC3, vec![1], vec![2]),
    ];
    vec![(vec![], false), (populated.clone(), false), (populated, true)]
}

/// States that answer reads of unknown contracts with a short (empty) answer. NOT part of C03's
/// run: such a state breaks the stated assumption 'a range read is the iteration of single
/// reads', so the overlay reference has no defined expectation for it (the implementation passes
/// the short answer through for unmutated contracts and pads per key for mutated ones). The
/// totality side of it is exercised by C06.
#[allow(dead_code)]
fn short_state_cases(mut f: impl FnMut(u64, CkCase)) {
    let mut i = 9_000_000u64;
    for op in [2u8, 3, 0, 1] {
        for key in [vec![0], vec![1]] {
            for count in [1, 2, 3] {
                for declared in [vec![(vec![1], vec![7])], vec![(vec![0], vec![7]), (vec![2], vec![8])], vec![]] {
                    for p in placements(Role::Probe { op, ext: 0xC1, key: key.clone(), count }).into_iter().take(3) {
                        i += 1;
                        // the pre-state only knows contract C3: C1 is "freshly deployed"
                        f(i, CkCase { preds: vec![p], sols: vec![SolCase { pred: 0, contract: 0xC1, data: vec![], mutations: declared.clone() }], pre: vec![(0xC3, vec![0], vec![1])], strict: false, short: true, collect_all: false });
                    }
                }
            }
        }
    }
}

fn declared_menu() -> Vec<Vec<(Vec<W>, Vec<W>)>> {
    vec![
        vec![],
        vec![(vec![0], vec![7])],
        vec![(vec![1], vec![])],
        vec![(vec![0], vec![7]), (vec![0, MAX], vec![8])],
        vec![(vec![MAX], vec![7, 7])],
        vec![(vec![1, MIN], vec![7])],
        vec![(vec![], vec![7])],
    ]
}

fn cases(tier: Tier, mut f: impl FnMut(u64, CkCase)) {
    let mut i = 0u64;
    let counts: &[W] = if tier == Tier::Thorough { &[0, 1, 2, 3, 4, 5] } else { &[0, 1, 2, 3, 4] };
    let keys: Vec<Vec<W>> = vec![vec![0], vec![1], vec![MAX], vec![0, MAX], vec![MAX, MAX], vec![], vec![2], vec![MAX - 1], vec![1, MIN], vec![0, 0, MAX]];
    // a further solution of the reader's contract C1 whose mutations must be overlaid as well
    // (fresh keys only: agreeing / conflicting proposals for one slot are C04's subject)
    let extra: Vec<Option<Vec<(Vec<W>, Vec<W>)>>> = if tier == Tier::Thorough {
        vec![None, Some(vec![(vec![2], vec![6, 6])]), Some(vec![(vec![3], vec![]), (vec![MAX - 1], vec![6])])]
    } else {
        vec![None]
    };
    let computed: Vec<Vec<(Vec<W>, Vec<W>)>> = vec![vec![], vec![(vec![2], vec![3])], vec![(vec![0], vec![3])]];
    for (pre, strict) in pre_states() {
      for ex in &extra {
        for declared in declared_menu() {
            for comp in &computed {
                for op in 0..4u8 {
                    let exts: &[u8] = if op == 1 || op == 3 { &[0xC1, 0xC2, 0xC3, 0xC4] } else { &[0xC1] };
                    for &ext in exts {
                        for key in &keys {
                            for &count in counts {
                                // thin the product in the quick tier deterministically
                                i += 1;

                                let probe = Role::Probe { op, ext, key: key.clone(), count };
                                for p in placements(probe) {
                                    // solution 0: the probing predicate on contract C1 with `declared`
                                    // solution 1: contract C2, declares [0]->[4], computes `comp` in pass 1
                                    let other = PredCase { nodes: vec![(u16::MAX, Role::LeafRaw(enc(comp)))], edges: vec![] };
                                    // computed mutations also for the own contract: a second leaf-only predicate on C1
                                    let mut preds = vec![p, other];
                                    let mut sols = vec![
                                        SolCase { pred: 0, contract: 0xC1, data: vec![], mutations: declared.clone() },
                                        SolCase { pred: 1, contract: 0xC2, data: vec![], mutations: vec![(vec![0], vec![4])] },
                                    ];
                                    if let Some(m) = ex {
                                        // third solution: contract C1 again, a trivially true predicate
                                        preds.push(PredCase { nodes: vec![(u16::MAX, Role::LeafTrue)], edges: vec![] });
                                        sols.push(SolCase { pred: 2, contract: 0xC1, data: vec![], mutations: m.clone() });
                                    }
                                    f(i, CkCase { preds, sols, pre: pre.clone(), strict, short: false, collect_all: false });
                                }
                            }
                        }
                    }
                }
            }
        }
      }
    }
    // the read op directly preceded by `Push(1)` (address operand), at several placements
    for (declared, want) in [(vec![(vec![0], vec![7])], vec![7]), (vec![(vec![0], vec![])], vec![]), (vec![], vec![5])] {
        i += 1;
        let l = u16::MAX;
        let leaf = Role::LeafPostEqualsAt1 { key: vec![0], want: want.clone() };
        for p in [
            PredCase { nodes: vec![(l, leaf.clone())], edges: vec![] },
            PredCase { nodes: vec![(0, Role::Tracer), (l, leaf.clone())], edges: vec![1] },
            PredCase { nodes: vec![(l, leaf.clone()), (0, Role::Tracer)], edges: vec![0] },
        ] {
            f(i, CkCase { preds: vec![p], sols: vec![SolCase { pred: 0, contract: 0xC1, data: vec![], mutations: declared.clone() }], pre: vec![(0xC1, vec![0], vec![5])], strict: false, short: false, collect_all: false });
        }
    }
    // two nodes sharing ONE post-reading program (same content address) under different parents
    for declared in [vec![(vec![0], vec![7])], vec![(vec![1], vec![])]] {
        for key in [vec![0], vec![1]] {
            for count in [1, 2] {
                i += 1;
                let shared = Role::Tagged(Box::new(Role::Probe { op: 2, ext: 0xC1, key: key.clone(), count }), 900);
                let l = u16::MAX;
                // 0 -> 2, 1 -> 3 ; nodes 2 and 3 share the program
                let p = PredCase { nodes: vec![(0, Role::Tracer), (1, Role::Tracer), (l, shared.clone()), (l, shared.clone())], edges: vec![2, 3] };
                f(i, CkCase { preds: vec![p], sols: vec![SolCase { pred: 0, contract: 0xC1, data: vec![], mutations: declared.clone() }], pre: pre_states()[1].0.clone(), strict: false, short: false, collect_all: true });
                i += 1;
                // the shared program at a root and at a leaf below a plain root
                let p = PredCase { nodes: vec![(l, shared.clone()), (0, Role::Tracer), (l, shared)], edges: vec![2] };
                f(i, CkCase { preds: vec![p], sols: vec![SolCase { pred: 0, contract: 0xC1, data: vec![], mutations: declared.clone() }], pre: pre_states()[1].0.clone(), strict: false, short: false, collect_all: true });
            }
        }
    }
    // two readers of the same start key with different counts / views, in one level of one
    // predicate and in two solutions (a read must not be answered from another read's result)
    for declared in [vec![], vec![(vec![1], vec![7])], vec![(vec![0], vec![]), (vec![2], vec![8, 8])]] {
        for (ca, cb) in [(1, 2), (2, 1), (1, 3), (3, 0), (2, 2)] {
            for (opa, opb) in [(2u8, 2u8), (2, 0), (0, 2), (3, 2)] {
                for key in [vec![0], vec![1]] {
                    i += 1;
                    let a = Role::Probe { op: opa, ext: 0xC1, key: key.clone(), count: ca };
                    let b = Role::Probe { op: opb, ext: 0xC1, key: key.clone(), count: cb };
                    let both = PredCase { nodes: vec![(u16::MAX, a.clone()), (u16::MAX, b.clone())], edges: vec![] };
                    let pre = pre_states()[1].0.clone();
                    f(i, CkCase { preds: vec![both], sols: vec![SolCase { pred: 0, contract: 0xC1, data: vec![], mutations: declared.clone() }], pre: pre.clone(), strict: false, short: false, collect_all: true });
                    i += 1;
                    let pa = PredCase { nodes: vec![(u16::MAX, a)], edges: vec![] };
                    let pb = PredCase { nodes: vec![(u16::MAX, b)], edges: vec![] };
                    f(
                        i,
                        CkCase {
                            preds: vec![pa, pb],
                            sols: vec![
                                SolCase { pred: 0, contract: 0xC1, data: vec![], mutations: declared.clone() },
                                SolCase { pred: 1, contract: 0xC1, data: vec![], mutations: vec![] },
                            ],
                            pre,
                            strict: false, short: false,
                            collect_all: false,
                        },
                    );
                }
            }
        }
    }
    // computed mutations on the reader's own contract: the reader's predicate has a second,
    // first-pass data-output leaf
    for declared in declared_menu() {
        for comp in [vec![(vec![2], vec![3])], vec![(vec![1], vec![3, 3])], vec![(vec![0], vec![3])]] {
            for key in [vec![0], vec![1], vec![2]] {
                for count in [1, 2, 3] {
                    for op in [2u8, 0] {
                        i += 1;
                        let probe = Role::Probe { op, ext: 0xC1, key: key.clone(), count };
                        let p = PredCase {
                            nodes: vec![(0, Role::Tracer), (u16::MAX, Role::LeafRaw(enc(&comp))), (u16::MAX, probe)],
                            edges: vec![1, 2],
                        };
                        f(
                            i,
                            CkCase {
                                preds: vec![p],
                                sols: vec![SolCase { pred: 0, contract: 0xC1, data: vec![], mutations: declared.clone() }],
                                pre: pre_states()[1].0.clone(),
                                strict: false, short: false,
                                collect_all: true,
                            },
                        );
                    }
                }
            }
        }
    }
}

fn run(cfg: &RunCfg, rep: &mut Report) {
    rep.bound_completed = format!("full product of the listed menus, counts 0..={}, 10 start keys{}", if cfg.tier == Tier::Thorough { 5 } else { 4 }, if cfg.tier == Tier::Thorough { ", x {no, one, two-mutation} further solution of the reader's contract" } else { "" });
    cases(cfg.tier, |i, case| {
        if cfg.mine(i) {
            wal::tick();
            if i % 4001 == 0 {
                rep.sample(|| json!(case));
            }
            run_case("C03", &case, (true, true), rep);
        }
    });
    rep.states = rep.nontrivial_evals; // the enumeration never repeats a case
}

fn replay(case: &Value) -> Result<bool, String> {
    let c: CkCase = serde_json::from_value(case["case"].clone()).map_err(|e| e.to_string())?;
    let mut r1 = Report::new();
    run_case("C03", &c, (true, true), &mut r1);
    Ok(!r1.violations.is_empty())
}
