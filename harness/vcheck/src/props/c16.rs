//! C16 — validators accept exactly the documented limits; computed sets stay valid.
use crate::fw::*;
use crate::util::MapState;
use crate::PropSpec;
use essential_check::{predicate as cpred, solution as csol};
use essential_types::{
    contract::{Contract, SignedContract},
    predicate::{Node, Predicate, Program},
    solution::{Mutation, Solution, SolutionSet},
    ContentAddress, PredicateAddress, Word,
};
use serde::{Deserialize, Serialize};
use serde_json::{json, Value};
use std::collections::{HashMap, HashSet};
use std::sync::Arc;

pub fn spec() -> PropSpec {
    PropSpec {
        id: "C16",
        level: "exploration",
        rule: "sets: six quantities (solutions<=100, predicate-data slots<=100, words per slot<=10000, total mutations<=1000, key words<=1000, value words<=10000) each from a size menu (quick: full product over {1,L,L+1} plus every single-quantity sweep over {0,L-1} against all {1,L} backgrounds; thorough: full product over {0,1,L-1,L,L+1}) x mutations spread over {1,2,100} solutions x duplicate mode {none, same key twice in one solution, same key in two solutions of one contract (two predicates), same key in two solutions of different contracts, same key in two solutions with the same predicate address, same key once in one solution and twice with the agreeing value in another solution of the contract} x carrier position {first,last}; one carrier element holds the big size; the other slots / keys / values are short but lie lexicographically on both sides of the carrier's. contracts: predicates {0,1,99,100,101} x carrier nodes {0,1,999,1000,1001} x edges {same menu} (plus counts 65536, 66536, 65536+999/1000 that are small again modulo 2^16) x carrier position x node shape {leaves, chained} x signature {valid, recovery id flipped, id 4, id 255, zeroed, all 0xFF, valid for another contract, valid by another key}. computed sets: 1..2 solutions (same / different contract) each with declared mutations in {[],[9->4],[8->5],both} and computed mutations (data-output leaves) in {none,[9->3],[8->6],both in one leaf,both over two leaves, [9->3,9->7] in one leaf, over two leaves, [9->3] in each of two leaves}, through check_and_compute_solution_set_two_pass and the one-pass check_and_compute_solution_set. Oracle: accept <=> every quantity within its documented limit (restated literally), signed contract additionally <=> a key is recoverable with the secp256k1 crate alone (recovery id in 0..=3, (r,s) a valid compact signature, recover_ecdsa over the contract's content address succeeds); a returned computed set passes check_set and has no solution with two mutations of one key. non-trivial = some quantity at L or L+1 or a duplicate key (sets/contracts), or the computing check returned Ok with at least one computed mutation; distinct by case tuple",
        assumptions: &[
            "sets where two different solutions of one contract mutate the same key satisfy every clause of the statement but are owned by property C04: either verdict is accepted for them (masked)",
            "signing keys come from a fixed pool of two",
        ],
        run,
        replay,
        describe_wal: None,
        run_wal: None,
        both_profiles: false,
        workers: 0,
    }
}

// ---------------------------------------------------------------------------------------------
// Builders. Their source text doubles as the body of the generated `#[test]` snippets.

macro_rules! src_and_code {
    ($name:ident; $($t:tt)*) => {
        $($t)*
        const $name: &str = stringify!($($t)*);
    };
}

src_and_code! { BUILD_SET_SRC;
    /// q = [solutions, predicate-data slots, words per slot, total mutations, key words, value words].
    /// One carrier solution/slot/mutation (first or last) holds the big sizes.
    pub fn build_set(q: [usize; 6], dist: usize, dup: u8, pos: u8) -> essential_types::solution::SolutionSet {
        use essential_types::{solution::{Mutation, Solution, SolutionSet}, ContentAddress, PredicateAddress, Word};
        let n = q[0];
        let mut sols: Vec<Solution> = (0..n)
            .map(|i| Solution {
                predicate_to_solve: PredicateAddress {
                    contract: ContentAddress([0xC1; 32]),
                    predicate: ContentAddress([(i % 251) as u8; 32]),
                },
                predicate_data: vec![],
                state_mutations: vec![],
            })
            .collect();
        if n == 0 {
            return SolutionSet { solutions: sols };
        }
        let carrier = if pos == 1 { n - 1 } else { 0 };
        // non-carrier slots: empty, lexicographically above and below the carrier slot's [7, 7, ..]
        let mut pd: Vec<Vec<Word>> = (0..q[1]).map(|i| match i % 3 { 0 => vec![], 1 => vec![9], _ => vec![0] }).collect();
        if q[1] > 0 {
            let slot = if pos == 1 { q[1] - 1 } else { 0 };
            pd[slot] = vec![7; q[2]];
        }
        sols[carrier].predicate_data = pd;
        let nmut = q[3];
        let d = dist.min(n).min(nmut.max(1)).max(1);
        let holders: Vec<usize> = std::iter::once(carrier).chain((0..n).filter(|&i| i != carrier)).take(d).collect();
        let mut g: Word = 0;
        for (h, &si) in holders.iter().enumerate() {
            let cnt = nmut / d + usize::from(h < nmut % d);
            for _ in 0..cnt {
                // keys and values on both sides (lexicographically) of the carrier's [-7, ..] / [5, ..]
                let w = if g % 2 == 0 { g } else { -g - 100 };
                sols[si].state_mutations.push(Mutation { key: vec![w], value: vec![w] });
                g += 1;
            }
        }
        if nmut == 0 {
            return SolutionSet { solutions: sols };
        }
        let len = sols[carrier].state_mutations.len();
        let (mi, far) = if pos == 1 { (len - 1, 0) } else { (0, len - 1) };
        sols[carrier].state_mutations[mi] = Mutation { key: vec![-7; q[4]], value: vec![5; q[5]] };
        let key = sols[carrier].state_mutations[mi].key.clone();
        if dup == 1 && len >= 2 {
            sols[carrier].state_mutations[far].key = key;
        } else if dup >= 2 && holders.len() >= 2 {
            let other = holders[1];
            let olen = sols[other].state_mutations.len();
            let oi = if pos == 1 { olen - 1 } else { 0 };
            sols[other].state_mutations[oi].key = key;
            if dup == 3 {
                sols[other].predicate_to_solve.contract = ContentAddress([0xC2; 32]);
            }
            if dup == 4 {
                sols[other].predicate_to_solve = sols[carrier].predicate_to_solve.clone();
            }
            if dup == 5 && olen >= 2 {
                // the other solution AGREES with the carrier on the slot, and writes it twice
                let value = sols[carrier].state_mutations[mi].value.clone();
                let key = sols[carrier].state_mutations[mi].key.clone();
                sols[other].state_mutations[0] = Mutation { key: key.clone(), value: value.clone() };
                sols[other].state_mutations[olen - 1] = Mutation { key, value };
            }
        }
        SolutionSet { solutions: sols }
    }
}

src_and_code! { BUILD_CONTRACT_SRC;
    pub fn build_predicate(nodes: usize, edges: usize, shape: u8) -> essential_types::predicate::Predicate {
        use essential_types::{predicate::{Node, Predicate}, ContentAddress};
        Predicate {
            nodes: (0..nodes)
                .map(|i| Node {
                    edge_start: if shape == 0 { u16::MAX } else { i.min(edges) as u16 },
                    program_address: ContentAddress([if shape == 0 { 0xA1 } else { 0xA0 + (i % 2) as u8 }; 32]),
                })
                .collect(),
            edges: (0..edges).map(|j| if shape == 0 { 0 } else { ((j + 1) % nodes.max(1)) as u16 }).collect(),
        }
    }

    /// `npred` predicates, all empty except the carrier (first or last).
    pub fn build_contract(npred: usize, nodes: usize, edges: usize, pos: u8, shape: u8) -> essential_types::contract::Contract {
        use essential_types::{contract::Contract, predicate::Predicate};
        let mut predicates = vec![Predicate::default(); npred];
        if npred > 0 {
            let carrier = if pos == 1 { npred - 1 } else { 0 };
            predicates[carrier] = build_predicate(nodes, edges, shape);
        }
        Contract { predicates, salt: [3; 32] }
    }

    /// Signature kinds: 0 valid, 1 recovery id flipped, 2 id 4, 3 id 255, 4 zeroed, 5 all 0xFF,
    /// 6 valid signature of a different contract, 7 valid signature by another key.
    pub fn build_signed(contract: essential_types::contract::Contract, sig: u8) -> essential_types::contract::SignedContract {
        use essential_sign::secp256k1::SecretKey;
        use essential_types::{contract::{Contract, SignedContract}, Signature};
        let sk = SecretKey::from_slice(&[29; 32]).unwrap();
        let sk2 = SecretKey::from_slice(&[58; 32]).unwrap();
        let good = essential_sign::contract::sign(contract.clone(), &sk).signature;
        let signature = match sig {
            0 => good,
            1 => Signature(good.0, good.1 ^ 1),
            2 => Signature(good.0, 4),
            3 => Signature(good.0, 255),
            4 => Signature([0; 64], 0),
            5 => Signature([0xFF; 64], 0),
            6 => essential_sign::contract::sign(Contract { predicates: vec![], salt: [9; 32] }, &sk).signature,
            _ => essential_sign::contract::sign(contract.clone(), &sk2).signature,
        };
        SignedContract { contract, signature }
    }
}

// ---------------------------------------------------------------------------------------------
// Sets

const SET_DIMS: [&str; 6] = ["solutions", "pd_slots", "pd_words", "mutations", "key_words", "val_words"];
const SET_LIMS: [usize; 6] = [100, 100, 10_000, 1000, 1000, 10_000];
const MASK_C04: &str = "same key mutated by two solutions of one contract: verdict owned by C04";

#[derive(Clone, Debug, PartialEq, Eq, Hash, Serialize, Deserialize)]
pub struct SetCase {
    /// [solutions, pd_slots, pd_words, mutations, key_words, val_words]
    pub q: [usize; 6],
    pub dist: usize,
    pub dup: u8,
    pub pos: u8,
}

impl SetCase {
    fn feasible(&self) -> bool {
        let [n, slots, words, nmut, kw, vw] = self.q;
        if n == 0 {
            return self.q[1..].iter().all(|&x| x == 0) && self.dist == 1 && self.dup == 0 && self.pos == 0;
        }
        if n == 1 && self.pos == 1 && slots <= 1 && nmut <= 1 {
            return false; // same as pos 0
        }
        if slots == 0 && words != 0 {
            return false;
        }
        if nmut == 0 {
            return kw == 0 && vw == 0 && self.dist == 1 && self.dup == 0;
        }
        if self.dist != 1 && (self.dist > n || self.dist > nmut) {
            return false;
        }
        match self.dup {
            0 => true,
            1 => nmut / self.dist + usize::from(nmut % self.dist > 0) >= 2,
            5 => self.dist >= 2 && nmut / self.dist >= 2,
            _ => self.dist >= 2,
        }
    }
    fn build(&self) -> SolutionSet {
        build_set(self.q, self.dist, self.dup, self.pos)
    }
    fn nontrivial(&self) -> bool {
        self.dup != 0 || self.q.iter().zip(SET_LIMS).any(|(&v, l)| v >= l)
    }
    fn named(&self) -> Value {
        let mut m = serde_json::Map::new();
        for (d, v) in SET_DIMS.iter().zip(self.q) {
            m.insert(d.to_string(), json!(v));
        }
        m.insert("mutations_spread_over_solutions".into(), json!(self.dist));
        m.insert(
            "duplicate_key".into(),
            json!(["none", "twice in one solution", "two solutions, one contract, two predicates", "two solutions, different contracts", "two solutions, same predicate address", "one solution once, another solution of the contract twice with the same value"][self.dup as usize % 6]),
        );
        m.insert("carrier".into(), json!(if self.pos == 1 { "last" } else { "first" }));
        Value::Object(m)
    }
}

/// The statement, literally.
fn set_within_limits(set: &SolutionSet) -> bool {
    let n = set.solutions.len();
    if !(1..=100).contains(&n) {
        return false;
    }
    let mut total = 0usize;
    for s in &set.solutions {
        if s.predicate_data.len() > 100 || s.predicate_data.iter().any(|v| v.len() > 10_000) {
            return false;
        }
        total += s.state_mutations.len();
        let mut seen: HashSet<&[Word]> = HashSet::new();
        for m in &s.state_mutations {
            if m.key.len() > 1000 || m.value.len() > 10_000 || !seen.insert(&m.key) {
                return false;
            }
        }
    }
    total <= 1000
}

fn solution_has_duplicate_key(s: &Solution) -> Option<Vec<Word>> {
    let mut seen: HashSet<&[Word]> = HashSet::new();
    s.state_mutations.iter().find(|m| !seen.insert(&m.key)).map(|m| m.key.clone())
}

/// Two different solutions of the same contract mutate the same key.
fn cross_solution_same_slot(set: &SolutionSet) -> bool {
    let mut seen: HashMap<(&ContentAddress, &[Word]), usize> = HashMap::new();
    for (i, s) in set.solutions.iter().enumerate() {
        for m in &s.state_mutations {
            match seen.get(&(&s.predicate_to_solve.contract, m.key.as_slice())) {
                Some(&j) if j != i => return true,
                Some(_) => {}
                None => {
                    seen.insert((&s.predicate_to_solve.contract, m.key.as_slice()), i);
                }
            }
        }
    }
    false
}

type Panic = (String, String);

fn set_verdicts(set: &SolutionSet) -> Result<(bool, bool, bool), Panic> {
    catch(|| (csol::check_set(set).is_ok(), csol::check_solutions(&set.solutions).is_ok(), csol::check_set_state_mutations(set).is_ok()))
}

fn panic_finding(p: Panic) -> Finding {
    Finding { sig: Signature::new("C16", "no_panic").site(format!("{}: {}", p.0, p.1)), expected: json!("Ok or a typed Err"), observed: json!(format!("panic at {}: {}", p.0, p.1)) }
}

fn set_snippet(c: &SetCase, want: bool) -> String {
    format!(
        "{BUILD_SET_SRC}\n\n#[test]\nfn replay() {{\n    // {}\n    let set = build_set({:?}, {}, {}, {});\n    assert_eq!(essential_check::solution::check_set(&set).is_ok(), {want});\n}}\n",
        c.named(),
        c.q,
        c.dist,
        c.dup,
        c.pos
    )
}

struct Finding {
    sig: Signature,
    expected: Value,
    observed: Value,
}

struct SetOutcome {
    observation: u64,
    masked: bool,
    want: bool,
    findings: Vec<Finding>,
}

fn set_outcome(c: &SetCase) -> SetOutcome {
    let set = c.build();
    let want = set_within_limits(&set);
    let masked = want && cross_solution_same_slot(&set);
    let mut findings = vec![];
    let (got, g_sols, g_muts) = match set_verdicts(&set) {
        Ok(v) => v,
        Err(p) => {
            findings.push(panic_finding(p));
            return SetOutcome { observation: 99, masked, want, findings };
        }
    };
    let observation = hash_of(&(want, got, g_sols, g_muts, masked));
    if got != (g_sols && g_muts) {
        findings.push(Finding {
            sig: Signature::new("C16", "limits.set").feat("check_set != check_solutions && check_set_state_mutations"),
            expected: json!("check_set accepts exactly when both parts accept"),
            observed: json!({"check_set": got, "check_solutions": g_sols, "check_set_state_mutations": g_muts}),
        });
    }
    if masked || got == want {
        return SetOutcome { observation, masked, want, findings };
    }
    let mut sig = Signature::new("C16", "limits.set");
    if got {
        sig = sig.feat("accepts");
        for i in 0..6 {
            if c.q[i] > SET_LIMS[i] {
                sig = sig.feat(format!("over:{}", SET_DIMS[i]));
            }
        }
        if c.q[0] == 0 {
            sig = sig.feat("empty_set");
        }
        if c.dup == 1 || c.dup == 5 {
            sig = sig.feat("duplicate_key_in_solution");
        }
    } else {
        sig = sig.feat("rejects");
        // which quantity at its limit is to blame: lower one at a time, see whether the verdict flips
        let at: Vec<usize> = (0..6).filter(|&i| c.q[i] == SET_LIMS[i]).collect();
        let mut culprits = vec![];
        for &i in &at {
            let mut c2 = c.clone();
            c2.q[i] -= 1;
            let s2 = c2.build();
            if set_within_limits(&s2) && matches!(set_verdicts(&s2), Ok((true, _, _))) {
                culprits.push(i);
            }
        }
        if culprits.is_empty() {
            culprits = at;
        }
        if culprits.is_empty() {
            sig = sig.feat("no_quantity_at_limit");
            if c.dup != 0 {
                sig = sig.feat(format!("dup_mode:{}", c.dup));
            }
        }
        for i in culprits {
            sig = sig.feat(format!("at_limit:{}", SET_DIMS[i]));
        }
    }
    findings.push(Finding { sig, expected: json!({"accept": want}), observed: json!({"accept": got}) });
    SetOutcome { observation, masked, want, findings }
}

/// Greedy reduction of a violating case to a smaller one with the same signature.
fn shrink<C: Clone>(c: &C, key: &str, moves: &dyn Fn(&C) -> Vec<C>, keys_of: &dyn Fn(&C) -> Vec<String>) -> C {
    let mut cur = c.clone();
    let mut budget = 200;
    'again: loop {
        budget -= 1;
        if budget == 0 {
            return cur;
        }
        for cand in moves(&cur) {
            if keys_of(&cand).iter().any(|k| k == key) {
                cur = cand;
                continue 'again;
            }
        }
        return cur;
    }
}

fn set_moves(c: &SetCase) -> Vec<SetCase> {
    let mut v = vec![];
    let mut push = |c2: SetCase| {
        if c2 != *c && c2.feasible() {
            v.push(c2);
        }
    };
    push(SetCase { dup: 0, ..c.clone() });
    // every move strictly decreases something, so shrinking terminates
    push(SetCase { dist: 1, ..c.clone() });
    if c.dist > 2 {
        push(SetCase { dist: 2, ..c.clone() });
    }
    push(SetCase { pos: 0, ..c.clone() });
    for i in 0..6 {
        for small in [0usize, 1, 2] {
            if small < c.q[i] {
                let mut c2 = c.clone();
                c2.q[i] = small;
                push(c2);
            }
        }
    }
    v
}

fn check_set_case(c: &SetCase, rep: &mut Report) {
    let o = set_outcome(c);
    rep.eval(c.nontrivial().then(|| hash_of(c)), o.observation);
    if o.masked {
        rep.mask(MASK_C04);
    }
    for f in o.findings {
        let key = f.sig.key();
        rep.violate(
            || {
                let m = shrink(c, &key, &set_moves, &|c2| set_outcome(c2).findings.iter().map(|f| f.sig.key()).collect());
                let om = set_outcome(&m);
                let (expected, observed) = om.findings.into_iter().find(|g| g.sig.key() == key).map(|g| (g.expected, g.observed)).unwrap_or((f.expected, f.observed));
                viol(f.sig, json!({"kind": "set", "case": m, "described": m.named(), "first_seen_as": c}), expected, observed, set_snippet(&m, om.want))
            },
            Some(&key),
        );
    }
}

fn sizes(l: usize) -> [usize; 5] {
    [0, 1, l - 1, l, l + 1]
}

/// Enumerate the quantity vectors of the tier, then the spread/duplicate/position modes.
fn set_cases(tier: Tier, mut f: impl FnMut(u64, SetCase)) {
    let mut qs: Vec<[usize; 6]> = vec![];
    let menu = |full: bool, i: usize| -> Vec<usize> {
        let l = SET_LIMS[i];
        if full {
            sizes(l).to_vec()
        } else {
            vec![1, l, l + 1]
        }
    };
    let product = |menus: &[Vec<usize>], out: &mut Vec<[usize; 6]>| {
        let mut idx = [0usize; 6];
        'outer: loop {
            let mut q = [0usize; 6];
            for i in 0..6 {
                q[i] = menus[i][idx[i]];
            }
            out.push(q);
            for i in (0..6).rev() {
                idx[i] += 1;
                if idx[i] < menus[i].len() {
                    continue 'outer;
                }
                idx[i] = 0;
            }
            break;
        }
    };
    match tier {
        Tier::Thorough => {
            let menus: Vec<Vec<usize>> = (0..6).map(|i| menu(true, i)).collect();
            product(&menus, &mut qs);
        }
        Tier::Quick => {
            let menus: Vec<Vec<usize>> = (0..6).map(|i| menu(false, i)).collect();
            product(&menus, &mut qs);
            for d in 0..6 {
                for v in [0, SET_LIMS[d] - 1] {
                    let menus: Vec<Vec<usize>> = (0..6).map(|i| if i == d { vec![v] } else { vec![1, SET_LIMS[i]] }).collect();
                    product(&menus, &mut qs);
                }
            }
        }
    }
    let mut i = 0u64;
    for q in qs {
        for dist in [1usize, 2, 100] {
            for dup in 0..6u8 {
                for pos in 0..2u8 {
                    let c = SetCase { q, dist, dup, pos };
                    if c.feasible() {
                        i += 1;
                        f(i, c);
                    }
                }
            }
        }
    }
}

// ---------------------------------------------------------------------------------------------
// Predicates and contracts

const CON_DIMS: [&str; 3] = ["predicates", "nodes", "edges"];
const CON_LIMS: [usize; 3] = [100, 1000, 1000];
const SIG_KINDS: [&str; 8] = ["valid", "recovery id flipped", "recovery id 4", "recovery id 255", "zeroed", "all 0xFF", "valid for another contract", "valid by another key"];

#[derive(Clone, Debug, PartialEq, Eq, Hash, Serialize, Deserialize)]
pub struct ConCase {
    /// [predicates, carrier nodes, carrier edges]
    pub q: [usize; 3],
    pub pos: u8,
    pub shape: u8,
    pub sig: u8,
}

impl ConCase {
    fn feasible(&self) -> bool {
        if self.q[0] == 0 {
            return self.q[1] == 0 && self.q[2] == 0 && self.pos == 0 && self.shape == 0;
        }
        if self.q[0] == 1 && self.pos == 1 {
            return false;
        }
        if self.q[1] == 0 && self.q[2] <= 1 && self.shape == 1 {
            return false; // same as shape 0
        }
        true
    }
    fn nontrivial(&self) -> bool {
        self.q.iter().zip(CON_LIMS).any(|(&v, l)| v >= l) || self.sig != 0
    }
    fn named(&self) -> Value {
        json!({"predicates": self.q[0], "carrier_nodes": self.q[1], "carrier_edges": self.q[2], "carrier": if self.pos == 1 { "last" } else { "first" },
               "node_shape": if self.shape == 0 { "leaves" } else { "chained" }, "signature": SIG_KINDS[self.sig as usize % 8]})
    }
}

fn predicate_within_limits(p: &Predicate) -> bool {
    p.nodes.len() <= 1000 && p.edges.len() <= 1000
}

fn contract_within_limits(c: &Contract) -> bool {
    c.predicates.len() <= 100 && c.predicates.iter().all(predicate_within_limits)
}

struct ConVerdicts {
    pred: Option<bool>,
    contract: bool,
    signed: bool,
    recoverable: bool,
}

/// "A recoverable signature", restated with the secp256k1 crate alone: the recovery id is one of
/// 0..=3, (r, s) parse as a compact signature, and a key is recovered over the contract's address.
fn independently_recoverable(signed: &SignedContract) -> bool {
    use secp256k1::{
        ecdsa::{RecoverableSignature, RecoveryId},
        Message, Secp256k1,
    };
    let id = signed.signature.1;
    if id > 3 {
        return false;
    }
    let Ok(rid) = RecoveryId::try_from(id as i32) else { return false };
    let Ok(rs) = RecoverableSignature::from_compact(&signed.signature.0, rid) else { return false };
    let ca = essential_hash::content_addr(&signed.contract);
    Secp256k1::new().recover_ecdsa(&Message::from_digest(ca.0), &rs).is_ok()
}

fn con_verdicts(c: &ConCase) -> Result<ConVerdicts, Panic> {
    let contract = build_contract(c.q[0], c.q[1], c.q[2], c.pos, c.shape);
    let carrier = if c.q[0] > 0 { Some(if c.pos == 1 { c.q[0] - 1 } else { 0 }) } else { None };
    let signed: SignedContract = build_signed(contract, c.sig);
    catch(|| ConVerdicts {
        pred: carrier.map(|i| cpred::check(&signed.contract.predicates[i]).is_ok()),
        contract: cpred::check_contract(&signed.contract.predicates).is_ok(),
        signed: cpred::check_signed_contract(&signed).is_ok(),
        recoverable: independently_recoverable(&signed),
    })
}

/// Name the quantities to blame for a wrong verdict (same scheme as for sets).
fn con_blame(c: &ConCase, dims: std::ops::Range<usize>, got: bool, mut sig: Signature, still_rejected: &dyn Fn(&ConCase) -> bool) -> Signature {
    if got {
        sig = sig.feat("accepts");
        for i in dims {
            if c.q[i] > CON_LIMS[i] {
                sig = sig.feat(format!("over:{}", CON_DIMS[i]));
            }
        }
    } else {
        sig = sig.feat("rejects");
        let at: Vec<usize> = dims.filter(|&i| c.q[i] == CON_LIMS[i]).collect();
        let mut culprits: Vec<usize> = at
            .iter()
            .copied()
            .filter(|&i| {
                let mut c2 = c.clone();
                c2.q[i] -= 1;
                !still_rejected(&c2)
            })
            .collect();
        if culprits.is_empty() {
            culprits = at;
        }
        if culprits.is_empty() {
            sig = sig.feat("no_quantity_at_limit");
        }
        for i in culprits {
            sig = sig.feat(format!("at_limit:{}", CON_DIMS[i]));
        }
    }
    sig
}

fn con_snippet(c: &ConCase, call: &str, want: bool) -> String {
    format!(
        "{BUILD_CONTRACT_SRC}\n\n#[test]\nfn replay() {{\n    // {}\n    let contract = build_contract({}, {}, {}, {}, {});\n    let signed = build_signed(contract, {});\n    let _ = &signed;\n    assert_eq!({call}.is_ok(), {want});\n}}\n",
        c.named(),
        c.q[0],
        c.q[1],
        c.q[2],
        c.pos,
        c.shape,
        c.sig
    )
}

struct ConOutcome {
    observation: u64,
    /// (finding, the call the snippet asserts on, its expected verdict)
    findings: Vec<(Finding, String, bool)>,
}

fn con_outcome(c: &ConCase) -> ConOutcome {
    let mut findings = vec![];
    let v = match con_verdicts(c) {
        Ok(v) => v,
        Err(p) => {
            findings.push((panic_finding(p), "essential_check::predicate::check_signed_contract(&signed)".to_string(), true));
            return ConOutcome { observation: 99, findings };
        }
    };
    let contract = build_contract(c.q[0], c.q[1], c.q[2], c.pos, c.shape);
    let carrier = if c.pos == 1 { c.q[0].saturating_sub(1) } else { 0 };
    let want_pred = contract.predicates.get(carrier).map(predicate_within_limits);
    let want_contract = contract_within_limits(&contract);
    let want_signed = want_contract && v.recoverable;
    let observation = hash_of(&(v.pred, v.contract, v.signed, v.recoverable));
    if let (Some(got), Some(want)) = (v.pred, want_pred) {
        if got != want {
            let sig = con_blame(c, 1..3, got, Signature::new("C16", "limits.predicate"), &|c2| !matches!(con_verdicts(c2), Ok(ConVerdicts { pred: Some(true), .. })));
            findings.push((Finding { sig, expected: json!({"accept": want}), observed: json!({"accept": got}) }, format!("essential_check::predicate::check(&signed.contract.predicates[{carrier}])"), want));
        }
    }
    if v.contract != want_contract {
        let sig = con_blame(c, 0..3, v.contract, Signature::new("C16", "limits.contract"), &|c2| !matches!(con_verdicts(c2), Ok(ConVerdicts { contract: true, .. })));
        findings.push((Finding { sig, expected: json!({"accept": want_contract}), observed: json!({"accept": v.contract}) }, "essential_check::predicate::check_contract(&signed.contract.predicates)".into(), want_contract));
    }
    if v.signed != want_signed {
        let mut sig = Signature::new("C16", "limits.signed_contract");
        if v.signed && !v.recoverable {
            sig = sig.feat("accepts").feat("unrecoverable_signature");
        } else if !v.signed && v.contract {
            // the contract alone passes: the signature is what was refused
            sig = sig.feat("rejects").feat("recoverable_signature");
        } else {
            sig = con_blame(c, 0..3, v.signed, sig, &|c2| !matches!(con_verdicts(c2), Ok(ConVerdicts { signed: true, .. })));
        }
        findings.push((
            Finding { sig, expected: json!({"accept": want_signed, "within_limits": want_contract, "signature_recoverable": v.recoverable}), observed: json!({"accept": v.signed}) },
            "essential_check::predicate::check_signed_contract(&signed)".into(),
            want_signed,
        ));
    }
    ConOutcome { observation, findings }
}

fn con_moves(c: &ConCase) -> Vec<ConCase> {
    let mut v = vec![];
    let mut push = |c2: ConCase| {
        if c2 != *c && c2.feasible() {
            v.push(c2);
        }
    };
    push(ConCase { sig: 0, ..c.clone() });
    push(ConCase { shape: 0, ..c.clone() });
    push(ConCase { pos: 0, ..c.clone() });
    for i in 0..3 {
        for small in [0usize, 1] {
            if small < c.q[i] {
                let mut c2 = c.clone();
                c2.q[i] = small;
                push(c2);
            }
        }
    }
    v
}

fn check_con_case(c: &ConCase, rep: &mut Report) {
    let o = con_outcome(c);
    rep.eval(c.nontrivial().then(|| hash_of(c)), o.observation);
    for (f, call, want) in o.findings {
        let key = f.sig.key();
        rep.violate(
            || {
                let m = shrink(c, &key, &con_moves, &|c2| con_outcome(c2).findings.iter().map(|f| f.0.sig.key()).collect());
                let (f, call, want) = con_outcome(&m).findings.into_iter().find(|g| g.0.sig.key() == key).unwrap_or((f, call, want));
                viol(f.sig, json!({"kind": "contract", "case": m, "described": m.named(), "first_seen_as": c}), f.expected, f.observed, con_snippet(&m, &call, want))
            },
            Some(&key),
        );
    }
}

fn con_cases(mut f: impl FnMut(u64, ConCase)) {
    let mut i = 0u64;
    // counts far above the limit that are small again modulo 2^16 (the limits are u16 constants)
    for (nodes, edges) in [(65536usize, 1usize), (1, 65536), (66536, 0), (0, 66536), (65536 + 999, 65536 + 1000)] {
        for pos in 0..2u8 {
            let c = ConCase { q: [1, nodes, edges], pos, shape: 0, sig: 0 };
            if c.feasible() {
                i += 1;
                f(i, c);
            }
        }
    }
    for np in sizes(100) {
        for nodes in sizes(1000) {
            for edges in sizes(1000) {
                for pos in 0..2u8 {
                    for shape in 0..2u8 {
                        for sig in 0..8u8 {
                            let c = ConCase { q: [np, nodes, edges], pos, shape, sig };
                            if c.feasible() {
                                i += 1;
                                f(i, c);
                            }
                        }
                    }
                }
            }
        }
    }
}

// ---------------------------------------------------------------------------------------------
// Computed sets

type Kv = (Vec<Word>, Vec<Word>);

#[derive(Clone, Debug, PartialEq, Eq, Hash, Serialize, Deserialize)]
pub struct CompSol {
    pub declared: Vec<Kv>,
    /// One entry per data-output leaf: the mutations its memory encodes.
    pub leaves: Vec<Vec<Kv>>,
    pub contract: u8,
}

#[derive(Clone, Debug, PartialEq, Eq, Hash, Serialize, Deserialize)]
pub struct CompCase {
    pub sols: Vec<CompSol>,
    pub two_pass: bool,
}

/// `[count, (key_len, key.., value_len, value..)*]`
fn encode_list(ms: &[Kv]) -> Vec<Word> {
    let mut m = vec![ms.len() as Word];
    for (k, v) in ms {
        m.push(k.len() as Word);
        m.extend(k);
        m.push(v.len() as Word);
        m.extend(v);
    }
    m
}

/// Program whose final stack is `[2]` and whose final memory is `mem`.
fn data_output_program(mem: &[Word]) -> Program {
    use essential_asm::{Memory as M, Op, Stack as S};
    let mut ops = vec![Op::Stack(S::Push(mem.len() as Word)), Op::Memory(M::Alloc), Op::Stack(S::Pop)];
    for (i, w) in mem.iter().enumerate() {
        ops.extend([Op::Stack(S::Push(*w)), Op::Stack(S::Push(i as Word)), Op::Memory(M::Store)]);
    }
    ops.push(Op::Stack(S::Push(2)));
    Program(essential_asm::to_bytes(ops).collect())
}

struct CompWorld {
    set: SolutionSet,
    predicates: HashMap<PredicateAddress, Arc<Predicate>>,
    programs: HashMap<ContentAddress, Arc<Program>>,
}

fn comp_world(c: &CompCase) -> CompWorld {
    let mut predicates = HashMap::new();
    let mut programs = HashMap::new();
    let mut solutions = vec![];
    for s in &c.sols {
        let mut nodes = vec![];
        for leaf in &s.leaves {
            let prog = data_output_program(&encode_list(leaf));
            let addr = essential_hash::content_addr(&prog);
            programs.insert(addr.clone(), Arc::new(prog));
            nodes.push(Node { edge_start: u16::MAX, program_address: addr });
        }
        let pred = Predicate { nodes, edges: vec![] };
        let addr = PredicateAddress { contract: ContentAddress([s.contract; 32]), predicate: essential_hash::content_addr(&pred) };
        predicates.insert(addr.clone(), Arc::new(pred));
        solutions.push(Solution {
            predicate_to_solve: addr,
            predicate_data: vec![],
            state_mutations: s.declared.iter().map(|(k, v)| Mutation { key: k.clone(), value: v.clone() }).collect(),
        });
    }
    CompWorld { set: SolutionSet { solutions }, predicates, programs }
}

fn comp_snippet(c: &CompCase) -> String {
    let mut s = String::from(
        "#[test]\nfn replay() {\n    use essential_check::solution::*;\n    use essential_types::{predicate::*, solution::*, *};\n    use essential_vm::asm::{self, short::*};\n    use std::{collections::HashMap, sync::Arc};\n    #[derive(Clone)]\n    struct Empty;\n    impl essential_vm::StateRead for Empty {\n        type Error = String;\n        fn key_range(&self, _: ContentAddress, _: Key, n: usize) -> Result<Vec<Vec<Word>>, String> { Ok(vec![vec![]; n]) }\n    }\n    // final stack [2], final memory = the encoded mutation list\n    let prog = |mem: &[Word]| {\n        let mut ops = vec![PUSH(mem.len() as Word), ALOC, POP];\n        for (i, w) in mem.iter().enumerate() { ops.extend([PUSH(*w), PUSH(i as Word), STO]); }\n        ops.push(PUSH(2));\n        Program(asm::to_bytes(ops).collect())\n    };\n    let mut predicates: HashMap<PredicateAddress, Arc<Predicate>> = HashMap::new();\n    let mut programs: HashMap<ContentAddress, Arc<Program>> = HashMap::new();\n    let mut solutions = vec![];\n",
    );
    for sol in &c.sols {
        s += "    {\n        let mut nodes = vec![];\n";
        for leaf in &sol.leaves {
            s += &format!("        let p = prog(&{:?}); // computes {:?}\n        let a = essential_hash::content_addr(&p);\n        programs.insert(a.clone(), Arc::new(p));\n        nodes.push(Node {{ edge_start: Edge::MAX, program_address: a }});\n", encode_list(leaf), leaf);
        }
        s += &format!("        let pred = Predicate {{ nodes, edges: vec![] }};\n        let addr = PredicateAddress {{ contract: ContentAddress([{}; 32]), predicate: essential_hash::content_addr(&pred) }};\n        predicates.insert(addr.clone(), Arc::new(pred));\n        solutions.push(Solution {{ predicate_to_solve: addr, predicate_data: vec![], state_mutations: vec![{}] }});\n    }}\n",
            sol.contract,
            sol.declared.iter().map(|(k, v)| format!("Mutation {{ key: vec!{k:?}, value: vec!{v:?} }}")).collect::<Vec<_>>().join(", "));
    }
    s += "    let set = SolutionSet { solutions };\n    check_set(&set).unwrap();\n";
    if c.two_pass {
        s += "    let r = check_and_compute_solution_set_two_pass(&Empty, set, predicates, Arc::new(programs), Arc::new(CheckPredicateConfig::default()));\n";
    } else {
        s += "    let r = check_and_compute_solution_set(&(Empty, Empty), set, predicates, Arc::new(programs), Arc::new(CheckPredicateConfig::default()), RunMode::Outputs, &mut HashMap::new());\n";
    }
    s += "    if let Ok((_gas, set)) = r {\n        check_set(&set).expect(\"a returned set must still be valid\");\n        for s in &set.solutions {\n            let mut keys: Vec<_> = s.state_mutations.iter().map(|m| &m.key).collect();\n            keys.sort();\n            assert!(keys.windows(2).all(|w| w[0] != w[1]), \"two mutations of one key in a returned solution: {:?}\", s.state_mutations);\n        }\n    }\n}\n";
    s
}

struct CompOutcome {
    nontrivial: bool,
    observation: u64,
    masked: bool,
    findings: Vec<Finding>,
}

fn comp_outcome(c: &CompCase) -> Result<CompOutcome, String> {
    let w = comp_world(c);
    // the input is a valid set (precondition of the computing check)
    if !set_within_limits(&w.set) {
        return Err(format!("C16: computed-set input is not a valid set: {c:?}"));
    }
    let mut o = CompOutcome { nontrivial: false, observation: 0, masked: false, findings: vec![] };
    let state = MapState::default();
    let programs = Arc::new(w.programs.clone());
    let cfgp = Arc::new(csol::CheckPredicateConfig::default());
    let input = w.set.clone();
    let r = catch(|| {
        if c.two_pass {
            csol::check_and_compute_solution_set_two_pass(&state, input, w.predicates.clone(), programs, cfgp).map_err(|e| format!("{e}"))
        } else {
            csol::check_and_compute_solution_set(&(state.clone(), state.clone()), input, w.predicates.clone(), programs, cfgp, csol::RunMode::Outputs, &mut HashMap::new()).map_err(|e| format!("{e}"))
        }
    });
    let out = match r {
        Err(p) => {
            o.observation = 99;
            o.findings.push(panic_finding(p));
            return Ok(o);
        }
        Ok(Err(_)) => {
            o.observation = 1;
            return Ok(o);
        }
        Ok(Ok((_gas, out))) => out,
    };
    o.nontrivial = out.solutions.iter().zip(&w.set.solutions).any(|(o, i)| o.state_mutations.len() > i.state_mutations.len());
    o.observation = hash_of(&out);
    for (si, s) in out.solutions.iter().enumerate() {
        if let Some(key) = solution_has_duplicate_key(s) {
            let declared = c.sols.get(si).map(|cs| cs.declared.iter().any(|(k, _)| *k == key)).unwrap_or(false);
            o.findings.push(Finding {
                sig: Signature::new("C16", "computed_set_valid").feat(if declared { "duplicate_key:declared+computed" } else { "duplicate_key:computed+computed" }),
                expected: json!("Err, or Ok with at most one mutation per key in every solution"),
                observed: json!({"returned_solution": si, "state_mutations": s.state_mutations, "duplicate_key": key}),
            });
        }
    }
    if !o.findings.is_empty() {
        return Ok(o);
    }
    match catch(|| csol::check_set(&out).map_err(|e| format!("{e}"))) {
        Err(p) => o.findings.push(panic_finding(p)),
        Ok(Ok(())) => {}
        Ok(Err(e)) => {
            if set_within_limits(&out) && cross_solution_same_slot(&out) {
                o.masked = true;
            } else {
                o.findings.push(Finding {
                    sig: Signature::new("C16", "computed_set_valid").feat("check_set_rejects_returned_set"),
                    expected: json!("check_set(returned set) is Ok"),
                    observed: json!({"error": e, "returned": out}),
                });
            }
        }
    }
    Ok(o)
}

fn comp_moves(c: &CompCase) -> Vec<CompCase> {
    let mut v = vec![];
    if !c.two_pass {
        v.push(CompCase { two_pass: true, ..c.clone() });
    }
    if c.sols.len() > 1 {
        for i in 0..c.sols.len() {
            let mut c2 = c.clone();
            c2.sols.remove(i);
            v.push(c2);
        }
    }
    for i in 0..c.sols.len() {
        for j in 0..c.sols[i].declared.len() {
            let mut c2 = c.clone();
            c2.sols[i].declared.remove(j);
            v.push(c2);
        }
        if c.sols[i].leaves.len() > 1 {
            for j in 0..c.sols[i].leaves.len() {
                let mut c2 = c.clone();
                c2.sols[i].leaves.remove(j);
                v.push(c2);
            }
        }
        for j in 0..c.sols[i].leaves.len() {
            for k in 0..c.sols[i].leaves[j].len() {
                let mut c2 = c.clone();
                c2.sols[i].leaves[j].remove(k);
                v.push(c2);
            }
        }
    }
    v
}

fn check_comp_case(c: &CompCase, rep: &mut Report) {
    let o = match comp_outcome(c) {
        Ok(o) => o,
        Err(e) => {
            rep.machinery_errors.push(e);
            return;
        }
    };
    rep.eval(o.nontrivial.then(|| hash_of(c)), o.observation);
    if o.masked {
        rep.mask(MASK_C04);
    }
    for f in o.findings {
        let key = f.sig.key();
        rep.violate(
            || {
                let keys = |c2: &CompCase| comp_outcome(c2).map(|o| o.findings.iter().map(|f| f.sig.key()).collect()).unwrap_or_default();
                let m = shrink(c, &key, &comp_moves, &keys);
                let f = comp_outcome(&m).ok().and_then(|o| o.findings.into_iter().find(|g| g.sig.key() == key)).unwrap_or(f);
                viol(f.sig, json!({"kind": "computed", "case": m, "first_seen_as": c}), f.expected, f.observed, comp_snippet(&m))
            },
            Some(&key),
        );
    }
}

fn comp_cases(mut f: impl FnMut(u64, CompCase)) {
    let k9 = || vec![9 as Word];
    let k8 = || vec![8 as Word];
    let declared: Vec<Vec<Kv>> = vec![vec![], vec![(k9(), vec![4])], vec![(k8(), vec![5])], vec![(k9(), vec![4]), (k8(), vec![5])]];
    let leaves: Vec<Vec<Vec<Kv>>> = vec![
        vec![vec![]],
        vec![vec![(k9(), vec![3])]],
        vec![vec![(k8(), vec![6])]],
        vec![vec![(k9(), vec![3]), (k8(), vec![6])]],
        vec![vec![(k9(), vec![3])], vec![(k8(), vec![6])]],
        vec![vec![(k9(), vec![3]), (k9(), vec![7])]],
        vec![vec![(k9(), vec![3])], vec![(k9(), vec![7])]],
        // two data-output leaves computing the same slot with the SAME value
        vec![vec![(k9(), vec![3])], vec![(k9(), vec![3])]],
        vec![vec![(k9(), vec![3]), (k8(), vec![6])], vec![(k9(), vec![3])]],
    ];
    let mut singles = vec![];
    for d in &declared {
        for l in &leaves {
            singles.push((d.clone(), l.clone()));
        }
    }
    let mut i = 0u64;
    for two_pass in [true, false] {
        for (d, l) in &singles {
            i += 1;
            f(i, CompCase { sols: vec![CompSol { declared: d.clone(), leaves: l.clone(), contract: 0xC1 }], two_pass });
            for (d2, l2) in &singles {
                for c2 in [0xC1u8, 0xC2] {
                    i += 1;
                    f(
                        i,
                        CompCase {
                            sols: vec![CompSol { declared: d.clone(), leaves: l.clone(), contract: 0xC1 }, CompSol { declared: d2.clone(), leaves: l2.clone(), contract: c2 }],
                            two_pass,
                        },
                    );
                }
            }
        }
    }
}

// ---------------------------------------------------------------------------------------------

fn run(cfg: &RunCfg, rep: &mut Report) {
    rep.bound_completed = format!(
        "sets: {}; contracts: full 5x5x5 size product x position x shape x 8 signatures; computed sets: all 1..2-solution combinations of the listed declared/computed menus, both entry points",
        cfg.tier.pick("product over {1,L,L+1}^6 plus {0,L-1} sweeps, all spread/duplicate/position modes", "full product over {0,1,L-1,L,L+1}^6, all spread/duplicate/position modes")
    );
    let mut n_sets = 0u64;
    set_cases(cfg.tier, |i, c| {
        if cfg.mine(i / 16) {
            if i % 1543 == 7 {
                rep.sample(|| json!({"set": c.named()}));
            }
            n_sets += 1;
            check_set_case(&c, rep);
        }
    });
    rep.add_extra("set_cases", n_sets);
    let mut n_con = 0u64;
    con_cases(|i, c| {
        if cfg.mine(i / 8) {
            if i % 977 == 5 {
                rep.sample(|| json!({"contract": c.named()}));
            }
            n_con += 1;
            check_con_case(&c, rep);
        }
    });
    rep.add_extra("contract_cases", n_con);
    let mut n_comp = 0u64;
    comp_cases(|i, c| {
        if cfg.mine(i / 8) {
            if i % 499 == 3 {
                rep.sample(|| json!({"computed": c}));
            }
            n_comp += 1;
            check_comp_case(&c, rep);
        }
    });
    rep.add_extra("computed_cases", n_comp);
}

fn replay(case: &Value) -> Result<bool, String> {
    let mut rep = Report::new();
    let inner = case["case"].clone();
    match case["kind"].as_str() {
        Some("set") => {
            let c: SetCase = serde_json::from_value(inner).map_err(|e| e.to_string())?;
            check_set_case(&c, &mut rep)
        }
        Some("contract") => {
            let c: ConCase = serde_json::from_value(inner).map_err(|e| e.to_string())?;
            check_con_case(&c, &mut rep)
        }
        Some("computed") => {
            let c: CompCase = serde_json::from_value(inner).map_err(|e| e.to_string())?;
            check_comp_case(&c, &mut rep)
        }
        other => return Err(format!("unknown case kind {other:?}")),
    }
    if !rep.machinery_errors.is_empty() {
        return Err(rep.machinery_errors.join("; "));
    }
    Ok(!rep.violations.is_empty())
}
