//! C19 — contract signatures bind the signer to the contract's content.
use crate::fw::*;
use crate::refvm::RVm;
use crate::util::{real_vm_from, small_state, test_solution};
use crate::PropSpec;
use essential_asm::{self as asm, Op};
use essential_sign::secp256k1::{
    ecdsa::{RecoverableSignature, RecoveryId},
    Message, PublicKey, Secp256k1, SecretKey,
};
use essential_types::{
    contract::{Contract, SignedContract},
    convert::word_4_from_u8_32,
    predicate::{Node, Predicate},
    ContentAddress, Word,
};
use serde::{Deserialize, Serialize};
use serde_json::{json, Value};
use std::collections::HashMap;
use std::sync::Arc;

type TSig = essential_types::Signature;

pub fn spec() -> PropSpec {
    PropSpec {
        id: "C19",
        level: "exploration",
        rule: "4 (thorough: 8) secret keys ([29k;32]) x every contract of <=3 predicates drawn from a pool of 6 small predicates (<=2 nodes, <=2 edges, 2 program addresses; plus 2 contracts repeating a predicate, plus one contract with a 1000-node predicate and one with a 1000-edge predicate, edited structurally at first/middle/last node and edge) x 2 salts. Per (key, contract, salt): sign, then present every permutation of the predicates (and sign every permutation, present the original); content tamperings = every salt bit (quick: every 4th), every byte of every predicate's encoding xor {0x01,0x80} (quick: 0x01) re-decoded where that yields a different encodable predicate, every program-address bit of the first node (thorough), remove / duplicate each predicate, add each pool predicate; signature tamperings = every single-bit flip of the 64 signature bytes (quick: every 4th bit), recovery byte 0..=255 (quick: on the first salt only), and 12 malformed strings (all-zero with ids 0..3 and 255, all-0xFF, r=0, s=0, r=n, s=n, r=n-1 with s=n, id 4) and the malleated high-S twin (r, n-s, id^1) of the genuine signature. Oracle: genuine signature on the same multiset of predicates and salt => recover = the signer's key (derived independently with secp256k1), verify and verify_message Ok; changed content => recover is Err or another key and verify_message Err; flipped signature bit / other recovery id => Err or another key; malformed (id>3, r or s zero or >= group order) => Err; every subject call under catch_unwind; encode::public_key / encode::signature collision-free over every key and signature met, every key's negation (differs only in the parity byte) and every valid key that shares all but the last serialized byte with a signer's key, *_as_bytes = big-endian bytes of the words; RecoverSecp256k1 through sync::step_op on [address words, encode::signature words] pushes encode::public_key(recovered key); check_signed_contract accepts exactly when verify does. non-trivial = the presented contract has a predicate or the signature/content was tampered; distinct by probe",
        assumptions: &["keys come from a fixed pool of 4 (thorough: 8) and contracts from a pool of small predicates: structural dimensions (permutations, fields, bits) exhausted, the 2^256 key and digest spaces are not"],
        run,
        replay,
        describe_wal: None,
        run_wal: None,
        both_profiles: false,
        workers: 0,
    }
}

// ---------------------------------------------------------------------------------------------
// Probes

#[derive(Clone, Debug, PartialEq, Eq, Hash, Serialize, Deserialize)]
pub enum SigSpec {
    /// The signature produced by `contract::sign(signed_over, key)`.
    Genuine,
    /// One bit of the 64 signature bytes flipped.
    FlipBit(u16),
    /// The recovery byte replaced.
    RecId(u8),
    /// An arbitrary 65-byte string (hex of 64 bytes, recovery byte).
    Raw(String, u8),
}

#[derive(Clone, Debug, PartialEq, Eq, Hash, Serialize, Deserialize)]
pub struct Probe {
    /// Secret key = `[29 * key; 32]`.
    pub key: u8,
    /// What the signer signed.
    pub signed_over: Contract,
    /// What is presented together with the signature.
    pub presented: Contract,
    pub sig: SigSpec,
}

struct Finding {
    sig: Signature,
    expected: Value,
    observed: Value,
    assertion: String,
    /// A self-contained case replacing the probe (injectivity collisions need both pre-images).
    case: Option<Value>,
}

#[derive(Default)]
struct Pools {
    /// encode::public_key words -> serialized key
    pks: HashMap<[Word; 5], Vec<u8>>,
    /// encode::signature words -> (64 bytes, id)
    sigs: HashMap<[Word; 9], (Vec<u8>, u8)>,
}

struct Outcome {
    nontrivial: bool,
    observation: u64,
    findings: Vec<Finding>,
    masks: Vec<&'static str>,
}

fn secret(key: u8) -> SecretKey {
    SecretKey::from_slice(&[key.wrapping_mul(29); 32]).expect("valid secret key")
}

/// secp256k1 group order, big endian.
const ORDER: [u8; 32] = [
    0xFF, 0xFF, 0xFF, 0xFF, 0xFF, 0xFF, 0xFF, 0xFF, 0xFF, 0xFF, 0xFF, 0xFF, 0xFF, 0xFF, 0xFF, 0xFE, 0xBA, 0xAE, 0xDC, 0xE6, 0xAF, 0x48, 0xA0, 0x3B, 0xBF, 0xD2, 0x5E, 0x8C, 0xD0, 0x36, 0x41, 0x41,
];

fn malformed(bytes: &[u8; 64], id: u8) -> bool {
    let bad = |x: &[u8]| x.iter().all(|&b| b == 0) || x >= &ORDER[..];
    id > 3 || bad(&bytes[..32]) || bad(&bytes[32..])
}

fn same_content(a: &Contract, b: &Contract) -> bool {
    let mut pa = a.predicates.clone();
    let mut pb = b.predicates.clone();
    pa.sort();
    pb.sort();
    pa == pb && a.salt == b.salt
}

fn be_words(bytes: &[u8]) -> Vec<Word> {
    bytes.chunks(8).map(|c| Word::from_be_bytes(c.try_into().expect("multiple of 8"))).collect()
}

fn panic_finding(what: &str, p: (String, String)) -> Finding {
    Finding {
        sig: Signature::new("C19", "no_panic").site(format!("{}: {}", p.0, p.1)),
        expected: json!("Ok or Err"),
        observed: json!(format!("{what} panicked at {}: {}", p.0, p.1)),
        assertion: format!("let _ = {what}; // must not panic"),
        case: None,
    }
}

/// Run RecoverSecp256k1 on `[digest words, signature words.., id]`; Ok(top 5 words) or Err.
fn vm_recover(digest: [u8; 32], sig_words: &[Word; 9]) -> Result<Result<Vec<Word>, String>, (String, String)> {
    let mut stack: Vec<Word> = word_4_from_u8_32(digest).to_vec();
    stack.extend(sig_words);
    let mut vm = real_vm_from(&RVm { pc: 0, stack, memory: vec![], parent_memory: None, repeat: vec![] });
    let access = essential_vm::Access { solutions: Arc::new(vec![test_solution(vec![])]), index: 0 };
    let op = Op::Crypto(asm::Crypto::RecoverSecp256k1);
    let ops = [op.clone()];
    let state = small_state();
    let r = catch(|| essential_vm::sync::step_op(access, op.clone(), &mut vm, &state, &ops[..], &|_: &Op| 1, essential_vm::GasLimit::UNLIMITED))?;
    Ok(match r {
        Ok(_) => Ok(vm.stack.to_vec()),
        Err(e) => Err(format!("{e:?}")),
    })
}

fn pool_pk(pools: &mut Pools, pk: &PublicKey, findings: &mut Vec<Finding>) {
    let secp = Secp256k1::new();
    for k in [*pk, pk.negate(&secp)] {
        let (words, bytes) = match catch(|| (essential_sign::encode::public_key(&k), essential_sign::encode::public_key_as_bytes(&k))) {
            Ok(x) => x,
            Err(p) => {
                findings.push(panic_finding("encode::public_key(&pk)", p));
                continue;
            }
        };
        if be_words(&bytes) != words {
            findings.push(Finding {
                sig: Signature::new("C19", "encode.injective").feat("public_key_as_bytes != big-endian bytes of public_key words"),
                expected: json!({"words": words}),
                observed: json!({"bytes": hex::encode(bytes)}),
                assertion: "// public_key_as_bytes(pk) must be the big-endian bytes of public_key(pk)".into(),
                case: None,
            });
        }
        let ser = k.serialize().to_vec();
        match pools.pks.get(&words) {
            Some(other) if *other != ser => findings.push(Finding {
                sig: Signature::new("C19", "encode.injective").feat("public_key"),
                expected: json!("different keys have different encodings"),
                observed: json!({"kind": "inj_pk", "a": hex::encode(other), "b": hex::encode(&ser), "words": words}),
                assertion: "// two different public keys with one encoding, see `observed`".into(),
                case: Some(json!({"kind": "inj_pk", "a": hex::encode(other), "b": hex::encode(&ser)})),
            }),
            Some(_) => {}
            None => {
                pools.pks.insert(words, ser);
            }
        }
    }
}

fn pool_sig(pools: &mut Pools, bytes: &[u8; 64], id: u8, words: [Word; 9], findings: &mut Vec<Finding>) {
    match pools.sigs.get(&words) {
        Some((b, i)) if b[..] != bytes[..] || *i != id => findings.push(Finding {
            sig: Signature::new("C19", "encode.injective").feat("signature"),
            expected: json!("different signatures have different encodings"),
            observed: json!({"kind": "inj_sig", "a": [hex::encode(b), i.to_string()], "b": [hex::encode(bytes), id.to_string()], "words": words}),
            assertion: "// two different signatures with one encoding, see `observed`".into(),
            case: Some(json!({"kind": "inj_sig", "a": [hex::encode(b), i.to_string()], "b": [hex::encode(bytes), id.to_string()]})),
        }),
        Some(_) => {}
        None => {
            pools.sigs.insert(words, (bytes.to_vec(), id));
        }
    }
}

fn probe(p: &Probe, genuine: Option<&TSig>, pools: &mut Pools) -> Outcome {
    let mut o = Outcome { nontrivial: !p.presented.predicates.is_empty() || p.sig != SigSpec::Genuine || p.presented != p.signed_over, observation: 0, findings: vec![], masks: vec![] };
    let secp = Secp256k1::new();
    let sk = secret(p.key);
    let pk = PublicKey::from_secret_key(&secp, &sk);
    let genuine: TSig = match genuine {
        Some(g) => g.clone(),
        None => match catch(|| essential_sign::contract::sign(p.signed_over.clone(), &sk)) {
            Ok(s) => s.signature,
            Err(e) => {
                o.findings.push(panic_finding("contract::sign(contract, &sk)", e));
                return o;
            }
        },
    };
    let signature = match &p.sig {
        SigSpec::Genuine => genuine.clone(),
        SigSpec::FlipBit(b) => {
            let mut s = genuine.0;
            s[(*b / 8) as usize % 64] ^= 1 << (b % 8);
            essential_types::Signature(s, genuine.1)
        }
        SigSpec::RecId(i) => essential_types::Signature(genuine.0, *i),
        SigSpec::Raw(h, i) => {
            let mut s = [0u8; 64];
            if hex::decode_to_slice(h, &mut s).is_err() {
                o.masks.push("unparsable raw signature in probe");
                return o;
            }
            essential_types::Signature(s, *i)
        }
    };
    let sc = SignedContract { contract: p.presented.clone(), signature: signature.clone() };
    // ---- subject calls, each under catch
    let rec = match catch(|| essential_sign::contract::recover(&sc)) {
        Ok(r) => r.ok(),
        Err(e) => {
            o.findings.push(panic_finding("contract::recover(&sc)", e));
            return o;
        }
    };
    let ver = match catch(|| essential_sign::contract::verify(&sc)) {
        Ok(r) => r.is_ok(),
        Err(e) => {
            o.findings.push(panic_finding("contract::verify(&sc)", e));
            return o;
        }
    };
    let chk = match catch(|| essential_check::predicate::check_signed_contract(&sc)) {
        Ok(r) => r.is_ok(),
        Err(e) => {
            o.findings.push(panic_finding("essential_check::predicate::check_signed_contract(&sc)", e));
            return o;
        }
    };
    let addr = match catch(|| essential_hash::content_addr(&p.presented)) {
        Ok(a) => a,
        Err(e) => {
            o.findings.push(panic_finding("essential_hash::content_addr(&contract)", e));
            return o;
        }
    };
    let vmsg = match catch(|| essential_sign::verify_message(&Message::from_digest(addr.0), &signature.0, &pk)) {
        Ok(r) => r.is_ok(),
        Err(e) => {
            o.findings.push(panic_finding("verify_message(&msg, &sig.0, &pk)", e));
            return o;
        }
    };
    let same = same_content(&p.presented, &p.signed_over);
    let exact = p.presented == p.signed_over;
    let is_genuine = signature == genuine;
    let bad = malformed(&signature.0, signature.1);
    let rec_hex = rec.map(|k| hex::encode(k.serialize()));
    let pk_hex = hex::encode(pk.serialize());
    let mut fail = |clause: &str, feat: &str, expected: Value, observed: Value, assertion: &str| {
        let mut sig = Signature::new("C19", clause);
        if !feat.is_empty() {
            sig = sig.feat(feat);
        }
        o.findings.push(Finding { sig, expected, observed, assertion: assertion.to_string(), case: None });
    };
    if is_genuine && same {
        let clause = if exact { "sign_recover" } else { "permutation_independent" };
        if rec != Some(pk) {
            fail(clause, "recover", json!({"recover": pk_hex}), json!({"recover": rec_hex}), "assert_eq!(recover(&sc).ok(), Some(pk));");
        }
        if !ver {
            fail(if exact { "verify" } else { clause }, "verify", json!("verify is Ok"), json!("Err"), "verify(&sc).unwrap();");
        }
        if !vmsg {
            fail(if exact { "verify" } else { clause }, "verify_message", json!("verify_message against the signer's key is Ok"), json!("Err"), "essential_sign::verify_message(&msg, &sc.signature.0, &pk).unwrap();");
        }
    } else if is_genuine {
        if rec == Some(pk) {
            fail("tamper.content", "recover", json!("Err or a key other than the signer's"), json!({"recover": rec_hex}), "assert_ne!(recover(&sc).ok(), Some(pk));");
        }
        if vmsg {
            fail("tamper.content", "verify_message", json!("verify_message against the signer's key is Err"), json!("Ok"), "essential_sign::verify_message(&msg, &sc.signature.0, &pk).unwrap_err();");
        }
    } else if same {
        if bad {
            if rec.is_some() || ver {
                fail("malformed_is_error", "", json!({"recover": "Err", "verify": "Err"}), json!({"recover": rec_hex, "verify_ok": ver}), "assert!(recover(&sc).is_err() && verify(&sc).is_err());");
            }
        } else if matches!(p.sig, SigSpec::FlipBit(_) | SigSpec::RecId(_)) {
            if rec == Some(pk) {
                fail("tamper.signature", "recover", json!("Err or a key other than the signer's"), json!({"recover": rec_hex}), "assert_ne!(recover(&sc).ok(), Some(pk));");
            }
            if matches!(p.sig, SigSpec::FlipBit(_)) && vmsg {
                fail("tamper.signature", "verify_message", json!("verify_message against the signer's key is Err"), json!("Ok"), "essential_sign::verify_message(&msg, &sc.signature.0, &pk).unwrap_err();");
            }
        }
    }
    if chk != ver {
        fail("check_signed_contract.agrees", if chk { "check accepts, verify rejects" } else { "check rejects, verify accepts" }, json!({"check_signed_contract_ok": ver}), json!({"check_signed_contract_ok": chk, "verify_ok": ver}), "assert_eq!(essential_check::predicate::check_signed_contract(&sc).is_ok(), verify(&sc).is_ok());");
    }
    // ---- encodings and the VM
    let mut vm_obs = None;
    if let Some(k) = rec {
        pool_pk(pools, &k, &mut o.findings);
    }
    if let Some(rsig) = RecoveryId::try_from(i32::from(signature.1)).ok().and_then(|id| RecoverableSignature::from_compact(&signature.0, id).ok()) {
        match catch(|| (essential_sign::encode::signature(&rsig), essential_sign::encode::signature_as_bytes(&rsig))) {
            Err(e) => o.findings.push(panic_finding("encode::signature(&sig)", e)),
            Ok((words, bytes)) => {
                if be_words(&bytes) != words {
                    o.findings.push(Finding {
                        sig: Signature::new("C19", "encode.injective").feat("signature_as_bytes != big-endian bytes of signature words"),
                        expected: json!({"words": words}),
                        observed: json!({"bytes": hex::encode(bytes)}),
                        assertion: "// signature_as_bytes(sig) must be the big-endian bytes of signature(sig)".into(),
                        case: None,
                    });
                }
                pool_sig(pools, &signature.0, signature.1, words, &mut o.findings);
                match vm_recover(addr.0, &words) {
                    Err(e) => o.findings.push(panic_finding("RecoverSecp256k1", e)),
                    Ok(vm) => {
                        match (&rec, &vm) {
                            (Some(k), Ok(stack)) => {
                                let want = catch(|| essential_sign::encode::public_key(k)).map(|w| w.to_vec()).unwrap_or_default();
                                if *stack != want {
                                    o.findings.push(Finding {
                                        sig: Signature::new("C19", "encode.vm_agrees").feat(if stack.len() == 5 && stack[..4] == want[..4] { "fifth word differs" } else { "recovered key words differ" }),
                                        expected: json!({"stack_after_RecoverSecp256k1": want, "is": "encode::public_key(recover(&sc))"}),
                                        observed: json!({"stack_after_RecoverSecp256k1": stack, "stack_before": {"digest_words": word_4_from_u8_32(addr.0), "encode_signature_words": words}}),
                                        assertion: "// run Crypto::RecoverSecp256k1 on [word_4_from_u8_32(content_addr(&sc.contract).0), encode::signature(&rsig)]: the stack must equal encode::public_key(&recover(&sc).unwrap())".into(),
                                        case: None,
                                    });
                                }
                            }
                            (Some(_), Err(e)) => o.findings.push(Finding {
                                sig: Signature::new("C19", "encode.vm_agrees").feat("vm errors on a recoverable signature"),
                                expected: json!("Ok"),
                                observed: json!(e),
                                assertion: "// Crypto::RecoverSecp256k1 must succeed on the encode::signature words".into(),
                                case: None,
                            }),
                            (None, _) => o.masks.push("VM result for an unrecoverable signature (owned by the VM crypto property)"),
                        }
                        vm_obs = Some(vm.ok());
                    }
                }
            }
        }
    }
    o.observation = hash_of(&(rec_hex, ver, chk, vmsg, vm_obs));
    o
}

// ---------------------------------------------------------------------------------------------
// Snippets

fn rust_contract(c: &Contract) -> String {
    let preds: Vec<String> = c
        .predicates
        .iter()
        .map(|p| {
            let nodes: Vec<String> = p.nodes.iter().map(|n| format!("Node {{ edge_start: {}, program_address: ContentAddress({:?}) }}", n.edge_start, n.program_address.0)).collect();
            format!("Predicate {{ nodes: vec![{}], edges: vec!{:?} }}", nodes.join(", "), p.edges)
        })
        .collect();
    format!("Contract {{ predicates: vec![{}], salt: {:?} }}", preds.join(", "), c.salt)
}

fn snippet(p: &Probe, assertion: &str) -> String {
    let sig = match &p.sig {
        SigSpec::Genuine => "genuine".to_string(),
        SigSpec::FlipBit(b) => format!("{{ let mut s = genuine.0; s[{}] ^= 1 << {}; Signature(s, genuine.1) }}", b / 8, b % 8),
        SigSpec::RecId(i) => format!("Signature(genuine.0, {i})"),
        SigSpec::Raw(h, i) => format!("Signature(<[u8; 64]>::try_from(hex::decode(\"{h}\").unwrap()).unwrap(), {i})"),
    };
    format!(
        "#[test]\nfn replay() {{\n    use essential_sign::{{contract::*, secp256k1::{{Message, PublicKey, Secp256k1, SecretKey}}}};\n    use essential_types::{{contract::*, predicate::*, ContentAddress, Signature}};\n    let sk = SecretKey::from_slice(&[{}; 32]).unwrap();\n    let pk = PublicKey::from_secret_key(&Secp256k1::new(), &sk);\n    let signed_over = {};\n    let presented = {};\n    let genuine = sign(signed_over, &sk).signature;\n    let _ = &genuine;\n    let sc = SignedContract {{ contract: presented, signature: {sig} }};\n    let msg = Message::from_digest(essential_hash::content_addr(&sc.contract).0);\n    let _ = (&msg, &pk);\n    {assertion}\n}}\n",
        p.key.wrapping_mul(29),
        rust_contract(&p.signed_over),
        rust_contract(&p.presented),
    )
}

// ---------------------------------------------------------------------------------------------
// Enumeration

fn pa(b: u8) -> ContentAddress {
    ContentAddress([b; 32])
}

fn pred_pool() -> Vec<Predicate> {
    let leaf = |b| Node { edge_start: u16::MAX, program_address: pa(b) };
    let inner = |s, b| Node { edge_start: s, program_address: pa(b) };
    vec![
        Predicate { nodes: vec![], edges: vec![] },
        Predicate { nodes: vec![leaf(0xA1)], edges: vec![] },
        Predicate { nodes: vec![leaf(0xB2)], edges: vec![] },
        Predicate { nodes: vec![inner(0, 0xA1), leaf(0xB2)], edges: vec![1] },
        Predicate { nodes: vec![inner(0, 0xA1), leaf(0xA1)], edges: vec![1, 1] },
        Predicate { nodes: vec![leaf(0xA1), leaf(0xB2)], edges: vec![] },
    ]
}

fn bases() -> Vec<Vec<Predicate>> {
    let pool = pred_pool();
    let n = pool.len();
    let mut v = vec![vec![]];
    for a in 0..n {
        v.push(vec![pool[a].clone()]);
        for b in a + 1..n {
            v.push(vec![pool[a].clone(), pool[b].clone()]);
            for c in b + 1..n {
                v.push(vec![pool[a].clone(), pool[b].clone(), pool[c].clone()]);
            }
        }
    }
    v.push(vec![pool[1].clone(), pool[1].clone()]);
    v.push(vec![pool[1].clone(), pool[3].clone(), pool[1].clone()]);
    // predicates exactly at the documented limits (1000 nodes / 1000 edges): within limits, so the
    // signature must bind them like any other
    v.push(vec![limit_predicate(true)]);
    v.push(vec![pool[1].clone(), limit_predicate(false)]);
    v
}

fn limit_predicate(nodes: bool) -> Predicate {
    if nodes {
        Predicate { nodes: (0..1000).map(|i| Node { edge_start: u16::MAX, program_address: pa(if i % 2 == 0 { 0xA1 } else { 0xB2 }) }).collect(), edges: vec![] }
    } else {
        Predicate { nodes: vec![Node { edge_start: 0, program_address: pa(0xA1) }, Node { edge_start: u16::MAX, program_address: pa(0xB2) }], edges: vec![1; 1000] }
    }
}

fn salts() -> [[u8; 32]; 2] {
    let mut s = [0u8; 32];
    for (i, b) in s.iter_mut().enumerate() {
        *b = (i as u8).wrapping_mul(37).wrapping_add(11);
    }
    [[0; 32], s]
}

fn permutations<T: Clone>(v: &[T]) -> Vec<Vec<T>> {
    if v.len() <= 1 {
        return vec![v.to_vec()];
    }
    let mut out = vec![];
    for i in 0..v.len() {
        let mut rest = v.to_vec();
        let x = rest.remove(i);
        for mut p in permutations(&rest) {
            p.insert(0, x.clone());
            out.push(p);
        }
    }
    out
}

/// Every differing, still encodable predicate reachable by xor-ing one byte of the encoding.
fn predicate_tamperings(p: &Predicate, masks: &[u8], addr_bits: bool) -> Vec<Predicate> {
    if p.nodes.len() >= 500 || p.edges.len() >= 500 {
        // large predicates: structural edits only (not through the codec under test), staying within limits
        let mut out = vec![];
        let n = p.nodes.len();
        for i in [0, n / 2, n - 1] {
            let mut q = p.clone();
            q.nodes[i].program_address.0[31] ^= 1;
            out.push(q);
            let mut q = p.clone();
            q.nodes[i].edge_start = q.nodes[i].edge_start.wrapping_sub(1);
            out.push(q);
        }
        if !p.edges.is_empty() {
            let e = p.edges.len();
            for i in [0, e / 2, e - 1] {
                let mut q = p.clone();
                q.edges[i] ^= 1;
                out.push(q);
            }
            let mut q = p.clone();
            q.edges.pop();
            out.push(q);
        }
        let mut q = p.clone();
        q.nodes.pop();
        out.push(q);
        out.retain(|q| q != p);
        out.dedup();
        return out;
    }
    let Ok(enc) = p.encode() else { return vec![] };
    let bytes: Vec<u8> = enc.collect();
    let mut out = vec![];
    for i in 0..bytes.len() {
        for &m in masks {
            let mut b = bytes.clone();
            b[i] ^= m;
            if let Ok(Ok(q)) = catch(|| Predicate::decode(&b)) {
                if q != *p && q.encode().is_ok() && q.nodes.len() <= 1000 && q.edges.len() <= 1000 {
                    out.push(q);
                }
            }
        }
    }
    if addr_bits && !p.nodes.is_empty() {
        for bit in 0..256 {
            let mut q = p.clone();
            q.nodes[0].program_address.0[bit / 8] ^= 1 << (bit % 8);
            out.push(q);
        }
    }
    out
}

fn raw_specials(g: &TSig) -> Vec<(String, u8)> {
    let mut v = vec![];
    let h = |b: &[u8; 64]| hex::encode(b);
    for id in [0u8, 1, 2, 3, 255] {
        v.push((h(&[0; 64]), id));
    }
    v.push((h(&[0xFF; 64]), 0));
    let mut x = g.0;
    x[..32].fill(0);
    v.push((h(&x), g.1));
    let mut x = g.0;
    x[32..].fill(0);
    v.push((h(&x), g.1));
    let mut x = g.0;
    x[..32].copy_from_slice(&ORDER);
    v.push((h(&x), g.1));
    let mut x = g.0;
    x[32..].copy_from_slice(&ORDER);
    v.push((h(&x), g.1));
    let mut x = g.0;
    x[..32].copy_from_slice(&ORDER);
    x[31] -= 1;
    x[32..].copy_from_slice(&ORDER);
    v.push((h(&x), g.1));
    v.push((h(&g.0), 4));
    // the malleated twin (r, n - s, id ^ 1): well-formed, high-S, recovers the SAME key natively
    // (signing only ever emits low-S, so this form has to be constructed)
    let mut twin = g.0;
    let mut borrow = 0i16;
    for i in (0..32).rev() {
        let d = ORDER[i] as i16 - g.0[32 + i] as i16 - borrow;
        borrow = (d < 0) as i16;
        twin[32 + i] = (d + 256 * borrow) as u8;
    }
    if g.1 < 4 {
        v.push((h(&twin), g.1 ^ 1));
    }
    v
}

/// Pool every valid public key that shares all but the last serialized byte with key `key`.
fn siblings(key: u8, pools: &mut Pools, findings: &mut Vec<Finding>) -> u64 {
    let ser = PublicKey::from_secret_key(&Secp256k1::new(), &secret(key)).serialize();
    let mut n = 0;
    for last in 0..=255u8 {
        let mut s2 = ser;
        s2[32] = last;
        if let Ok(k) = PublicKey::from_slice(&s2) {
            n += 1;
            pool_pk(pools, &k, findings);
        }
    }
    n
}

fn record(p: &Probe, o: Outcome, rep: &mut Report) {
    rep.eval(o.nontrivial.then(|| hash_of(p)), o.observation);
    for m in o.masks {
        rep.mask(m);
    }
    for f in o.findings {
        let key = f.sig.key();
        rep.violate(|| viol(f.sig, f.case.unwrap_or_else(|| json!({"kind": "probe", "probe": p})), f.expected, f.observed, snippet(p, &f.assertion)), Some(&key));
    }
}

fn run(cfg: &RunCfg, rep: &mut Report) {
    let quick = cfg.tier == Tier::Quick;
    let bit_stride = cfg.tier.pick(4, 1);
    let masks: &[u8] = cfg.tier.pick(&[0x01], &[0x01, 0x80]);
    rep.bound_completed = format!(
        "{} keys x {} contracts x 2 salts; all permutations; salt/signature bit stride {bit_stride}; predicate-encoding byte masks {masks:02x?}; recovery byte 0..=255 {}; 12 malformed signatures per item",
        cfg.tier.pick(4, 8),
        bases().len(),
        cfg.tier.pick("on the first salt", "on both salts")
    );
    let pool = pred_pool();
    let mut pools = Pools::default();
    let mut item = 0u64;
    let mut n_probe = 0u64;
    // Keys that differ in a single byte of the 33-byte serialization: every valid key sharing all
    // but the last byte with a signer's key, and (inside pool_pk) every key's negation.
    if cfg.mine(0) {
        for key in 1..=cfg.tier.pick(4u8, 8) {
            let mut findings = vec![];
            let n = siblings(key, &mut pools, &mut findings);
            rep.eval(Some(hash_of(&("siblings", key))), n);
            rep.add_extra("sibling_public_keys", n);
            for f in findings {
                let k = f.sig.key();
                rep.violate(|| viol(f.sig, f.case.unwrap_or_else(|| json!({"kind": "siblings", "key": key})), f.expected, f.observed, f.assertion), Some(&k));
            }
        }
    }
    for key in 1..=cfg.tier.pick(4u8, 8) {
        let sk = secret(key);
        for base in bases() {
            for (si, salt) in salts().into_iter().enumerate() {
                item += 1;
                if !cfg.mine(item) {
                    continue;
                }
                let signed_over = Contract { predicates: base.clone(), salt };
                let genuine = match catch(|| essential_sign::contract::sign(signed_over.clone(), &sk)) {
                    Ok(s) => s.signature,
                    Err(_) => {
                        // let the probe report the panic
                        let p = Probe { key, signed_over: signed_over.clone(), presented: signed_over.clone(), sig: SigSpec::Genuine };
                        let o = probe(&p, None, &mut pools);
                        record(&p, o, rep);
                        continue;
                    }
                };
                let mut go_signed = |other_signer_input: Option<Contract>, presented: Contract, sig: SigSpec, rep: &mut Report| {
                    let known = other_signer_input.is_none().then_some(&genuine);
                    let p = Probe { key, signed_over: other_signer_input.unwrap_or_else(|| signed_over.clone()), presented, sig };
                    let o = probe(&p, known, &mut pools);
                    n_probe += 1;
                    if n_probe % 1201 == 17 {
                        rep.sample(|| json!(p));
                    }
                    record(&p, o, rep);
                };
                // permutations: present each order; sign each order and present the original
                for perm in permutations(&base) {
                    go_signed(None, Contract { predicates: perm.clone(), salt }, SigSpec::Genuine, rep);
                    if perm != base {
                        go_signed(Some(Contract { predicates: perm, salt }), signed_over.clone(), SigSpec::Genuine, rep);
                    }
                }
                let mut go = |presented: Contract, sig: SigSpec, rep: &mut Report| go_signed(None, presented, sig, rep);
                // content: salt bits
                for bit in (0..256).step_by(bit_stride) {
                    let mut s2 = salt;
                    s2[bit / 8] ^= 1 << (bit % 8);
                    go(Contract { predicates: base.clone(), salt: s2 }, SigSpec::Genuine, rep);
                }
                // content: predicate fields
                for i in 0..base.len() {
                    for q in predicate_tamperings(&base[i], masks, !quick) {
                        let mut ps = base.clone();
                        ps[i] = q;
                        let presented = Contract { predicates: ps, salt };
                        if !same_content(&presented, &signed_over) {
                            go(presented, SigSpec::Genuine, rep);
                        }
                    }
                    let mut removed = base.clone();
                    removed.remove(i);
                    go(Contract { predicates: removed, salt }, SigSpec::Genuine, rep);
                    let mut dup = base.clone();
                    dup.push(base[i].clone());
                    go(Contract { predicates: dup, salt }, SigSpec::Genuine, rep);
                }
                for extra in &pool {
                    let mut added = base.clone();
                    added.insert(0, extra.clone());
                    go(Contract { predicates: added, salt }, SigSpec::Genuine, rep);
                }
                // signature
                for bit in (0..512u16).step_by(bit_stride) {
                    go(signed_over.clone(), SigSpec::FlipBit(bit), rep);
                }
                if !quick || si == 0 {
                    for id in 0..=255u8 {
                        go(signed_over.clone(), SigSpec::RecId(id), rep);
                    }
                }
                for (h, id) in raw_specials(&genuine) {
                    go(signed_over.clone(), SigSpec::Raw(h, id), rep);
                }
            }
        }
    }
    rep.add_extra("probes", n_probe);
    rep.add_extra("distinct_public_keys_encoded", pools.pks.len() as u64);
    rep.add_extra("distinct_signatures_encoded", pools.sigs.len() as u64);
}

fn replay(case: &Value) -> Result<bool, String> {
    match case["kind"].as_str() {
        Some("inj_pk") => {
            let k = |f: &str| -> Result<PublicKey, String> { PublicKey::from_slice(&hex::decode(case[f].as_str().unwrap_or("")).map_err(|e| e.to_string())?).map_err(|e| e.to_string()) };
            let (a, b) = (k("a")?, k("b")?);
            return Ok(a != b && essential_sign::encode::public_key(&a) == essential_sign::encode::public_key(&b));
        }
        Some("inj_sig") => {
            let k = |f: &str| -> Result<RecoverableSignature, String> {
                let bytes = hex::decode(case[f][0].as_str().unwrap_or("")).map_err(|e| e.to_string())?;
                let id: i32 = case[f][1].as_str().unwrap_or("").parse().map_err(|_| "id".to_string())?;
                RecoverableSignature::from_compact(&bytes, RecoveryId::try_from(id).map_err(|e| e.to_string())?).map_err(|e| e.to_string())
            };
            let (a, b) = (k("a")?, k("b")?);
            return Ok(a != b && essential_sign::encode::signature(&a) == essential_sign::encode::signature(&b));
        }
        Some("siblings") => {
            let mut findings = vec![];
            siblings(case["key"].as_u64().unwrap_or(1) as u8, &mut Pools::default(), &mut findings);
            return Ok(!findings.is_empty());
        }
        _ => {}
    }
    let p: Probe = serde_json::from_value(case["probe"].clone()).map_err(|e| e.to_string())?;
    let mut pools = Pools::default();
    let o = probe(&p, None, &mut pools);
    Ok(!o.findings.is_empty())
}
