//! C11 — state-read ops pass the exact request and lay results out as documented.
use crate::fw::*;
use crate::refvm::{self, RVm, RefEnv, W};
use crate::util::*;
use crate::PropSpec;
use essential_asm::{self as asm, Op};
use essential_types::{solution::Solution, ContentAddress};
use essential_vm::{error::OpError, GasLimit, StateRead, StateReads};
use serde::{Deserialize, Serialize};
use serde_json::{json, Value};
use std::sync::{Arc, Mutex};

pub fn spec() -> PropSpec {
    PropSpec {
        id: "C11",
        level: "exploration",
        rule: "full product: read op (4) x frame below the operands {[],[77]} x external address {A,B} x solution index {only solution, last of three solutions of different contracts} x key {[],[5],[5,6],[MAX],[MIN,0,7],[1;9]} x key-length operand {right, one too large, negative} x count {0,1,2,3,-1,MAX} x memory address {0,1,2,len-2,len,-1,MAX} x memory size {0..8,12,40} (pattern pre-filled) x environment answer {[], [[]], [[9]], [[9,8],[7]], [[],[1,2,3]], one value fewer than asked, one more than asked, three values of 4 words, Err}; pre and post views are different recorders with different contents. Oracle: exactly one call on the right view with (solved contract | popped 4-word address, popped key, popped count); memory equals the documented layout with every other word and the length unchanged; stack = frame; does-not-fit / bad operands => Err; a state Err comes back unchanged. non-trivial = the state was actually asked; distinct by full input tuple",
        assumptions: &["the request is observed through a recording StateRead; answers are chosen by the harness (the state is the environment)"],
        run,
        replay,
        describe_wal: None,
        run_wal: None,
        both_profiles: false,
        workers: 0,
    }
}

#[derive(Clone, Debug, PartialEq, Eq, Hash, Serialize, Deserialize)]
pub struct Case {
    pub op: u8,
    pub frame: Vec<W>,
    pub ext: u8,
    pub key: Vec<W>,
    pub klen_mode: u8,
    pub count: W,
    pub addr: W,
    pub mem: usize,
    pub answer: u8,
    /// 0: one solution, index 0; k > 0: three solutions of different contracts, the VM runs for index k
    #[serde(default)]
    pub idx: u8,
}

type Req = (bool, [u8; 32], Vec<W>, usize);

#[derive(Clone)]
struct Rec {
    post: bool,
    log: Arc<Mutex<Vec<Req>>>,
    answer: u8,
}

fn answer_for(answer: u8, post: bool, n: usize) -> Result<Vec<Vec<W>>, String> {
    let bump = if post { 100 } else { 0 };
    let v: Vec<Vec<W>> = match answer {
        0 => vec![],
        1 => vec![vec![]],
        2 => vec![vec![9]],
        3 => vec![vec![9, 8], vec![7]],
        4 => vec![vec![], vec![1, 2, 3]],
        5 => (0..n.saturating_sub(1).min(50)).map(|i| vec![3 + i as W]).collect(),
        6 => (0..(n.min(50) + 1)).map(|i| vec![3 + i as W]).collect(),
        7 => vec![vec![1, 2, 3, 4], vec![5, 6, 7, 8], vec![9, 10, 11, 12]],
        _ => return Err(format!("boom-{}", if post { "post" } else { "pre" })),
    };
    Ok(v.into_iter().map(|x| x.into_iter().map(|w| w + bump).collect()).collect())
}

impl StateRead for Rec {
    type Error = String;
    fn key_range(&self, c: ContentAddress, key: Vec<W>, n: usize) -> Result<Vec<Vec<W>>, String> {
        self.log.lock().unwrap().push((self.post, c.0, key, n));
        answer_for(self.answer, self.post, n)
    }
}

#[derive(Clone)]
struct Both(Rec, Rec);
impl StateReads for Both {
    type Error = String;
    type Pre = Rec;
    type Post = Rec;
    fn pre(&self) -> &Rec {
        &self.0
    }
    fn post(&self) -> &Rec {
        &self.1
    }
}

struct REnv {
    sols: Vec<Solution>,
    log: Mutex<Vec<Req>>,
    answer: u8,
    index: usize,
}
impl RefEnv for REnv {
    fn solutions(&self) -> &[Solution] {
        &self.sols
    }
    fn index(&self) -> usize {
        self.index
    }
    fn key_range(&self, post: bool, contract: [u8; 32], key: &[W], n: usize) -> Result<Vec<Vec<W>>, String> {
        self.log.lock().unwrap().push((post, contract, key.to_vec(), n));
        answer_for(self.answer, post, n)
    }
    fn op_cost(&self, _: &Op) -> u64 {
        1
    }
    fn gas_limit(&self) -> u64 {
        u64::MAX
    }
}

fn the_op(i: u8) -> Op {
    use asm::StateRead::*;
    Op::StateRead(match i {
        0 => KeyRange,
        1 => KeyRangeExtern,
        2 => PostKeyRange,
        _ => PostKeyRangeExtern,
    })
}

fn build(c: &Case) -> RVm {
    let mut stack = c.frame.clone();
    if c.op == 1 || c.op == 3 {
        stack.extend(refvm::words4([if c.ext == 0 { 0xA5 } else { 0xB6 }; 32]));
    }
    stack.extend(&c.key);
    let klen = match c.klen_mode {
        0 => c.key.len() as W,
        1 => stack.len() as W + 1,
        _ => -1,
    };
    stack.extend([klen, c.count, c.addr]);
    RVm { pc: 0, stack, memory: (0..c.mem as W).map(|i| 1000 + i).collect(), parent_memory: None, repeat: vec![] }
}

fn check(c: &Case, rep: &mut Report) {
    let init = build(c);
    let op = the_op(c.op);
    let mut sols = vec![test_solution(vec![])];
    if c.idx > 0 {
        for b in [0xC2u8, 0xC3] {
            let mut s = test_solution(vec![]);
            s.predicate_to_solve.contract = ca(b);
            sols.push(s);
        }
    }
    let index = c.idx as usize;
    // real
    let log = Arc::new(Mutex::new(vec![]));
    let state = Both(Rec { post: false, log: log.clone(), answer: c.answer }, Rec { post: true, log: log.clone(), answer: c.answer });
    let mut vm = real_vm_from(&init);
    let access = essential_vm::Access { solutions: Arc::new(sols.clone()), index };
    let ops = [op.clone()];
    let r = catch(|| essential_vm::sync::step_op(access, op.clone(), &mut vm, &state, &ops[..], &|_: &Op| 1, GasLimit::UNLIMITED));
    let real_log = log.lock().unwrap().clone();
    // reference
    let env = REnv { sols, log: Mutex::new(vec![]), answer: c.answer, index };
    let mut rvm = init.clone();
    let rr = refvm::step_simple(&mut rvm, &op, &env);
    let ref_log = env.log.lock().unwrap().clone();
    let asked = !ref_log.is_empty();
    let obs = match &r {
        Ok(Ok(_)) => hash_of(&(vm.stack.to_vec(), vm.memory.to_vec())),
        Ok(Err(_)) => 1,
        Err(_) => 2,
    };
    rep.eval(if asked { Some(hash_of(c)) } else { None }, obs);
    let mut fail = |clause: &str, want: String, got: String, rep: &mut Report| {
        let sig = Signature::new("C11", clause).feat(format!("op:{}", super::vmgraph::op_name(&op)));
        let key = sig.key();
        rep.violate(|| viol(sig, json!({"kind": "c11", "case": c, "stack": init.stack, "memory_len": init.memory.len()}), json!(want), json!(got), String::new()), Some(&key));
    };
    let r = match r {
        Err((site, msg)) => {
            fail("no_panic", "Ok or Err".into(), format!("panic {site}: {msg}"), rep);
            return;
        }
        Ok(r) => r,
    };
    if real_log != ref_log {
        fail("request.exact", format!("{ref_log:?}"), format!("{real_log:?}"), rep);
        return;
    }
    match (rr, r) {
        (Ok(_), Ok(_)) => {
            if vm.stack.to_vec() != rvm.stack {
                fail("stack.frame_only", format!("{:?}", rvm.stack), format!("{:?}", vm.stack.to_vec()), rep);
            }
            if vm.memory.to_vec() != rvm.memory {
                fail("memory.layout", format!("{:?}", rvm.memory), format!("{:?}", vm.memory.to_vec()), rep);
            }
        }
        (Err(refvm::RErr::State(s)), Err(e)) => match e {
            OpError::StateRead(got) if got == s => {}
            other => fail("state_error_unchanged", s, format!("{other:?}"), rep),
        },
        (Err(_), Err(e)) => {
            if let OpError::StateRead(s) = e {
                fail("state_error_unchanged", "operand/layout error".into(), format!("StateRead({s})"), rep);
            }
        }
        (Ok(_), Err(e)) => fail("spurious_error", format!("Ok mem {:?}", rvm.memory), format!("{e:?}"), rep),
        (Err(e), Ok(_)) => fail("missing_error", format!("{e:?}"), format!("Ok mem {:?}", vm.memory.to_vec()), rep),
    }
}

fn cases(thorough: bool, mut f: impl FnMut(u64, Case)) {
    let mut i = 0u64;
    let mems: &[usize] = if thorough { &[0, 1, 2, 3, 4, 5, 6, 7, 8, 9, 12, 13, 40] } else { &[0, 1, 2, 3, 4, 5, 6, 7, 8, 12, 40] };
    let keys: Vec<Vec<W>> = vec![vec![], vec![5], vec![5, 6], vec![MAX], vec![MIN, 0, 7], vec![1; 9]];
    let counts: &[W] = if thorough { &[0, 1, 2, 3, 4, 5, -1, MIN, MAX] } else { &[0, 1, 2, 3, -1, MAX] };
    let idxs: &[u8] = if thorough { &[0, 1, 2] } else { &[0, 2] };
    for &idx in idxs {
      for op in 0..4u8 {
        for frame in [vec![], vec![77]] {
            for ext in 0..2u8 {
                if (op == 0 || op == 2) && ext == 1 {
                    continue;
                }
                for key in keys.clone() {
                    for klen_mode in 0..3u8 {
                        for &count in counts {
                            for &mem in mems {
                                let mut addrs = vec![0, 1, 2, mem as W - 2, mem as W, -1, MAX];
                                if thorough {
                                    addrs.extend([3, mem as W - 1, mem as W + 1, MIN]);
                                }
                                for addr in addrs {
                                    for answer in 0..9u8 {
                                        i += 1;
                                        f(i, Case { op, frame: frame.clone(), ext, key: key.clone(), klen_mode, count, addr, mem, answer, idx });
                                    }
                                }
                            }
                        }
                    }
                }
            }
        }
      }
    }
}

fn run(cfg: &RunCfg, rep: &mut Report) {
    rep.bound_completed = format!("full product of the listed menus{}", if cfg.tier == Tier::Thorough { " plus memory sizes 9,13, counts 4,5,MIN, addresses 3,len-1,len+1,MIN, solution index 1" } else { "" });
    cases(cfg.tier == Tier::Thorough, |i, c| {
        if cfg.mine(i / 64) {
            if i % 20011 == 0 {
                rep.sample(|| json!(c));
            }
            check(&c, rep);
        }
    });
}

fn replay(case: &Value) -> Result<bool, String> {
    let c: Case = serde_json::from_value(case["case"].clone()).map_err(|e| e.to_string())?;
    let mut rep = Report::new();
    check(&c, &mut rep);
    Ok(!rep.violations.is_empty())
}
