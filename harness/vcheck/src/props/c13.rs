//! C13 — bytecode encoding is a bijection that matches the assembly specification.
//!
//! Three independent descriptions of the codec are compared with the generated code:
//!   * an independent reading of `essential_asm_spec::ASM_YAML` with `serde_yaml::Value`
//!     (never the typed `Tree` of asm-spec that the generator itself uses),
//!   * the pinned table `harness/golden/opcodes.tsv` (generated once, embedded), so that a
//!     consistent edit of YAML and generator is still seen as drift,
//!   * a reference decoder/encoder written here (std `i64::{to,from}_be_bytes`).
use crate::fw::*;
use crate::PropSpec;
use essential_asm::{self as asm, opcode::ParseOp, FromBytesError, InvalidOpcodeError, Op, Opcode, ToOpcode};
use serde_json::{json, Value};
use std::collections::HashMap;

const GOLDEN: &str = include_str!("../../../golden/opcodes.tsv");

pub fn spec() -> PropSpec {
    PropSpec {
        id: "C13",
        level: "exploration",
        rule: "enumerated: (1) all 256 bytes through Opcode::try_from / u8::from / parse_op / ToOpcode / from_bytes; (2) all 65536 byte pairs through from_bytes; (3) every immediate of {64 one-hot, 64 one-cold, 0, -1, MIN, MAX, every byte position set to every valid opcode byte} through convert::{bytes_from_word, word_from_bytes} and, with every op, as [op(imm)] for ops with an immediate and as [Push(imm), op] and [op, Push(imm)] otherwise, each with every truncation; (4) all op sequences of length <= 2 (quick) / <= 3 (thorough) over the 61 immediate-less ops plus Push with 6 immediates (0, -1, 0x0102030405060708, MIN, 0x0101010101010101, MAX), sequences of length <= 2 with every truncation; (5) all byte strings of length <= 3 over the valid opcode bytes plus 0x00, 0x0F, 0xFF; (6) the 62 short-name consts. The expected list of (short name, const, variant) is an explicit 62-row table in the harness checked against the YAML reading; consts present in essential_asm::short but absent from BOTH the YAML and that table cannot be seen without reflection. non-trivial = a case where parsing succeeded with >= 1 op (or, for the per-byte / short-name / immediate cases, the byte / name / word itself is a valid one); distinct by bytes",
        assumptions: &[
            "the pinned table harness/golden/opcodes.tsv was generated once from crates/asm-spec/asm.yml at commit cb01acd and is the byte-compatibility baseline",
            "an op is identified with its Debug rendering (e.g. Stack(DupFrom), Stack(Push(5))); the YAML group path Op/Stack/DupFrom denotes Stack(DupFrom)",
            "'parsing fails' = the from_bytes iterator yields an Err; what it yields after its first Err is unspecified and masked",
        ],
        run,
        replay,
        describe_wal: None,
        run_wal: None,
        both_profiles: false,
        workers: 0,
    }
}

// ---------------------------------------------------------------------------------------------
// The two specifications, read independently of asm-spec's typed model.

#[derive(Clone, Debug, PartialEq, Eq)]
struct SpecOp {
    byte: u8,
    /// e.g. ["Op", "Stack"]
    group: Vec<String>,
    name: String,
    /// effective short name: the `short:` field or the upper-cased op name
    short: String,
    imm: usize,
}

fn nest(groups: &[String], inner: String) -> String {
    groups.iter().rev().fold(inner, |acc, g| format!("{g}({acc})"))
}

impl SpecOp {
    fn groups(&self) -> &[String] {
        &self.group[1.min(self.group.len())..]
    }
    /// Debug rendering of the opcode / of the op without its immediate: `Stack(DupFrom)`.
    fn path(&self) -> String {
        nest(self.groups(), self.name.clone())
    }
    /// Debug rendering of the op: `Stack(Push(5))`.
    fn debug(&self, imm: Option<i64>) -> String {
        match (self.imm, imm) {
            (0, _) | (_, None) => self.path(),
            (_, Some(w)) => nest(self.groups(), format!("{}({w})", self.name)),
        }
    }
    /// Rust expression for test snippets (two-level paths only).
    fn rust(&self, imm: Option<i64>) -> Option<String> {
        let g = self.groups();
        if g.len() != 1 {
            return None;
        }
        let arg = if self.imm > 0 { format!("({})", imm.unwrap_or(0)) } else { String::new() };
        Some(format!("Op::{0}({0}::{1}{2})", g[0], self.name, arg))
    }
}

struct Spec {
    name: &'static str,
    ops: Vec<SpecOp>,
    by_byte: Vec<Option<usize>>,
    by_path: HashMap<String, usize>,
    problems: Vec<String>,
    dup_bytes: Vec<u8>,
}

impl Spec {
    fn build(name: &'static str, mut ops: Vec<SpecOp>, mut problems: Vec<String>) -> Spec {
        ops.sort_by_key(|o| o.byte);
        let mut by_byte = vec![None; 256];
        let mut by_path = HashMap::new();
        let mut dup_bytes = vec![];
        for (i, o) in ops.iter().enumerate() {
            if by_byte[o.byte as usize].is_some() {
                dup_bytes.push(o.byte);
            } else {
                by_byte[o.byte as usize] = Some(i);
            }
            if by_path.insert(o.path(), i).is_some() {
                problems.push(format!("two ops with the path {}", o.path()));
            }
        }
        Spec { name, ops, by_byte, by_path, problems, dup_bytes }
    }
    fn at(&self, b: u8) -> Option<&SpecOp> {
        self.by_byte[b as usize].map(|i| &self.ops[i])
    }
    fn of_path(&self, p: &str) -> Option<&SpecOp> {
        self.by_path.get(p).map(|&i| &self.ops[i])
    }
}

fn yaml_walk(name: &serde_yaml::Value, node: &serde_yaml::Value, path: &mut Vec<String>, ops: &mut Vec<SpecOp>, problems: &mut Vec<String>) {
    let Some(name) = name.as_str() else {
        problems.push(format!("non-string key under {}", path.join("/")));
        return;
    };
    let Some(m) = node.as_mapping() else {
        problems.push(format!("{}/{name} is not a mapping", path.join("/")));
        return;
    };
    if let Some(oc) = m.get("opcode") {
        // "a mapping with an `opcode` key is an op"
        let Some(byte) = oc.as_u64().filter(|b| *b <= 255) else {
            problems.push(format!("{}/{name}: opcode {oc:?} is not a byte", path.join("/")));
            return;
        };
        let short = m
            .get("short")
            .and_then(|s| s.as_str())
            .filter(|s| !s.is_empty())
            .map(|s| s.to_string())
            .unwrap_or_else(|| name.to_uppercase());
        let imm = match m.get("num_arg_bytes") {
            None => 0,
            Some(v) => match v.as_u64() {
                Some(n) => n as usize,
                None => {
                    problems.push(format!("{}/{name}: num_arg_bytes {v:?} is not a number", path.join("/")));
                    return;
                }
            },
        };
        ops.push(SpecOp { byte: byte as u8, group: path.clone(), name: name.to_string(), short, imm });
    } else if let Some(g) = m.get("group") {
        // "a mapping with a `group` key is a group"
        let Some(gm) = g.as_mapping() else {
            problems.push(format!("{}/{name}: group is not a mapping", path.join("/")));
            return;
        };
        path.push(name.to_string());
        for (k, v) in gm {
            yaml_walk(k, v, path, ops, problems);
        }
        path.pop();
    } else {
        problems.push(format!("{}/{name} has neither `opcode` nor `group`", path.join("/")));
    }
}

fn read_yaml() -> Spec {
    let mut ops = vec![];
    let mut problems = vec![];
    match serde_yaml::from_str::<serde_yaml::Value>(essential_asm_spec::ASM_YAML) {
        Ok(serde_yaml::Value::Mapping(m)) => {
            for (k, v) in &m {
                yaml_walk(k, v, &mut vec![], &mut ops, &mut problems);
            }
        }
        Ok(_) => problems.push("the YAML root is not a mapping".into()),
        Err(e) => problems.push(format!("the YAML does not parse: {e}")),
    }
    Spec::build("yaml", ops, problems)
}

fn read_pinned() -> Spec {
    let mut ops = vec![];
    let mut problems = vec![];
    for l in GOLDEN.lines() {
        if l.starts_with('#') || l.trim().is_empty() {
            continue;
        }
        let c: Vec<&str> = l.split('\t').collect();
        let byte = c.first().and_then(|s| s.strip_prefix("0x")).and_then(|s| u8::from_str_radix(s, 16).ok());
        let imm = c.get(4).and_then(|s| s.trim().parse::<usize>().ok());
        match (byte, imm, c.len()) {
            (Some(byte), Some(imm), 5) => ops.push(SpecOp {
                byte,
                group: c[1].split('/').map(|s| s.to_string()).collect(),
                name: c[2].to_string(),
                short: c[3].to_string(),
                imm,
            }),
            _ => problems.push(format!("bad row {l:?}")),
        }
    }
    Spec::build("pinned", ops, problems)
}

// ---------------------------------------------------------------------------------------------
// The explicit table of short-name consts (Rust has no reflection). A const that the subject no
// longer provides resolves to the local fallback of type `Missing` (the block-level glob import
// shadows the fallbacks whenever the real const exists), so a renamed/removed const is reported
// at run time; a renamed *variant* is a compile error of the harness.

#[derive(Clone, Copy)]
struct Missing;
#[derive(Clone, Copy)]
enum K {
    V(Op),
    F(fn(i64) -> Op),
    Missing,
}
trait IntoK {
    fn k(self) -> K;
}
impl IntoK for Op {
    fn k(self) -> K {
        K::V(self)
    }
}
impl IntoK for fn(i64) -> Op {
    fn k(self) -> K {
        K::F(self)
    }
}
impl IntoK for Missing {
    fn k(self) -> K {
        K::Missing
    }
}
#[derive(Clone, Copy)]
enum Ctor {
    V(Op),
    F(fn(i64) -> Op),
}
impl Ctor {
    fn make(&self, imm: i64) -> Op {
        match self {
            Ctor::V(o) => *o,
            Ctor::F(f) => f(imm),
        }
    }
    fn takes_imm(&self) -> bool {
        matches!(self, Ctor::F(_))
    }
}

struct Row {
    short: &'static str,
    konst: K,
    ctor: Ctor,
    /// Debug rendering of the variant without immediate, e.g. `Stack(Push)`.
    path: String,
}

macro_rules! short_table {
    ($($n:ident => $c:expr),* $(,)?) => {
        fn rows() -> Vec<Row> {
            #[allow(unused_imports)]
            use Ctor::{F, V};
            $( #[allow(dead_code)] const $n: Missing = Missing; )*
            let t: Vec<(&'static str, K, Ctor)> = {
                #[allow(unused_imports)]
                use essential_asm::short::*;
                vec![ $( (stringify!($n), IntoK::k($n), $c) ),* ]
            };
            t.into_iter()
                .map(|(short, konst, ctor)| {
                    let path = match ctor {
                        Ctor::V(o) => format!("{o:?}"),
                        // `Stack(Push(0))` -> `Stack(Push)`
                        Ctor::F(f) => format!("{:?}", f(0)).replacen("(0)", "", 1),
                    };
                    Row { short, konst, ctor, path }
                })
                .collect()
        }
    };
}

short_table! {
    PUSH => F(|w| Op::Stack(asm::Stack::Push(w))),
    POP => V(Op::Stack(asm::Stack::Pop)),
    DUP => V(Op::Stack(asm::Stack::Dup)),
    DUPF => V(Op::Stack(asm::Stack::DupFrom)),
    SWAP => V(Op::Stack(asm::Stack::Swap)),
    SWAPI => V(Op::Stack(asm::Stack::SwapIndex)),
    SEL => V(Op::Stack(asm::Stack::Select)),
    SLTR => V(Op::Stack(asm::Stack::SelectRange)),
    REP => V(Op::Stack(asm::Stack::Repeat)),
    REPE => V(Op::Stack(asm::Stack::RepeatEnd)),
    RES => V(Op::Stack(asm::Stack::Reserve)),
    LODS => V(Op::Stack(asm::Stack::Load)),
    STOS => V(Op::Stack(asm::Stack::Store)),
    DROP => V(Op::Stack(asm::Stack::Drop)),
    EQ => V(Op::Pred(asm::Pred::Eq)),
    EQRA => V(Op::Pred(asm::Pred::EqRange)),
    GT => V(Op::Pred(asm::Pred::Gt)),
    LT => V(Op::Pred(asm::Pred::Lt)),
    GTE => V(Op::Pred(asm::Pred::Gte)),
    LTE => V(Op::Pred(asm::Pred::Lte)),
    AND => V(Op::Pred(asm::Pred::And)),
    OR => V(Op::Pred(asm::Pred::Or)),
    NOT => V(Op::Pred(asm::Pred::Not)),
    EQST => V(Op::Pred(asm::Pred::EqSet)),
    BAND => V(Op::Pred(asm::Pred::BitAnd)),
    BOR => V(Op::Pred(asm::Pred::BitOr)),
    ADD => V(Op::Alu(asm::Alu::Add)),
    SUB => V(Op::Alu(asm::Alu::Sub)),
    MUL => V(Op::Alu(asm::Alu::Mul)),
    DIV => V(Op::Alu(asm::Alu::Div)),
    MOD => V(Op::Alu(asm::Alu::Mod)),
    SHL => V(Op::Alu(asm::Alu::Shl)),
    SHR => V(Op::Alu(asm::Alu::Shr)),
    SHRI => V(Op::Alu(asm::Alu::ShrI)),
    THIS => V(Op::Access(asm::Access::ThisAddress)),
    THISC => V(Op::Access(asm::Access::ThisContractAddress)),
    REPC => V(Op::Access(asm::Access::RepeatCounter)),
    DATA => V(Op::Access(asm::Access::PredicateData)),
    DLEN => V(Op::Access(asm::Access::PredicateDataLen)),
    DSLT => V(Op::Access(asm::Access::PredicateDataSlots)),
    PEX => V(Op::Access(asm::Access::PredicateExists)),
    SHA2 => V(Op::Crypto(asm::Crypto::Sha256)),
    VRFYED => V(Op::Crypto(asm::Crypto::VerifyEd25519)),
    RSECP => V(Op::Crypto(asm::Crypto::RecoverSecp256k1)),
    HLT => V(Op::TotalControlFlow(asm::TotalControlFlow::Halt)),
    HLTIF => V(Op::TotalControlFlow(asm::TotalControlFlow::HaltIf)),
    JMPIF => V(Op::TotalControlFlow(asm::TotalControlFlow::JumpIf)),
    PNCIF => V(Op::TotalControlFlow(asm::TotalControlFlow::PanicIf)),
    ALOC => V(Op::Memory(asm::Memory::Alloc)),
    FREE => V(Op::Memory(asm::Memory::Free)),
    LOD => V(Op::Memory(asm::Memory::Load)),
    STO => V(Op::Memory(asm::Memory::Store)),
    LODR => V(Op::Memory(asm::Memory::LoadRange)),
    STOR => V(Op::Memory(asm::Memory::StoreRange)),
    LODP => V(Op::ParentMemory(asm::ParentMemory::Load)),
    LODPR => V(Op::ParentMemory(asm::ParentMemory::LoadRange)),
    KRNG => V(Op::StateRead(asm::StateRead::KeyRange)),
    KREX => V(Op::StateRead(asm::StateRead::KeyRangeExtern)),
    PKRNG => V(Op::StateRead(asm::StateRead::PostKeyRange)),
    PKREX => V(Op::StateRead(asm::StateRead::PostKeyRangeExtern)),
    COM => V(Op::Compute(asm::Compute::Compute)),
    COME => V(Op::Compute(asm::Compute::ComputeEnd)),
}

// ---------------------------------------------------------------------------------------------
// Context

struct Cx {
    yaml: Spec,
    pinned: Spec,
    rows: Vec<Row>,
    row_by_path: HashMap<String, usize>,
    /// does the subject's `Opcode::try_from` accept the byte
    accepts: Vec<bool>,
    machinery: Vec<String>,
}

impl Cx {
    fn new() -> Cx {
        let yaml = read_yaml();
        let pinned = read_pinned();
        let rows = rows();
        let mut machinery = vec![];
        let mut row_by_path = HashMap::new();
        let mut names = std::collections::HashSet::new();
        for (i, r) in rows.iter().enumerate() {
            if row_by_path.insert(r.path.clone(), i).is_some() || !names.insert(r.short) {
                machinery.push(format!("C13 harness table: duplicate row {} / {}", r.short, r.path));
            }
        }
        for p in &pinned.problems {
            machinery.push(format!("C13 pinned table: {p}"));
        }
        if !pinned.dup_bytes.is_empty() {
            machinery.push(format!("C13 pinned table: duplicate bytes {:?}", pinned.dup_bytes));
        }
        let accepts = (0..=255u8).map(|b| matches!(catch(|| Opcode::try_from(b)), Ok(Ok(_)))).collect();
        Cx { yaml, pinned, rows, row_by_path, accepts, machinery }
    }
    fn specs(&self) -> [&Spec; 2] {
        [&self.yaml, &self.pinned]
    }
    /// rows that construct an op with an immediate (Push)
    fn imm_rows(&self) -> Vec<usize> {
        (0..self.rows.len()).filter(|&i| self.rows[i].ctor.takes_imm()).collect()
    }
}

/// An op of a case: (row index, immediate (ignored for immediate-less ops)).
type COp = (usize, i64);

fn cop_json(cx: &Cx, s: &[COp]) -> Value {
    json!(s
        .iter()
        .map(|&(r, w)| if cx.rows[r].ctor.takes_imm() { json!([cx.rows[r].path, w]) } else { json!([cx.rows[r].path, null]) })
        .collect::<Vec<_>>())
}

fn cop_debug(cx: &Cx, (r, w): COp) -> String {
    format!("{:?}", cx.rows[r].ctor.make(w))
}

// ---------------------------------------------------------------------------------------------
// Reference codec over a spec

#[derive(Clone, Debug, PartialEq, Eq, Hash)]
enum End {
    Done,
    Invalid(u8),
    NotEnough,
}

impl End {
    fn render(&self, ops: &[String]) -> String {
        match self {
            End::Done => format!("Ok([{}])", ops.join(", ")),
            End::Invalid(b) => format!("Err(InvalidOpcode(InvalidOpcodeError({b})))"),
            End::NotEnough => "Err(NotEnoughBytes(NotEnoughBytesError))".to_string(),
        }
    }
}

struct RefDec {
    /// (spec op index, immediate, offset of the opcode byte)
    ops: Vec<(usize, Option<i64>, usize)>,
    end: End,
    /// offset at which decoding ended (opcode byte of the failing op, or len)
    end_pos: usize,
}

fn ref_decode(spec: &Spec, bytes: &[u8]) -> RefDec {
    let mut ops = vec![];
    let mut p = 0;
    loop {
        if p == bytes.len() {
            return RefDec { ops, end: End::Done, end_pos: p };
        }
        let b = bytes[p];
        let Some(i) = spec.by_byte[b as usize] else {
            return RefDec { ops, end: End::Invalid(b), end_pos: p };
        };
        let n = spec.ops[i].imm;
        if p + 1 + n > bytes.len() {
            return RefDec { ops, end: End::NotEnough, end_pos: p };
        }
        let imm = if n == 0 {
            None
        } else {
            let a = &bytes[p + 1..p + 1 + n];
            let mut v: i64 = if a[0] & 0x80 != 0 { -1 } else { 0 };
            for x in a {
                v = (v << 8) | *x as i64;
            }
            Some(v)
        };
        ops.push((i, imm, p));
        p += 1 + n;
    }
}

fn ref_encode_one(op: &SpecOp, imm: i64) -> Vec<u8> {
    let mut v = vec![op.byte];
    let be = imm.to_be_bytes();
    // the immediate is the low `imm` bytes, big-endian (8 for Push)
    v.extend_from_slice(&be[8usize.saturating_sub(op.imm)..]);
    v
}

/// Run the real parser up to and including its first Err.
fn real_decode(bytes: &[u8]) -> Result<(Vec<Op>, End, bool), (String, String)> {
    catch(|| {
        let mut ops = vec![];
        let limit = bytes.len() + 2;
        for r in asm::from_bytes(bytes.iter().copied()) {
            match r {
                Ok(o) => ops.push(o),
                Err(FromBytesError::InvalidOpcode(InvalidOpcodeError(b))) => return (ops, End::Invalid(b), false),
                Err(FromBytesError::NotEnoughBytes(_)) => return (ops, End::NotEnough, false),
            }
            if ops.len() > limit {
                return (ops, End::Done, true);
            }
        }
        (ops, End::Done, false)
    })
}

// ---------------------------------------------------------------------------------------------
// Reporting helpers

fn hx(b: u8) -> String {
    format!("0x{b:02X}")
}

fn put(rep: &mut Report, sig: Signature, mk: impl FnOnce() -> (Value, String, String, String)) {
    let key = sig.key();
    let clause = sig.clause.clone();
    rep.violate(
        || {
            let (mut case, want, got, snippet) = mk();
            if let Some(m) = case.as_object_mut() {
                m.insert("clause".into(), json!(clause));
            }
            viol(sig, case, json!(want), json!(got), snippet)
        },
        Some(&key),
    );
}

fn panic_sig(site: &str, msg: &str) -> Signature {
    Signature::new("C13", "no_panic").site(format!("{site}: {msg}"))
}

fn bytes_snippet(bytes: &[u8], want: &str) -> String {
    format!(
        "#[test]\nfn replay() {{\n    use essential_asm::{{from_bytes, to_bytes, Op}};\n    let bytes = hex::decode(\"{}\").unwrap();\n    let r: Result<Vec<Op>, _> = from_bytes(bytes.iter().copied()).collect();\n    assert_eq!(format!(\"{{r:?}}\"), {:?});\n    if let Ok(ops) = r {{\n        assert_eq!(to_bytes(ops).collect::<Vec<u8>>(), bytes);\n    }}\n}}\n",
        hex::encode(bytes),
        want
    )
}

fn ops_snippet(cx: &Cx, seq: &[COp], want_hex: &str) -> String {
    let mut exprs = vec![];
    for &(r, w) in seq {
        let Some(e) = cx.pinned.of_path(&cx.rows[r].path).or(cx.yaml.of_path(&cx.rows[r].path)).and_then(|o| o.rust(Some(w))) else {
            return String::new();
        };
        exprs.push(e);
    }
    format!(
        "#[test]\nfn replay() {{\n    use essential_asm::*;\n    let ops: Vec<Op> = vec![{}];\n    let bytes: Vec<u8> = to_bytes(ops.iter().cloned()).collect();\n    assert_eq!(hex::encode(&bytes), {:?});\n    assert_eq!(from_bytes(bytes).collect::<Result<Vec<_>, _>>().unwrap(), ops);\n}}\n",
        exprs.join(", "),
        want_hex
    )
}

// ---------------------------------------------------------------------------------------------
// Check: one byte string

fn check_bytes(cx: &Cx, bytes: &[u8], rep: &mut Report) {
    wal::tick();
    let case = || json!({"kind": "bytes", "hex": hex::encode(bytes)});
    let (ops, end, runaway) = match real_decode(bytes) {
        Ok(x) => x,
        Err((site, msg)) => {
            rep.eval(None, 3);
            put(rep, panic_sig(&site, &msg), || (case(), "Ok or Err".into(), format!("panic {site}: {msg}"), bytes_snippet(bytes, "no panic")));
            return;
        }
    };
    // the parser is generic over byte iterators: the result must not depend on how precise the
    // iterator's size_hint is (slice iterators are exact; filter / from_fn / flat_map are not)
    if bytes.contains(&0x01) {
        let first_err = |it: &mut dyn Iterator<Item = u8>| -> String {
            let mut out = vec![];
            for r in asm::from_bytes(it).take(bytes.len() + 2) {
                match r {
                    Ok(o) => out.push(format!("{o:?}")),
                    Err(e) => {
                        out.push(format!("Err({e:?})"));
                        break;
                    }
                }
            }
            out.join(",")
        };
        let base = catch(|| first_err(&mut bytes.iter().copied()));
        let variants: Vec<(&str, Result<String, (String, String)>)> = vec![
            ("filter", catch(|| first_err(&mut bytes.iter().copied().filter(|_| true)))),
            ("from_fn", catch(|| {
                let mut i = 0;
                first_err(&mut std::iter::from_fn(|| {
                    i += 1;
                    bytes.get(i - 1).copied()
                }))
            })),
            ("flat_map", catch(|| first_err(&mut bytes.chunks(3).flat_map(|c| c.to_vec())))),
        ];
        for (kind, v) in variants {
            if format!("{v:?}") != format!("{base:?}") {
                put(rep, Signature::new("C13", "roundtrip.bytes").feat("iterator_with_inexact_size_hint").feat(format!("kind:{kind}")), || {
                    (case(), format!("{base:?}"), format!("{v:?}"), format!("#[test]\nfn replay() {{\n    let bytes = hex::decode(\"{}\").unwrap();\n    let a: Vec<_> = essential_asm::from_bytes(bytes.iter().copied()).collect();\n    let b: Vec<_> = essential_asm::from_bytes(bytes.iter().copied().filter(|_| true)).collect();\n    assert_eq!(format!(\"{{a:?}}\"), format!(\"{{b:?}}\"));\n}}\n", hex::encode(bytes)))
                });
            }
        }
    }
    let dbg: Vec<String> = ops.iter().map(|o| format!("{o:?}")).collect();
    let got_render = end.render(&dbg);
    let ok = end == End::Done;
    rep.eval(if ok && !ops.is_empty() { Some(hash_of(bytes)) } else { None }, hash_of(&(bytes, &dbg, &end)));
    if !ok {
        rep.mask("items the from_bytes iterator yields after its first Err (only 'parsing fails' is specified)");
    }
    // (ii) spec-independent: whatever parses re-serialises to exactly the input
    if ok {
        match catch(|| asm::to_bytes(ops.iter().cloned()).collect::<Vec<u8>>()) {
            Err((site, msg)) => put(rep, panic_sig(&site, &msg), || (case(), "bytes".into(), format!("panic {site}: {msg}"), String::new())),
            Ok(re) => {
                if re != bytes || runaway {
                    let how = if runaway {
                        "unbounded"
                    } else if re.len() < bytes.len() {
                        "reserialised_shorter"
                    } else if re.len() > bytes.len() {
                        "reserialised_longer"
                    } else {
                        "reserialised_different"
                    };
                    put(rep, Signature::new("C13", "roundtrip.bytes").feat(how), || {
                        (case(), format!("parsing fails, or the parsed ops serialise to {}", hex::encode(bytes)), format!("{got_render} which serialises to {}", hex::encode(&re)), bytes_snippet(bytes, "Err(..) or ops that serialise back to the input"))
                    });
                }
            }
        }
    }
    // (iii)/(iv) against each specification
    let mut seen: Vec<String> = vec![];
    for spec in cx.specs() {
        compare_decode(cx, spec, bytes, &dbg, &end, &got_render, &mut seen, rep);
    }
}

fn compare_decode(cx: &Cx, spec: &Spec, bytes: &[u8], got: &[String], got_end: &End, got_render: &str, seen: &mut Vec<String>, rep: &mut Report) {
    let want = ref_decode(spec, bytes);
    let want_dbg: Vec<String> = want.ops.iter().map(|&(i, imm, _)| spec.ops[i].debug(imm)).collect();
    if want_dbg == got && want.end == *got_end {
        return;
    }
    let want_render = want.end.render(&want_dbg);
    let set = |b: u8, how: &str| Signature::new("C13", &format!("opcode_set.{}", spec.name)).feat(format!("byte:{}", hx(b))).feat(how);
    let case = || json!({"kind": "bytes", "hex": hex::encode(bytes), "spec": spec.name});
    let n = want_dbg.len().min(got.len());
    let sig = if let Some(i) = (0..n).find(|&i| want_dbg[i] != got[i]) {
        // both decoded an op at the same position but not the same op
        let (si, _, _) = want.ops[i];
        let so = &spec.ops[si];
        if so.imm > 0 && strip_imm(&got[i]) == so.path() {
            Signature::new("C13", "big_endian").feat("dir:decode")
        } else {
            Signature::new("C13", &format!("denotes.{}", spec.name)).feat(format!("op:{}", so.path()))
        }
    } else if got.len() > want_dbg.len() {
        // the real parser went on where the specification stops
        match &want.end {
            End::Invalid(b) if cx.accepts[*b as usize] => set(*b, "accepted_but_not_in_spec"),
            End::Invalid(_) => Signature::new("C13", "invalid_opcode").feat("not_reported"),
            // an op was made out of a truncated immediate (a narrower immediate is also seen by the per-opcode check)
            End::NotEnough => Signature::new("C13", "not_enough_bytes").feat("not_reported"),
            End::Done => return, // phantom ops: reported by roundtrip.bytes
        }
    } else if got.len() < want_dbg.len() {
        // the real parser stopped where the specification decodes an op
        let (si, _, pos) = want.ops[got.len()];
        let b = bytes[pos];
        match got_end {
            End::Invalid(x) if *x == b => set(b, "rejected_but_in_spec"),
            End::Invalid(_) => Signature::new("C13", "invalid_opcode").feat("wrong_byte_reported"),
            End::NotEnough => Signature::new("C13", "not_enough_bytes").feat("spurious").feat(format!("op:{}", spec.ops[si].path())),
            End::Done => return, // silently dropped input: reported by roundtrip.bytes
        }
    } else {
        // same ops, different ending
        let pos = want.end_pos;
        match (&want.end, got_end) {
            (End::Invalid(b), End::Invalid(x)) if b != x => Signature::new("C13", "invalid_opcode").feat("wrong_byte_reported"),
            (End::Invalid(b), End::NotEnough) if cx.accepts[*b as usize] => set(*b, "accepted_but_not_in_spec"),
            (End::Invalid(_), End::NotEnough) => Signature::new("C13", "invalid_opcode").feat("other_error"),
            (End::Invalid(_), End::Done) => Signature::new("C13", "invalid_opcode").feat("not_reported"),
            (End::NotEnough, End::Invalid(x)) if *x == bytes[pos] => set(*x, "rejected_but_in_spec"),
            (End::NotEnough, End::Invalid(_)) => Signature::new("C13", "invalid_opcode").feat("wrong_byte_reported"),
            (End::NotEnough, End::Done) => Signature::new("C13", "not_enough_bytes").feat("not_reported"),
            (End::Done, End::Invalid(_)) => Signature::new("C13", "invalid_opcode").feat("spurious"),
            (End::Done, End::NotEnough) => Signature::new("C13", "not_enough_bytes").feat("spurious"),
            _ => return,
        }
    };
    // a spec-independent clause found against both specifications is one observation
    if seen.contains(&sig.key()) {
        return;
    }
    seen.push(sig.key());
    put(rep, sig, || (case(), format!("{want_render} (per {})", spec.name), got_render.to_string(), bytes_snippet(bytes, &want_render)));
}

/// `Stack(Push(5))` -> `Stack(Push)`
fn strip_imm(d: &str) -> String {
    // remove the innermost parenthesised integer
    if let Some(close) = d.find(')') {
        if let Some(open) = d[..close].rfind('(') {
            let inner = &d[open + 1..close];
            if inner.parse::<i64>().is_ok() {
                return format!("{}{}", &d[..open], &d[close + 1..]);
            }
        }
    }
    d.to_string()
}

// ---------------------------------------------------------------------------------------------
// Check: one op sequence

fn check_ops(cx: &Cx, seq: &[COp], truncations: bool, rep: &mut Report) {
    wal::tick();
    let case = || json!({"kind": "ops", "ops": cop_json(cx, seq), "truncations": truncations});
    let ops: Vec<Op> = seq.iter().map(|&(r, w)| cx.rows[r].ctor.make(w)).collect();
    let enc = catch(|| {
        let per: Vec<Vec<u8>> = ops.iter().map(|o| asm::to_bytes([*o]).collect()).collect();
        let all: Vec<u8> = asm::to_bytes(ops.iter().cloned()).collect();
        let first: Vec<u8> = ops.iter().map(|o| u8::from(o.to_opcode())).collect();
        (per, all, first)
    });
    let (per, bytes, first) = match enc {
        Ok(x) => x,
        Err((site, msg)) => {
            rep.eval(None, 3);
            put(rep, panic_sig(&site, &msg), || (case(), "bytes".into(), format!("panic {site}: {msg}"), String::new()));
            return;
        }
    };
    if per.concat() != bytes {
        put(rep, Signature::new("C13", "roundtrip.ops").feat("to_bytes_is_not_the_concatenation"), || (case(), hex::encode(per.concat()), hex::encode(&bytes), String::new()));
    }
    // the byte stream is a property of the ops, not of how the iterator is driven: k bytes pulled
    // with next(), the rest drained by internal iteration (fold) and by nth(0) steps
    for k in 0..=bytes.len().min(10) {
        let driven = catch(|| {
            let mut it = asm::to_bytes(ops.iter().cloned());
            let mut a: Vec<u8> = (0..k).filter_map(|_| it.next()).collect();
            let mut b = a.clone();
            let mut it2 = asm::to_bytes(ops.iter().cloned());
            for _ in 0..k {
                it2.next();
            }
            it.for_each(|x| a.push(x));
            while let Some(x) = it2.nth(0) {
                b.push(x);
            }
            (a, b)
        });
        match driven {
            Ok((a, b)) => {
                for (how, got) in [("next_then_fold", a), ("next_then_nth", b)] {
                    if got != bytes {
                        put(rep, Signature::new("C13", "roundtrip.ops").feat("to_bytes_depends_on_iterator_driver").feat(how), || (case(), hex::encode(&bytes), format!("after {k} next(): {}", hex::encode(&got)), String::new()));
                    }
                }
            }
            Err((site, msg)) => put(rep, panic_sig(&site, &msg), || (case(), "bytes".into(), format!("panic {site}: {msg}"), String::new())),
        }
    }
    // (iii)/(v) encoding against each specification
    let mut seen: Vec<String> = vec![];
    for spec in cx.specs() {
        let want: Vec<Option<Vec<u8>>> = seq.iter().map(|&(r, w)| spec.of_path(&cx.rows[r].path).map(|o| ref_encode_one(o, w))).collect();
        let want_hex = || want.iter().map(|w| w.as_ref().map(hex::encode).unwrap_or_else(|| "??".into())).collect::<Vec<_>>().join(" ");
        let got_hex = || per.iter().map(hex::encode).collect::<Vec<_>>().join(" ");
        for (i, &(r, _)) in seq.iter().enumerate() {
            let path = &cx.rows[r].path;
            let sig = match &want[i] {
                None => Signature::new("C13", &format!("opcode_set.{}", spec.name)).feat(format!("op:{path}")).feat("op_not_in_spec"),
                Some(w) if *w == per[i] => continue,
                Some(w) => {
                    if per[i].first() != w.first() {
                        Signature::new("C13", &format!("denotes.{}", spec.name)).feat(format!("op:{path}"))
                    } else if per[i].len() != w.len() {
                        Signature::new("C13", "immediate_width").feat("dir:encode").feat(format!("op:{path}"))
                    } else {
                        Signature::new("C13", "big_endian").feat("dir:encode")
                    }
                }
            };
            if seen.contains(&sig.key()) {
                break;
            }
            seen.push(sig.key());
            put(rep, sig, || {
                let mut c = case();
                c["spec"] = json!(spec.name);
                (c, format!("{} (per {})", want_hex(), spec.name), got_hex(), ops_snippet(cx, seq, &want_hex().replace(' ', "")))
            });
            break;
        }
    }
    // (vi) ToOpcode agrees with the first byte of to_bytes
    for (i, p) in per.iter().enumerate() {
        if p.first() != Some(&first[i]) {
            let path = &cx.rows[seq[i].0].path;
            put(rep, Signature::new("C13", "opcode_roundtrip").feat("to_opcode_vs_first_byte").feat(format!("op:{path}")), || {
                (case(), format!("u8::from(op.to_opcode()) == first byte of to_bytes = {:?}", p.first()), hx(first[i]), String::new())
            });
            break;
        }
    }
    // (i) parse back
    let (back, end, _) = match real_decode(&bytes) {
        Ok(x) => x,
        Err((site, msg)) => {
            rep.eval(None, 3);
            put(rep, panic_sig(&site, &msg), || (case(), "Ok".into(), format!("panic {site}: {msg}"), String::new()));
            return;
        }
    };
    let ok = end == End::Done;
    rep.eval(if ok && !back.is_empty() { Some(hash_of(&bytes[..])) } else { None }, hash_of(&(&bytes, &back, &end)));
    if !ok || back != ops {
        let want_dbg: Vec<String> = ops.iter().map(|o| format!("{o:?}")).collect();
        let got_dbg: Vec<String> = back.iter().map(|o| format!("{o:?}")).collect();
        let i = (0..want_dbg.len()).find(|&i| got_dbg.get(i) != Some(&want_dbg[i]));
        let feat = match i {
            Some(i) => format!("op:{}", cx.rows[seq[i].0].path),
            None => "extra_ops".to_string(),
        };
        put(rep, Signature::new("C13", "roundtrip.ops").feat(feat), || {
            (case(), End::Done.render(&want_dbg), format!("{} (bytes {})", end.render(&got_dbg), hex::encode(&bytes)), ops_snippet(cx, seq, &hex::encode(&bytes)))
        });
    }
    if truncations {
        for k in 0..bytes.len() {
            check_bytes(cx, &bytes[..k], rep);
        }
    }
}

// ---------------------------------------------------------------------------------------------
// Check: one opcode byte through the Opcode API

fn check_opcode(cx: &Cx, b: u8, rep: &mut Report) {
    wal::tick();
    let case = || json!({"kind": "opcode", "byte": b});
    const TAIL: [u8; 12] = [0xA1, 0xA2, 0xA3, 0xA4, 0xA5, 0xA6, 0xA7, 0xA8, 0xEE, 0xEE, 0xEE, 0xEE];
    let r = catch(|| match Opcode::try_from(b) {
        Err(InvalidOpcodeError(x)) => Err(x),
        Ok(oc) => {
            let mut it = TAIL.iter().copied();
            let parsed = oc.parse_op(&mut it).ok();
            let consumed = TAIL.len() - it.count();
            Ok((format!("{oc:?}"), u8::from(oc), parsed.map(|op| (format!("{op:?}"), op.to_opcode() == oc, asm::to_bytes([op]).collect::<Vec<u8>>())), consumed))
        }
    });
    let r = match r {
        Ok(r) => r,
        Err((site, msg)) => {
            rep.eval(None, 3);
            put(rep, panic_sig(&site, &msg), || (case(), "Ok or Err".into(), format!("panic {site}: {msg}"), String::new()));
            return;
        }
    };
    rep.eval(if r.is_ok() { Some(hash_of(&("opcode", b))) } else { None }, hash_of(&(b, &r)));
    let snippet = |want: &str| format!("#[test]\nfn replay() {{\n    let r = essential_asm::Opcode::try_from({}u8);\n    assert_eq!(format!(\"{{r:?}}\"), {:?});\n}}\n", hx(b), want);
    for spec in cx.specs() {
        let so = spec.at(b);
        let set = |how: &str| Signature::new("C13", &format!("opcode_set.{}", spec.name)).feat(format!("byte:{}", hx(b))).feat(how);
        match (&r, so) {
            (Ok((d, ..)), None) => put(rep, set("accepted_but_not_in_spec"), || (case(), format!("Err(InvalidOpcodeError({b})) (per {})", spec.name), format!("Ok({d})"), snippet(&format!("Err(InvalidOpcodeError({b}))")))),
            (Err(_), Some(o)) => put(rep, set("rejected_but_in_spec"), || (case(), format!("Ok({}) (per {})", o.path(), spec.name), format!("{r:?}"), snippet(&format!("Ok({})", o.path())))),
            (Ok((d, _, parsed, consumed)), Some(o)) => {
                if *d != o.path() {
                    put(rep, Signature::new("C13", &format!("denotes.{}", spec.name)).feat(format!("op:{}", o.path())), || (case(), format!("Ok({}) (per {})", o.path(), spec.name), format!("Ok({d})"), snippet(&format!("Ok({})", o.path()))));
                } else {
                    let want_imm = if o.imm == 8 { Some(i64::from_be_bytes(TAIL[..8].try_into().unwrap())) } else { None };
                    let enc_len = parsed.as_ref().map(|p| p.2.len());
                    if *consumed != o.imm || enc_len != Some(1 + o.imm) {
                        put(rep, Signature::new("C13", "immediate_width").feat("dir:decode").feat(format!("op:{}", o.path())), || {
                            (case(), format!("parse_op consumes {} immediate bytes and the op serialises to {} bytes", o.imm, 1 + o.imm), format!("consumed {consumed}, serialised length {enc_len:?}"), String::new())
                        });
                    } else if let Some((pd, ..)) = parsed {
                        if *pd != o.debug(want_imm) {
                            let sig = if strip_imm(pd) == o.path() { Signature::new("C13", "big_endian").feat("dir:decode") } else { Signature::new("C13", &format!("denotes.{}", spec.name)).feat(format!("op:{}", o.path())) };
                            put(rep, sig, || (case(), o.debug(want_imm), pd.clone(), String::new()));
                        }
                    }
                }
            }
            (Err(_), None) => {}
        }
    }
    match &r {
        Err(x) if *x != b => put(rep, Signature::new("C13", "invalid_opcode").feat("wrong_byte_reported"), || (case(), format!("Err(InvalidOpcodeError({b}))"), format!("Err(InvalidOpcodeError({x}))"), snippet(&format!("Err(InvalidOpcodeError({b}))")))),
        Ok((d, back, parsed, _)) => {
            if *back != b {
                put(rep, Signature::new("C13", "opcode_roundtrip").feat("u8_from_opcode"), || (case(), format!("u8::from({d}) == {}", hx(b)), hx(*back), String::new()));
            }
            match parsed {
                None => put(rep, Signature::new("C13", "not_enough_bytes").feat("spurious").feat(format!("op:{d}")), || (case(), "parse_op succeeds given 12 more bytes".into(), "Err(NotEnoughBytesError)".into(), String::new())),
                Some((pd, same, enc)) => {
                    if !*same {
                        put(rep, Signature::new("C13", "opcode_roundtrip").feat("to_opcode_vs_parse_op").feat(format!("op:{d}")), || (case(), format!("parse_op of {d} yields an op whose to_opcode() is {d}"), pd.clone(), String::new()));
                    }
                    if enc.first() != Some(&b) {
                        put(rep, Signature::new("C13", "opcode_roundtrip").feat("first_byte_of_to_bytes").feat(format!("op:{d}")), || (case(), format!("{pd} serialises with first byte {}", hx(b)), hex::encode(enc), String::new()));
                    }
                }
            }
        }
        _ => {}
    }
    // the same byte through from_bytes: alone, and followed by 8 bytes that are not opcodes per any spec
    check_bytes(cx, &[b], rep);
    let mut nine = vec![b];
    nine.extend_from_slice(&TAIL[..8]);
    check_bytes(cx, &nine, rep);
}

// ---------------------------------------------------------------------------------------------
// Check: the specifications themselves, the short names, the word <-> bytes conversion

fn check_spec(cx: &Cx, rep: &mut Report) {
    let case = || json!({"kind": "spec"});
    rep.eval(Some(hash_of("spec")), hash_of(&(cx.yaml.ops.len(), cx.pinned.ops.len())));
    for p in &cx.yaml.problems {
        put(rep, Signature::new("C13", "opcode_set.yaml").feat("spec_unreadable"), || (case(), "every node of asm.yml is an op (has `opcode`) or a group (has `group`)".into(), p.clone(), String::new()));
    }
    for b in &cx.yaml.dup_bytes {
        put(rep, Signature::new("C13", "opcode_set.yaml").feat("duplicate_byte").feat(format!("byte:{}", hx(*b))), || {
            let who: Vec<String> = cx.yaml.ops.iter().filter(|o| o.byte == *b).map(|o| o.path()).collect();
            (case(), "each opcode byte denotes one op".into(), format!("{} is declared for {who:?}", hx(*b)), String::new())
        });
    }
    for spec in cx.specs() {
        for o in &spec.ops {
            let want = if o.path() == "Stack(Push)" { 8 } else { 0 };
            if o.imm != want {
                put(rep, Signature::new("C13", "immediate_width").feat("dir:spec").feat(format!("op:{}", o.path())), || {
                    (case(), format!("{} has {want} immediate bytes (8 for Push, none otherwise)", o.path()), format!("{} declares {}", spec.name, o.imm), String::new())
                });
            }
        }
    }
}

fn check_short(cx: &Cx, rep: &mut Report) {
    let case = |p: &str| json!({"kind": "short", "op": p});
    const IMMS: [i64; 5] = [0, -1, 0x0102030405060708, i64::MIN, i64::MAX];
    for row in &cx.rows {
        wal::tick();
        let p = &row.path;
        let sig = |why: &str| Signature::new("C13", "short_name").feat(format!("op:{p}")).feat(why);
        rep.eval(Some(hash_of(&("short", row.short))), hash_of(&(row.short, matches!(row.konst, K::Missing))));
        let Some(yo) = cx.yaml.of_path(p) else {
            continue; // reported as opcode_set.yaml/op_not_in_spec by the op enumeration
        };
        if yo.short != row.short {
            let there = if matches!(row.konst, K::Missing) { "is gone" } else { "still exists" };
            put(rep, sig("renamed"), || (case(p), format!("short name {} (pinned table, harness table)", row.short), format!("asm.yml now derives {}; essential_asm::short::{} {there}", yo.short, row.short), String::new()));
            continue;
        }
        if let Some(po) = cx.pinned.of_path(p) {
            if po.short != row.short {
                put(rep, sig("pinned_differs"), || (case(p), format!("pinned short name {}", po.short), format!("asm.yml and harness table: {}", row.short), String::new()));
                continue;
            }
        }
        let snippet = |want: &str, arg: &str| format!("#[test]\nfn replay() {{\n    assert_eq!(format!(\"{{:?}}\", essential_asm::short::{}{arg}), {:?});\n}}\n", row.short, want);
        match (row.konst, yo.imm > 0) {
            (K::Missing, _) => put(rep, sig("const_missing"), || (case(p), format!("essential_asm::short::{} exists (asm.yml derives that name for {p})", row.short), "no such const".into(), String::new())),
            (K::V(op), false) => {
                let r = catch(|| (format!("{op:?}"), asm::to_bytes([op]).next()));
                match r {
                    Err((site, msg)) => put(rep, panic_sig(&site, &msg), || (case(p), "an op".into(), format!("panic {site}: {msg}"), String::new())),
                    Ok((d, first)) => {
                        if d != yo.debug(None) || first != Some(yo.byte) || op != row.ctor.make(0) {
                            put(rep, sig("wrong_value"), || (case(p), format!("short::{} == {} (byte {})", row.short, yo.debug(None), hx(yo.byte)), format!("{d} (first byte {first:?})"), snippet(&yo.debug(None), "")));
                        }
                    }
                }
            }
            (K::F(f), true) => {
                for w in IMMS {
                    let r = catch(|| {
                        let op = f(w);
                        (format!("{op:?}"), op == row.ctor.make(w))
                    });
                    match r {
                        Err((site, msg)) => put(rep, panic_sig(&site, &msg), || (case(p), "an op".into(), format!("panic {site}: {msg}"), String::new())),
                        Ok((d, same)) => {
                            if d != yo.debug(Some(w)) || !same {
                                put(rep, sig("wrong_value"), || (case(p), format!("short::{}({w}) == {}", row.short, yo.debug(Some(w))), d.clone(), snippet(&yo.debug(Some(w)), &format!("({w})"))));
                            }
                        }
                    }
                }
            }
            (K::V(_), true) => put(rep, sig("wrong_kind"), || (case(p), format!("short::{} is fn(i64) -> Op ({} immediate bytes)", row.short, yo.imm), "a plain Op".into(), String::new())),
            (K::F(_), false) => put(rep, sig("wrong_kind"), || (case(p), format!("short::{} is a plain Op (no immediate)", row.short), "fn(i64) -> Op".into(), String::new())),
        }
    }
    // ops the YAML declares that the explicit table does not list
    for yo in &cx.yaml.ops {
        let p = yo.path();
        if !cx.row_by_path.contains_key(&p) {
            rep.eval(None, hash_of(&("short-unlisted", &p)));
            put(rep, Signature::new("C13", "short_name").feat(format!("op:{p}")).feat("no_row_in_harness_table"), || {
                (case(&p), "every op of asm.yml is one of the 62 pinned ops whose const the harness table lists".into(), format!("asm.yml declares {p} (short {}) which the harness cannot check; the op set has drifted", yo.short), String::new())
            });
        }
    }
}

fn check_word(w: i64, rep: &mut Report) {
    use essential_types::convert::{bytes_from_word, word_from_bytes};
    wal::tick();
    let case = || json!({"kind": "word", "word": w});
    let be = w.to_be_bytes();
    let r = catch(|| (bytes_from_word(w), word_from_bytes(be), word_from_bytes(bytes_from_word(w)), bytes_from_word(word_from_bytes(be))));
    let (b, back, inv1, inv2) = match r {
        Ok(x) => x,
        Err((site, msg)) => {
            rep.eval(None, 3);
            put(rep, panic_sig(&site, &msg), || (case(), "bytes".into(), format!("panic {site}: {msg}"), String::new()));
            return;
        }
    };
    rep.eval(Some(hash_of(&("word", w))), hash_of(&(b, back)));
    let snippet = || format!("#[test]\nfn replay() {{\n    use essential_types::convert::*;\n    assert_eq!(bytes_from_word({w}), {w}i64.to_be_bytes());\n    assert_eq!(word_from_bytes({w}i64.to_be_bytes()), {w});\n}}\n");
    if b != be || back != w {
        put(rep, Signature::new("C13", "big_endian").feat("dir:convert"), || (case(), format!("bytes_from_word = {}, word_from_bytes of those = {w}", hex::encode(be)), format!("bytes_from_word = {}, word_from_bytes({}) = {back}", hex::encode(b), hex::encode(be)), snippet()));
    }
    if inv1 != w || inv2 != be {
        put(rep, Signature::new("C13", "big_endian").feat("dir:convert").feat("not_inverse"), || (case(), "word_from_bytes and bytes_from_word are inverse".into(), format!("word -> bytes -> word = {inv1}; bytes -> word -> bytes = {}", hex::encode(inv2)), snippet()));
    }
}

// ---------------------------------------------------------------------------------------------
// Enumeration

/// Valid opcode bytes per the union of both specifications (so that drift in either is exercised).
// ---------------------------------------------------------------------------------------------
// Check: the per-group op types (`asm::Stack`, `asm::Pred`, ...) parse with their own opcode set

type GroupParse = fn(&mut dyn Iterator<Item = u8>) -> Option<Result<(String, Vec<u8>), String>>;

macro_rules! group_table {
    ($($g:ident),*) => {
        vec![$((
            stringify!($g),
            (|it: &mut dyn Iterator<Item = u8>| {
                use asm::TryFromBytes;
                let mut it = it;
                asm::$g::try_from_bytes(&mut it).map(|r| match r {
                    Ok(g) => {
                        let enc: Vec<u8> = asm::ToBytes::to_bytes(&g).collect();
                        let op: Op = g.into();
                        Ok((format!("{op:?}"), enc))
                    }
                    Err(FromBytesError::InvalidOpcode(InvalidOpcodeError(b))) => Err(format!("InvalidOpcode({b})")),
                    Err(FromBytesError::NotEnoughBytes(_)) => Err("NotEnoughBytes".to_string()),
                })
            }) as GroupParse,
            (|b: u8| asm::opcode::$g::try_from(b).ok().map(u8::from)) as fn(u8) -> Option<u8>,
            // the #[repr(u8)] discriminant of the group-level opcode enum
            (|b: u8| asm::opcode::$g::try_from(b).ok().map(|o| o as u8)) as fn(u8) -> Option<u8>,
        )),*]
    };
}

fn groups() -> Vec<(&'static str, GroupParse, fn(u8) -> Option<u8>, fn(u8) -> Option<u8>)> {
    group_table!(Stack, Pred, Alu, Access, Crypto, TotalControlFlow, Memory, ParentMemory, StateRead, Compute)
}

/// Byte `b` followed by `tail[..n]` through the parser of group `gname`.
fn check_group(cx: &Cx, gname: &str, b: u8, fill: u8, n: usize, rep: &mut Report) {
    wal::tick();
    let Some((_, parse, opc, disc)) = groups().into_iter().find(|g| g.0 == gname) else {
        rep.machinery_errors.push(format!("unknown group {gname}"));
        return;
    };
    let mut bytes = vec![b];
    bytes.extend((0..n).map(|i| if fill == 0 { 0xA1 + i as u8 } else { fill }));
    let case = || json!({"kind": "group", "group": gname, "byte": b, "fill": fill, "n": n});
    let r = catch(|| {
        let mut consumed = 0usize;
        let mut it = bytes.iter().copied().inspect(|_| consumed += 1);
        let r = parse(&mut it);
        drop(it);
        (r, consumed, opc(b), disc(b))
    });
    let (got, consumed, oc, dc) = match r {
        Ok(x) => x,
        Err((site, msg)) => {
            rep.eval(None, 3);
            put(rep, panic_sig(&site, &msg), || (case(), "Ok or Err".into(), format!("panic {site}: {msg}"), String::new()));
            return;
        }
    };
    let ok = matches!(got, Some(Ok(_)));
    rep.eval(if ok { Some(hash_of(&("group", gname, &bytes))) } else { None }, hash_of(&(gname, &bytes, &got, consumed)));
    if dc != oc || dc.map(|d| d != b).unwrap_or(false) {
        put(rep, Signature::new("C13", "opcode_roundtrip").feat("enum_discriminant").feat(format!("group:{gname}")), || {
            (case(), format!("opcode::{gname}::try_from({}) as u8 == u8::from(..) == {}", hx(b), hx(b)), format!("as u8 = {dc:?}, u8::from = {oc:?}"), String::new())
        });
    }
    for spec in cx.specs() {
        let so = spec.at(b).filter(|o| o.groups().first().map(|g| g == gname).unwrap_or(false));
        // expectation from the specification alone
        let (want, want_consumed): (Option<Result<(String, Vec<u8>), String>>, usize) = match so {
            None => (Some(Err(format!("InvalidOpcode({b})"))), 1),
            Some(o) if n < o.imm => (Some(Err("NotEnoughBytes".into())), 1 + n),
            Some(o) => {
                let imm = if o.imm == 8 { Some(i64::from_be_bytes(bytes[1..9].try_into().unwrap())) } else { None };
                (Some(Ok((o.debug(imm), bytes[..1 + o.imm].to_vec()))), 1 + o.imm)
            }
        };
        if got != want {
            let clause = match (&got, &want) {
                (Some(Err(g)), Some(Err(_))) if g.starts_with("NotEnough") => "not_enough_bytes",
                (_, Some(Err(w))) if w.starts_with("Invalid") => "invalid_opcode",
                (_, Some(Err(_))) => "not_enough_bytes",
                _ => "roundtrip.bytes",
            };
            put(rep, Signature::new("C13", clause).feat("group_level_parser").feat(format!("spec:{}", spec.name)), || {
                (case(), format!("{want:?} (per {})", spec.name), format!("{got:?}"), format!("#[test]\nfn replay() {{\n    use essential_asm::TryFromBytes;\n    let bytes = hex::decode(\"{}\").unwrap();\n    let r = essential_asm::{gname}::try_from_bytes(&mut bytes.iter().copied());\n    println!(\"{{r:?}}\");\n}}\n", hex::encode(&bytes)))
            });
        } else if consumed != want_consumed && matches!(want, Some(Ok(_))) {
            // (how much of the input a FAILED parse has looked at is not specified)
            put(rep, Signature::new("C13", "immediate_width").feat("group_level_parser").feat("bytes_consumed"), || {
                (case(), format!("consumes {want_consumed} byte(s)"), format!("consumed {consumed}"), String::new())
            });
        }
        // the group's opcode enum accepts exactly the group's bytes
        let want_oc = so.map(|_| b);
        if oc != want_oc {
            put(rep, Signature::new("C13", &format!("opcode_set.{}", spec.name)).feat("group_level_opcode").feat(format!("group:{gname}")), || {
                (case(), format!("opcode::{gname}::try_from({}) -> {want_oc:?}", hx(b)), format!("{oc:?}"), String::new())
            });
        }
    }
}

/// A `Push` (9 bytes) at every byte offset `k` of a stream of one-byte ops, followed by one more
/// op: whatever buffering a parser does internally, a whole op is a whole op at any offset.
fn check_alignment(cx: &Cx, k: usize, rep: &mut Report) {
    let one: Vec<u8> = cx.rows.iter().filter(|r| !r.ctor.takes_imm()).map(|r| asm::to_bytes([r.ctor.make(0)]).next().unwrap()).collect();
    let (a, b) = (one[0], one[one.len() / 2]);
    let mut bytes: Vec<u8> = (0..k).map(|i| if i % 3 == 0 { b } else { a }).collect();
    bytes.push(0x01);
    bytes.extend_from_slice(&0x0102_0304_0506_0708i64.to_be_bytes());
    bytes.push(b);
    check_bytes(cx, &bytes, rep);
    // and a stream made of pushes only, ending at offset 9*m (+ one op)
    if k % 9 == 0 {
        let mut bytes = vec![];
        for i in 0..k / 9 {
            bytes.push(0x01);
            bytes.extend_from_slice(&(0x0101_0101_0101_0100i64 + i as i64).to_be_bytes());
        }
        bytes.push(a);
        check_bytes(cx, &bytes, rep);
    }
}

fn valid_bytes(cx: &Cx) -> Vec<u8> {
    (0..=255u8).filter(|&b| cx.yaml.at(b).is_some() || cx.pinned.at(b).is_some()).collect()
}

fn immediates(cx: &Cx) -> Vec<i64> {
    let mut v: Vec<i64> = vec![];
    for k in 0..64 {
        v.push((1u64 << k) as i64);
    }
    for k in 0..64 {
        v.push(!(1u64 << k) as i64);
    }
    v.extend([0, -1, i64::MIN, i64::MAX]);
    for pos in 0..8 {
        for b in valid_bytes(cx) {
            let mut a = [0u8; 8];
            a[pos] = b;
            v.push(i64::from_be_bytes(a));
        }
    }
    let mut seen = std::collections::HashSet::new();
    v.retain(|w| seen.insert(*w));
    v
}

fn seq_alphabet(cx: &Cx) -> Vec<COp> {
    let mut v = vec![];
    for (i, r) in cx.rows.iter().enumerate() {
        if r.ctor.takes_imm() {
            for w in [0, -1, 0x0102030405060708, i64::MIN, 0x0101010101010101, i64::MAX] {
                v.push((i, w));
            }
        } else {
            v.push((i, 0));
        }
    }
    v
}

fn byte_alphabet(cx: &Cx) -> Vec<u8> {
    let mut v = valid_bytes(cx);
    for b in [0x00, 0x0F, 0xFF] {
        if !v.contains(&b) {
            v.push(b);
        }
    }
    v.sort();
    v
}

fn run(cfg: &RunCfg, rep: &mut Report) {
    let cx = Cx::new();
    let maxlen = cfg.tier.pick(2usize, 3usize);
    let imms = immediates(&cx);
    let alpha = seq_alphabet(&cx);
    let balpha = byte_alphabet(&cx);
    rep.bound_completed = format!(
        "256 opcode bytes; 65536 byte pairs; {} immediates x {} ops (with truncations); op sequences of length <= {maxlen} over {} symbols (truncations for length <= 2); byte strings of length <= 3 over {} bytes; {} short-name consts; a Push at every offset 0..={} of a stream of one-byte ops; 10 group-level parsers x 256 bytes x 2 fills x 10 truncations",
        imms.len(),
        cx.rows.len(),
        alpha.len(),
        balpha.len(),
        cx.rows.len(),
        cfg.tier.pick(1200usize, 9000usize)
    );
    let mut idx = 0u64;
    let mut next = || {
        idx += 1;
        cfg.mine(idx - 1)
    };
    // (0) specifications, short names
    if next() {
        rep.machinery_errors.extend(cx.machinery.iter().cloned());
        check_spec(&cx, rep);
    }
    if next() {
        check_short(&cx, rep);
        rep.sample(|| json!({"short_consts": cx.rows.iter().take(5).map(|r| json!([r.short, r.path])).collect::<Vec<_>>()}));
    }
    // (1) every byte through the Opcode API and from_bytes
    for b in 0..=255u8 {
        if next() {
            check_opcode(&cx, b, rep);
            if b == 0x04 {
                rep.sample(|| json!({"opcode_byte": hx(b), "yaml": cx.yaml.at(b).map(|o| o.path()), "pinned": cx.pinned.at(b).map(|o| o.path())}));
            }
        }
    }
    // (2) every byte pair
    for a in 0..=255u8 {
        if next() {
            for b in 0..=255u8 {
                check_bytes(&cx, &[a, b], rep);
            }
            if a == 0x02 {
                rep.sample(|| json!({"bytes": "0203", "parsed": format!("{:?}", real_decode(&[2, 3]).map(|x| x.0))}));
            }
        }
    }
    // (3) every immediate with every op
    let imm_rows = cx.imm_rows();
    for (k, &w) in imms.iter().enumerate() {
        if !next() {
            continue;
        }
        check_word(w, rep);
        for (i, r) in cx.rows.iter().enumerate() {
            if r.ctor.takes_imm() {
                check_ops(&cx, &[(i, w)], true, rep);
            } else {
                for &p in &imm_rows {
                    check_ops(&cx, &[(p, w), (i, 0)], true, rep);
                    check_ops(&cx, &[(i, 0), (p, w)], true, rep);
                }
            }
        }
        if k == 130 || k == 200 {
            rep.sample(|| json!({"immediate": w, "be_bytes": hex::encode(w.to_be_bytes()), "with_each_of_ops": cx.rows.len()}));
        }
    }
    // (4) op sequences
    if next() {
        check_ops(&cx, &[], true, rep);
    }
    for (i, &a) in alpha.iter().enumerate() {
        if !next() {
            continue;
        }
        check_ops(&cx, &[a], true, rep);
        for &b in &alpha {
            check_ops(&cx, &[a, b], true, rep);
            if maxlen >= 3 {
                for &c in &alpha {
                    check_ops(&cx, &[a, b, c], false, rep);
                }
            }
        }
        if i == 3 {
            let s = [a, alpha[(i * 7) % alpha.len()]];
            rep.sample(|| json!({"ops": s.iter().map(|&c| cop_debug(&cx, c)).collect::<Vec<_>>(), "bytes": hex::encode(s.iter().flat_map(|&(r, w)| asm::to_bytes([cx.rows[r].ctor.make(w)])).collect::<Vec<u8>>())}));
        }
    }
    // (5) byte strings of length <= 3 over the byte alphabet
    if next() {
        check_bytes(&cx, &[], rep);
    }
    for &a in &balpha {
        if !next() {
            continue;
        }
        check_bytes(&cx, &[a], rep);
        for &b in &balpha {
            check_bytes(&cx, &[a, b], rep);
            for &c in &balpha {
                check_bytes(&cx, &[a, b, c], rep);
            }
        }
    }
    // (6) a Push at every offset of a long stream
    let kmax = cfg.tier.pick(1200usize, 9000usize);
    for k in 0..=kmax {
        if next() {
            check_alignment(&cx, k, rep);
            if k == 300 {
                rep.sample(|| json!({"push_at_offset": k, "stream_length": k + 10}));
            }
        }
    }
    // (7) the per-group op types: every byte x two fills x every truncation, through each group's parser
    for (gname, ..) in groups() {
        for b in 0..=255u8 {
            if !next() {
                continue;
            }
            for fill in [0u8, 0x01] {
                for n in 0..=9usize {
                    check_group(&cx, gname, b, fill, n, rep);
                }
            }
            if b == 0x01 && gname == "Pred" {
                rep.sample(|| json!({"group_parser": gname, "byte": hx(b), "followed_by": "0..=9 bytes"}));
            }
        }
    }
}

fn replay(case: &Value) -> Result<bool, String> {
    let cx = Cx::new();
    let mut rep = Report::new();
    match case["kind"].as_str().ok_or("kind")? {
        "bytes" => {
            let b = hex::decode(case["hex"].as_str().ok_or("hex")?).map_err(|e| e.to_string())?;
            check_bytes(&cx, &b, &mut rep);
        }
        "opcode" => check_opcode(&cx, case["byte"].as_u64().ok_or("byte")? as u8, &mut rep),
        "ops" => {
            let mut seq = vec![];
            for o in case["ops"].as_array().ok_or("ops")? {
                let p = o[0].as_str().ok_or("op path")?;
                let r = *cx.row_by_path.get(p).ok_or(format!("unknown op {p}"))?;
                seq.push((r, o[1].as_i64().unwrap_or(0)));
            }
            check_ops(&cx, &seq, case["truncations"].as_bool().unwrap_or(false), &mut rep);
        }
        "word" => check_word(case["word"].as_i64().ok_or("word")?, &mut rep),
        "spec" => check_spec(&cx, &mut rep),
        "short" => check_short(&cx, &mut rep),
        "group" => check_group(&cx, case["group"].as_str().ok_or("group")?, case["byte"].as_u64().ok_or("byte")? as u8, case["fill"].as_u64().unwrap_or(0) as u8, case["n"].as_u64().unwrap_or(0) as usize, &mut rep),
        k => return Err(format!("unknown case kind {k}")),
    }
    let clause = case["clause"].as_str();
    Ok(rep.violations.values().any(|v| clause.is_none() || clause == Some(v.signature.clause.as_str())))
}
