//! C04 — a solution set is a set: results do not depend on solution order.
use crate::ckh::*;
use crate::fw::*;
use crate::refvm::W;
use crate::PropSpec;
use essential_check::solution::check_set;
use serde_json::{json, Value};
use std::collections::BTreeMap;

pub fn spec() -> PropSpec {
    PropSpec {
        id: "C04",
        level: "exploration",
        rule: "all multisets of 1..3 solutions (thorough: 4) from a colliding domain — 2 contracts x 6 predicates (always true; data output computing [1]->[9]; post-state constraints 'key [0] reads [7]', '[0] reads [8]', '[1] reads [9]', '[1] reads [7]') x 8 declared mutation lists over keys {[0],[1]} and values {[],[7],[8]}, two of them writing key [0] twice — x ALL permutations. Metamorphic oracle across the permutations of one set: identical content address, identical check_set verdict class; for accepted sets identical two-pass verdict (failing solutions matched through the permutation), total gas and computed mutations per solution; invariant: an accepted set never contains two mutations of one (contract, key) with different values. non-trivial = set with >= 2 solutions that check_set accepts; distinct by the sorted set",
        assumptions: &["predicates come from a fixed menu; the state is empty"],
        run,
        replay,
        describe_wal: None,
        run_wal: None,
        both_profiles: false,
        workers: 0,
    }
}

fn enc(muts: &[(Vec<W>, Vec<W>)]) -> Vec<W> {
    let mut v = vec![muts.len() as W];
    for (k, val) in muts {
        v.push(k.len() as W);
        v.extend(k);
        v.push(val.len() as W);
        v.extend(val);
    }
    v
}

fn preds() -> Vec<PredCase> {
    let l = u16::MAX;
    vec![
        PredCase { nodes: vec![(l, Role::LeafTrue)], edges: vec![] },
        PredCase { nodes: vec![(l, Role::LeafRaw(enc(&[(vec![1], vec![9])])))], edges: vec![] },
        PredCase { nodes: vec![(l, Role::LeafPostEquals { key: vec![0], want: vec![7] })], edges: vec![] },
        PredCase { nodes: vec![(l, Role::LeafPostEquals { key: vec![0], want: vec![8] })], edges: vec![] },
        // readers of the key the data-output predicate computes
        PredCase { nodes: vec![(l, Role::LeafPostEquals { key: vec![1], want: vec![9] })], edges: vec![] },
        PredCase { nodes: vec![(l, Role::LeafPostEquals { key: vec![1], want: vec![7] })], edges: vec![] },
    ]
}

fn mutation_menu() -> Vec<Vec<(Vec<W>, Vec<W>)>> {
    vec![
        vec![],
        vec![(vec![0], vec![7])],
        vec![(vec![0], vec![8])],
        vec![(vec![0], vec![])],
        vec![(vec![1], vec![7])],
        vec![(vec![0], vec![7]), (vec![1], vec![8])],
        // one solution writing one key twice (same value / different values): never acceptable,
        // whatever else the set contains and wherever the solution stands in it
        vec![(vec![0], vec![7]), (vec![0], vec![7])],
        vec![(vec![0], vec![7]), (vec![0], vec![8])],
    ]
}

fn domain() -> Vec<SolCase> {
    let mut v = vec![];
    for contract in [0xC1u8, 0xC2] {
        for pred in 0..6 {
            for m in mutation_menu() {
                v.push(SolCase { pred, contract, data: vec![], mutations: m });
            }
        }
    }
    v
}

fn permutations(n: usize) -> Vec<Vec<usize>> {
    fn go(cur: &mut Vec<usize>, used: &mut Vec<bool>, n: usize, out: &mut Vec<Vec<usize>>) {
        if cur.len() == n {
            out.push(cur.clone());
            return;
        }
        for i in 0..n {
            if !used[i] {
                used[i] = true;
                cur.push(i);
                go(cur, used, n, out);
                cur.pop();
                used[i] = false;
            }
        }
    }
    let mut out = vec![];
    go(&mut vec![], &mut vec![false; n], n, &mut out);
    out
}

/// Order-independent rendering of a two-pass outcome: failing solutions and computed
/// mutations are attached to the solution's own content, not to its index.
fn canon(out: &CkOut, sols: &[SolCase]) -> String {
    match out {
        CkOut::Ok { gas, mutations } => {
            let mut per: Vec<String> = sols.iter().zip(mutations).map(|(s, m)| format!("{s:?} => {m:?}")).collect();
            per.sort();
            format!("Ok gas={gas} {per:?}")
        }
        // mutation-decoding failures name only the first failing solution met: which one
        // is not specified, only that the set is rejected for that reason
        CkOut::Failed(f) if f.iter().all(|(_, k)| *k == SolFail::Mutations) => "Failed [Mutations]".to_string(),
        CkOut::Failed(f) => {
            let mut per: Vec<String> = f.iter().map(|(i, k)| format!("{:?} => {k:?}", sols[*i as usize])).collect();
            per.sort();
            format!("Failed {per:?}")
        }
        other => format!("{other:?}"),
    }
}

fn check_set_case(base: &[SolCase], rep: &mut Report) {
    let mut seen: BTreeMap<&'static str, (String, Vec<usize>)> = BTreeMap::new();
    let mut accepted = false;
    let mut fail = |clause: &str, feats: &[&str], perm: &[usize], first: &(String, Vec<usize>), got: &str, rep: &mut Report| {
        let mut sig = Signature::new("C04", clause);
        for f in feats {
            sig = sig.feat(*f);
        }
        let key = sig.key();
        rep.violate(
            || viol(sig, json!({"kind": "c04", "solutions": base, "permutation": perm, "other_permutation": first.1}), json!(first.0), json!(got), String::new()),
            Some(&key),
        );
    };
    let feats: Vec<&str> = {
        // two different solutions, same contract, same key, different value
        let mut f = vec![];
        'o: for (i, a) in base.iter().enumerate() {
            for b in base.iter().skip(i + 1) {
                if a.contract == b.contract {
                    for (ka, va) in &a.mutations {
                        for (kb, vb) in &b.mutations {
                            if ka == kb && va != vb {
                                f.push("two_solutions_same_contract_same_key");
                                break 'o;
                            }
                        }
                    }
                }
            }
        }
        f
    };
    for perm in permutations(base.len()) {
        let sols: Vec<SolCase> = perm.iter().map(|&i| base[i].clone()).collect();
        let case = CkCase { preds: preds(), sols: sols.clone(), pre: vec![], strict: false, short: false, collect_all: true };
        let b = build(&case);
        let addr = format!("{}", essential_hash::content_addr(&b.set));
        let verdict = match catch(|| check_set(&b.set)) {
            Ok(Ok(())) => "accepted".to_string(),
            Ok(Err(_)) => "rejected".to_string(),
            Err((s, m)) => format!("panic {s}: {m}"),
        };
        let mut obs: Vec<(&'static str, String)> = vec![("content_address", addr), ("check_set.verdict", verdict.clone())];
        if verdict == "accepted" {
            accepted = true;
            // invariant: one value per (contract, key)
            let mut slots: BTreeMap<(u8, Vec<W>), Vec<W>> = BTreeMap::new();
            for s in &sols {
                for (k, v) in &s.mutations {
                    if let Some(prev) = slots.insert((s.contract, k.clone()), v.clone()) {
                        if &prev != v {
                            let first = ("one value per contract and key".to_string(), perm.clone());
                            fail("one_value_per_slot", &feats, &perm, &first, &format!("contract {:02x} key {k:?}: {prev:?} and {v:?}", s.contract), rep);
                        }
                    }
                }
            }
            let r = run_two_pass(&case, &b);
            obs.push(("two_pass", canon(&r.out, &sols)));
        }
        for (what, val) in obs {
            match seen.get(what) {
                None => {
                    seen.insert(what, (val, perm.clone()));
                }
                Some(first) => {
                    if first.0 != val {
                        let first = first.clone();
                        fail(&format!("order_independent.{what}"), &feats, &perm, &first, &val, rep);
                    }
                }
            }
        }
    }
    let mut sorted = base.to_vec();
    sorted.sort_by_key(|s| format!("{s:?}"));
    rep.eval(
        if accepted && base.len() >= 2 { Some(hash_of(&sorted)) } else { None },
        hash_of(&seen.get("two_pass").map(|x| x.0.clone())),
    );
}

fn run(cfg: &RunCfg, rep: &mut Report) {
    let d = domain();
    rep.bound_completed = format!("all multisets of 1..3 solutions over a domain of {} solutions, all permutations{}", d.len(), cfg.tier.pick("", "; plus all multisets of 4 (24 permutations each)"));
    let mut idx = 0u64;
    for i in 0..d.len() {
        idx += 1;
        if cfg.mine(idx) {
            check_set_case(&[d[i].clone()], rep);
        }
        for j in i..d.len() {
            idx += 1;
            if cfg.mine(idx) {
                wal::tick();
                check_set_case(&[d[i].clone(), d[j].clone()], rep);
                if idx % 301 == 0 {
                    rep.sample(|| json!({"set": [d[i], d[j]], "permutations": 2}));
                }
            }
            for k in j..d.len() {
                idx += 1;
                if cfg.mine(idx) {
                    check_set_case(&[d[i].clone(), d[j].clone(), d[k].clone()], rep);
                }
                if cfg.tier == Tier::Thorough {
                    for l in k..d.len() {
                        idx += 1;
                        if cfg.mine(idx) {
                            check_set_case(&[d[i].clone(), d[j].clone(), d[k].clone(), d[l].clone()], rep);
                        }
                    }
                }
            }
        }
    }
}

fn replay(case: &Value) -> Result<bool, String> {
    let base: Vec<SolCase> = serde_json::from_value(case["solutions"].clone()).map_err(|e| e.to_string())?;
    let mut rep = Report::new();
    check_set_case(&base, &mut rep);
    Ok(!rep.violations.is_empty())
}
