//! C18 — wire, text and serde codecs round-trip every value.
use super::c17::{
    contract_pool, lists, multisets, ref_encode_predicate, sized_predicates, small_predicates, small_programs, small_solutions, solution_pool, CSpec, PSpec,
    SSpec, H32,
};
use crate::fw::*;
use crate::PropSpec;
use essential_types::{
    contract::SignedContract,
    convert::*,
    predicate::{Predicate, Program},
    solution::{decode::decode_mutations, encode::encode_mutations, Mutation},
    ContentAddress, PredicateAddress, Signature as Sig, Word,
};
use serde::{de::DeserializeOwned, Deserialize, Serialize};
use serde_json::{json, Value};

pub fn spec() -> PropSpec {
    PropSpec {
        id: "C18",
        level: "exploration",
        rule: "predicates: the 559 small predicates of C17 (<=2 nodes/<=2 edges, values {0,1,0xFFFF}) plus generated ones with {0,1,999,1000} nodes x edges through encode/decode, decode of the harness' own documented-layout bytes, and every truncation (quick: a boundary subset for the large ones); mutation lists over keys/values of length 0..2 from W={MIN,-1,0,1,2,MAX} (1849 mutations): quick = every single mutation, all pairs (any of the 1849, one of the 169 mutations with words {-1,0,2}) and triples over 169 x 169 x 6; thorough = all lists <=2 over the 1849 and all lists of 3 over the 169; words: lists <=2 (quick) / <=3 over W plus the 64 one-hot words, word_from_bytes_slice for lengths 0..=9; arrays: every one-hot bit and counting patterns for 32/64-byte arrays and 4/8-word arrays in both directions; serde (serde_json via string and via Value, postcard) + Display/FromStr/LowerHex/UpperHex for ContentAddress, PredicateAddress, Signature, Predicate, Program, Mutation, Solution, SolutionSet, Contract, SignedContract from the C17 domains and bit patterns; legacy JSON field names; node_edges for every predicate with <=3 nodes/<=3 edges over edge_start {0,1,2,3,4,0xFFFF} and every index 0..=n+1 and usize::MAX. non-trivial = value is not the empty/default one (node_edges: index in bounds); distinct by case",
        assumptions: &[
            "only encodings produced by the subject's (or the documented-layout) encoder are decoded; malformed mutation input belongs to C06",
            "hex case of Display and of the JSON strings is not pinned (compared case-insensitively against the hex crate); {:x}/{:X} are compared exactly",
            "word_from_bytes_slice on fewer than 8 bytes: padding is not specified by the statement, only totality is checked (masked)",
            "a truncated predicate encoding that decodes to Ok is not a round-trip violation (masked)",
        ],
        run,
        replay,
        describe_wal: None,
        run_wal: None,
        both_profiles: false,
        workers: 0,
    }
}

pub const W: [Word; 6] = [Word::MIN, -1, 0, 1, 2, Word::MAX];
type MSpec = (Vec<Word>, Vec<Word>);

#[derive(Clone, Debug, PartialEq, Eq, Hash, Serialize, Deserialize)]
pub enum TVal {
    ContentAddress(H32),
    PredicateAddress(H32, H32),
    Signature(Vec<u8>, u8),
    Predicate(PSpec),
    Program(Vec<u8>),
    Mutation(Vec<Word>, Vec<Word>),
    Solution(SSpec),
    SolutionSet(Vec<SSpec>),
    Contract(CSpec),
    SignedContract(CSpec, Vec<u8>, u8),
}

#[derive(Clone, Debug, PartialEq, Eq, Hash, Serialize, Deserialize)]
pub enum Case {
    Pred { p: PSpec, all_truncations: bool },
    Muts(Vec<MSpec>),
    Words(Vec<Word>),
    Slice { word: Word, len: usize },
    B32(H32),
    B64(Vec<u8>),
    W4([Word; 4]),
    W8([Word; 8]),
    Serde(TVal),
    NodeEdges { starts: Vec<u16>, n_edges: usize },
}

// ---------------------------------------------------------------------------------------------

struct Ctx<'a> {
    case: &'a Case,
    rep: &'a mut Report,
}

impl Ctx<'_> {
    fn fail(&mut self, clause: &str, feats: &[&str], want: Value, got: Value, snippet: &dyn Fn() -> String) {
        let mut sig = Signature::new("C18", clause);
        for f in feats {
            sig = sig.feat(*f);
        }
        let key = sig.key();
        let case = self.case;
        self.rep.violate(|| viol(sig, json!({"case": case}), want, got, snippet()), Some(&key));
    }
    fn panicked(&mut self, what: &str, e: (String, String)) {
        let sig = Signature::new("C18", "no_panic").site(super::c17::panic_site(&e));
        let key = sig.key();
        let case = self.case;
        self.rep.violate(|| viol(sig, json!({"case": case}), json!("no panic"), json!(format!("{what}: panic at {}: {}", e.0, e.1)), String::new()), Some(&key));
    }
    /// Run subject code; a panic is a `no_panic` violation and yields `None`.
    fn guard<R>(&mut self, what: &str, f: impl FnOnce() -> R) -> Option<R> {
        match catch(f) {
            Ok(r) => Some(r),
            Err(e) => {
                self.panicked(what, e);
                None
            }
        }
    }
}

const USES: &str = "use essential_types::{contract::*, convert::*, predicate::*, solution::*, *};";

fn hx(b: &[u8]) -> String {
    if b.len() <= 160 {
        hex::encode(b)
    } else {
        format!("{}..({} bytes)", hex::encode(&b[..80]), b.len())
    }
}

// ---------------------------------------------------------------------------------------------
// Predicates through encode / decode

fn truncation_points(len: usize, n_nodes: usize, all: bool) -> Vec<usize> {
    if all || len <= 400 {
        return (0..len).collect();
    }
    let nodes_end = 2 + 34 * n_nodes;
    let mut v: Vec<usize> = (0..80).collect();
    v.extend(nodes_end.saturating_sub(40)..(nodes_end + 40).min(len));
    v.extend(len - 40..len);
    v.extend((0..len).step_by(101));
    v.retain(|&x| x < len);
    v.sort();
    v.dedup();
    v
}

fn check_pred(c: &mut Ctx, ps: &PSpec, all_truncations: bool) {
    let p = ps.build();
    let (nodes, edges) = ps.parts();
    let nt = if ps.is_default() { None } else { Some(hash_of(c.case)) };
    let pe = ps.expr();
    let enc = c.guard("encode", || p.encode().ok().map(|i| i.collect::<Vec<u8>>()));
    let mut obs = 0u64;
    if let Some(enc) = &enc {
        match enc {
            None => c.fail("roundtrip.predicate", &["encode_fails_within_limits"], json!("Ok"), json!("Err"), &|| String::new()),
            Some(bytes) => {
                obs = hash_of(bytes);
                if let Some(back) = c.guard("decode(encode)", || Predicate::decode(bytes)) {
                    let outcome = match &back {
                        Ok(q) if *q == p => None,
                        Ok(_) => Some("different_value"),
                        Err(_) => Some("error"),
                    };
                    if let Some(o) = outcome {
                        let _ = o;
                        c.fail("roundtrip.predicate", &["decode_of_encode"], json!(format!("{p:?}").chars().take(600).collect::<String>()), json!(format!("{back:?}").chars().take(600).collect::<String>()), &|| {
                            format!("#[test]\nfn replay() {{\n    {USES}\n    let p = {pe};\n    let bytes: Vec<u8> = p.encode().unwrap().collect();\n    assert_eq!(Predicate::decode(&bytes), Ok(p));\n}}\n")
                        });
                    }
                }
                // no truncation of a valid encoding may panic
                let mut ok_trunc = 0;
                for cut in truncation_points(bytes.len(), nodes.len(), all_truncations) {
                    wal::tick();
                    match catch(|| Predicate::decode(&bytes[..cut]).is_ok()) {
                        Ok(true) => ok_trunc += 1,
                        Ok(false) => {}
                        Err(e) => c.panicked(&format!("decode of the first {cut} of {} bytes", bytes.len()), e),
                    }
                    c.rep.add_extra("truncated_decodes", 1);
                }
                if ok_trunc > 0 {
                    c.rep.mask("truncated predicate encoding decoded to Ok (unspecified)");
                }
            }
        }
    }
    // the documented layout, produced by the harness, must decode to the value as well
    // (skipped when the subject's encoder produced exactly these bytes: already decoded above)
    if let Some(doc) = ref_encode_predicate(&nodes, &edges).filter(|d| enc.as_ref().map(|e| e.as_ref()) != Some(Some(d))) {
        if let Some(back) = c.guard("decode(documented bytes)", || Predicate::decode(&doc)) {
            let outcome = match &back {
                Ok(q) if *q == p => None,
                Ok(_) => Some("different_value"),
                Err(_) => Some("error"),
            };
            if let Some(o) = outcome {
                let _ = o;
                c.fail("roundtrip.predicate", &["decode_of_documented_layout"], json!(format!("{p:?}").chars().take(600).collect::<String>()), json!({"bytes": hx(&doc), "decoded": format!("{back:?}").chars().take(600).collect::<String>()}), &|| {
                    format!("#[test]\nfn replay() {{\n    {USES}\n    // number_of_nodes | (edge_start | program_address)* | number_of_edges | edges*, all u16 big-endian\n    let bytes = hex::decode({:?}).unwrap();\n    assert_eq!(Predicate::decode(&bytes), Ok({pe}));\n}}\n", if doc.len() <= 400 { hex::encode(&doc) } else { "<large>".into() })
                });
            }
        }
    }
    c.rep.eval(nt, obs);
}

// ---------------------------------------------------------------------------------------------
// Mutations

fn build_muts(ms: &[MSpec]) -> Vec<Mutation> {
    ms.iter().map(|(k, v)| Mutation { key: k.clone(), value: v.clone() }).collect()
}

fn check_muts(c: &mut Ctx, ms: &[MSpec]) {
    let muts = build_muts(ms);
    let nt = if ms.is_empty() { None } else { Some(hash_of(c.case)) };
    let mut obs = 0;
    let me: Vec<String> = ms.iter().map(|(k, v)| format!("Mutation {{ key: vec!{k:?}, value: vec!{v:?} }}")).collect();
    if let Some(words) = c.guard("encode_mutations", || encode_mutations(&muts).collect::<Vec<Word>>()) {
        obs = hash_of(&words);
        if let Some(back) = c.guard("decode_mutations", || decode_mutations(&words)) {
            if back.as_ref() != Ok(&muts) {
                c.fail("roundtrip.mutations", &["list"], json!(format!("{muts:?}")), json!({"words": words, "decoded": format!("{back:?}")}), &|| {
                    format!("#[test]\nfn replay() {{\n    {USES}\n    let ms = vec![{}];\n    let words: Vec<Word> = encode::encode_mutations(&ms).collect();\n    assert_eq!(decode::decode_mutations(&words), Ok(ms));\n}}\n", me.join(", "))
                });
            }
        }
    }
    if ms.len() == 1 {
        let m = &muts[0];
        if let Some(words) = c.guard("Mutation::encode", || m.encode().collect::<Vec<Word>>()) {
            if let Some(back) = c.guard("Mutation::decode_mutation", || Mutation::decode_mutation(&words)) {
                if back.as_ref() != Ok(m) {
                        c.fail("roundtrip.mutations", &["single"], json!(format!("{m:?}")), json!({"words": words, "decoded": format!("{back:?}")}), &|| {
                        format!("#[test]\nfn replay() {{\n    {USES}\n    let m = {};\n    let words: Vec<Word> = m.encode().collect();\n    assert_eq!(Mutation::decode_mutation(&words), Ok(m));\n}}\n", me[0])
                    });
                }
            }
        }
    }
    c.rep.eval(nt, obs);
}

// ---------------------------------------------------------------------------------------------
// Words, bytes, hex

fn check_words(c: &mut Ctx, ws: &[Word]) {
    let nt = if ws.is_empty() { None } else { Some(hash_of(c.case)) };
    let mut flat: Vec<u8> = vec![];
    for &w in ws {
        if let Some((b, back)) = c.guard("bytes_from_word/word_from_bytes", || {
            let b = bytes_from_word(w);
            (b, word_from_bytes(b))
        }) {
            flat.extend(b);
            if back != w {
                c.fail("roundtrip.words_hex", &["word_from_bytes(bytes_from_word)"], json!(w), json!({"bytes": hex::encode(b), "word": back}), &|| {
                    format!("#[test]\nfn replay() {{\n    {USES}\n    assert_eq!(word_from_bytes(bytes_from_word({w})), {w});\n}}\n")
                });
            }
        }
    }
    let mut obs = 0;
    if let Some(h) = c.guard("hex_str_from_words", || hex_str_from_words(ws)) {
        obs = hash_of(&h);
        if h != hex::encode(&flat) {
            c.fail("hex_form", &["hex_str_from_words"], json!(hex::encode(&flat)), json!(h), &|| {
                format!("#[test]\nfn replay() {{\n    {USES}\n    let ws: Vec<Word> = vec!{ws:?};\n    let bytes: Vec<u8> = ws.iter().flat_map(|w| bytes_from_word(*w)).collect();\n    assert_eq!(hex_str_from_words(&ws), hex::encode(bytes));\n}}\n")
            });
        }
        if let Some(back) = c.guard("words_from_hex_str", || words_from_hex_str(&h)) {
            if back.as_deref() != Ok(ws) {
                c.fail("roundtrip.words_hex", &["words_from_hex_str(hex_str_from_words)"], json!(ws), json!({"hex": h, "words": format!("{back:?}")}), &|| {
                    format!("#[test]\nfn replay() {{\n    {USES}\n    let ws: Vec<Word> = vec!{ws:?};\n    assert_eq!(words_from_hex_str(&hex_str_from_words(&ws)).unwrap(), ws);\n}}\n")
                });
            }
        }
    }
    c.rep.eval(nt, obs);
}

fn check_slice(c: &mut Ctx, word: Word, len: usize) {
    let mut bytes = word.to_be_bytes().to_vec();
    if let Some(b) = c.guard("bytes_from_word", || bytes_from_word(word)) {
        bytes = b.to_vec();
    }
    bytes.push(0xAB);
    let len = len.min(bytes.len());
    let got = c.guard("word_from_bytes_slice", || word_from_bytes_slice(&bytes[..len]));
    c.rep.eval(if len >= 8 { Some(hash_of(c.case)) } else { None }, hash_of(&got));
    let Some(got) = got else { return };
    if len >= 8 {
        if got != word {
            c.fail("roundtrip.words_hex", &["word_from_bytes_slice(bytes_from_word)"], json!(word), json!(got), &|| {
                format!("#[test]\nfn replay() {{\n    {USES}\n    let mut b = bytes_from_word({word}).to_vec();\n    b.push(0xAB);\n    assert_eq!(word_from_bytes_slice(&b[..{len}]), {word});\n}}\n")
            });
        }
    } else {
        c.rep.mask("word_from_bytes_slice on fewer than 8 bytes (padding unspecified; totality checked)");
    }
}

// ---------------------------------------------------------------------------------------------
// Fixed-width arrays

fn check_b32(c: &mut Ctx, b: [u8; 32]) {
    let r = c.guard("32-byte conversions", || {
        let ws = word_4_from_u8_32(b);
        let back = u8_32_from_word_4(ws);
        let via_from: [Word; 4] = ContentAddress(b).into();
        let bytes_from: [u8; 32] = ContentAddress(b).into();
        let ca_from: ContentAddress = b.into();
        let ca_from_words: ContentAddress = ws.into();
        (ws, back, via_from, bytes_from, ca_from.0, ca_from_words.0, ws.iter().flat_map(|w| bytes_from_word(*w)).collect::<Vec<u8>>())
    });
    c.rep.eval(if b == [0; 32] { None } else { Some(hash_of(c.case)) }, hash_of(&r.as_ref().map(|r| r.0)));
    let Some((ws, back, via_from, bytes_from, ca_from, ca_from_words, hexs)) = r else { return };
    let hb = hex::encode(b);
    let sn = || format!("#[test]\nfn replay() {{\n    {USES}\n    let b: [u8; 32] = hex::decode({hb:?}).unwrap().try_into().unwrap();\n    assert_eq!(u8_32_from_word_4(word_4_from_u8_32(b)), b);\n    assert_eq!(word_4_from_u8_32(b).iter().flat_map(|w| bytes_from_word(*w)).collect::<Vec<u8>>(), b);\n}}\n");
    if back != b {
        c.fail("roundtrip.arrays", &["u8_32_from_word_4(word_4_from_u8_32)"], json!(hb), json!({"words": ws, "bytes": hex::encode(back)}), &sn);
    }
    if via_from != ws {
        c.fail("roundtrip.arrays", &["From<ContentAddress> for [Word; 4]"], json!(ws), json!(via_from), &sn);
    }
    if bytes_from != b || ca_from != b {
        c.fail("roundtrip.arrays", &["ContentAddress <-> [u8; 32]"], json!(hb), json!([hex::encode(bytes_from), hex::encode(ca_from)]), &sn);
    }
    if ca_from_words != b {
        c.fail("roundtrip.arrays", &["From<[Word; 4]> for ContentAddress"], json!(hb), json!(hex::encode(ca_from_words)), &sn);
    }
    if hexs != b {
        c.fail("roundtrip.arrays", &["word_4_from_u8_32: word i = bytes 8i..8i+8 (bytes_from_word)"], json!(hb), json!(hex::encode(hexs)), &sn);
    }
}

fn check_b64(c: &mut Ctx, v: &[u8]) {
    let Ok(b): Result<[u8; 64], _> = v.to_vec().try_into() else { return };
    let r = c.guard("64-byte conversions", || {
        let ws = word_8_from_u8_64(b);
        (ws, u8_64_from_word_8(ws), ws.iter().flat_map(|w| bytes_from_word(*w)).collect::<Vec<u8>>())
    });
    c.rep.eval(if b == [0; 64] { None } else { Some(hash_of(c.case)) }, hash_of(&r.as_ref().map(|r| r.0)));
    let Some((ws, back, hexs)) = r else { return };
    let hb = hex::encode(b);
    let sn = || format!("#[test]\nfn replay() {{\n    {USES}\n    let b: [u8; 64] = hex::decode({hb:?}).unwrap().try_into().unwrap();\n    assert_eq!(u8_64_from_word_8(word_8_from_u8_64(b)), b);\n    assert_eq!(word_8_from_u8_64(b).iter().flat_map(|w| bytes_from_word(*w)).collect::<Vec<u8>>(), b);\n}}\n");
    if back != b {
        c.fail("roundtrip.arrays", &["u8_64_from_word_8(word_8_from_u8_64)"], json!(hb), json!({"words": ws, "bytes": hex::encode(back)}), &sn);
    }
    if hexs != b {
        c.fail("roundtrip.arrays", &["word_8_from_u8_64: word i = bytes 8i..8i+8 (bytes_from_word)"], json!(hb), json!(hex::encode(hexs)), &sn);
    }
}

fn check_w4(c: &mut Ctx, ws: [Word; 4]) {
    let r = c.guard("4-word conversions", || {
        let b = u8_32_from_word_4(ws);
        (b, word_4_from_u8_32(b))
    });
    c.rep.eval(if ws == [0; 4] { None } else { Some(hash_of(c.case)) }, hash_of(&r));
    let Some((b, back)) = r else { return };
    if back != ws {
        c.fail("roundtrip.arrays", &["word_4_from_u8_32(u8_32_from_word_4)"], json!(ws), json!({"bytes": hex::encode(b), "words": back}), &|| {
            format!("#[test]\nfn replay() {{\n    {USES}\n    let ws: [Word; 4] = {ws:?};\n    assert_eq!(word_4_from_u8_32(u8_32_from_word_4(ws)), ws);\n}}\n")
        });
    }
}

fn check_w8(c: &mut Ctx, ws: [Word; 8]) {
    let r = c.guard("8-word conversions", || {
        let b = u8_64_from_word_8(ws);
        (b.to_vec(), word_8_from_u8_64(b))
    });
    c.rep.eval(if ws == [0; 8] { None } else { Some(hash_of(c.case)) }, hash_of(&r));
    let Some((b, back)) = r else { return };
    if back != ws {
        c.fail("roundtrip.arrays", &["word_8_from_u8_64(u8_64_from_word_8)"], json!(ws), json!({"bytes": hex::encode(b), "words": back}), &|| {
            format!("#[test]\nfn replay() {{\n    {USES}\n    let ws: [Word; 8] = {ws:?};\n    assert_eq!(word_8_from_u8_64(u8_64_from_word_8(ws)), ws);\n}}\n")
        });
    }
}

// ---------------------------------------------------------------------------------------------
// serde + text forms

fn short<T: std::fmt::Debug>(t: &T) -> String {
    let s = format!("{t:?}");
    if s.len() > 700 {
        format!("{}..", &s[..700])
    } else {
        s
    }
}

/// serde_json (through a string and through `Value`) and postcard. Returns the JSON value.
fn serde_roundtrip<T: Serialize + DeserializeOwned + PartialEq + std::fmt::Debug>(c: &mut Ctx, ty: &str, v: &T) -> Option<Value> {
    // JSON through a string
    let o_str = c.guard("serde_json string", || match serde_json::to_string(v) {
        Err(e) => ("serialize_error", e.to_string()),
        Ok(s) => match serde_json::from_str::<T>(&s) {
            Err(e) => ("deserialize_error", format!("{e}; json = {}", short(&s))),
            Ok(back) if back != *v => ("different_value", format!("{}; json = {}", short(&back), short(&s))),
            Ok(_) => ("ok", String::new()),
        },
    });
    // JSON through Value
    let mut val = None;
    let o_val = c.guard("serde_json Value", || match serde_json::to_value(v) {
        Err(e) => ("serialize_error", e.to_string()),
        Ok(j) => {
            val = Some(j.clone());
            match serde_json::from_value::<T>(j) {
                Err(e) => ("deserialize_error", e.to_string()),
                Ok(back) if back != *v => ("different_value", short(&back)),
                Ok(_) => ("ok", String::new()),
            }
        }
    });
    if let (Some(a), Some(b)) = (&o_str, &o_val) {
        if a.0 != "ok" || b.0 != "ok" {
            let f = if a.0 == b.0 { a.0.to_string() } else { format!("from_str:{},from_value:{}", a.0, b.0) };
            c.fail(&format!("roundtrip.serde_json.{ty}"), &[&f], json!(short(v)), json!({"from_str": a.1, "from_value": b.1}), &|| String::new());
        }
    }
    let o_pc = c.guard("postcard", || match postcard::to_allocvec(v) {
        Err(e) => ("serialize_error", e.to_string()),
        Ok(bytes) => match postcard::from_bytes::<T>(&bytes) {
            Err(e) => ("deserialize_error", format!("{e}; bytes = {}", hx(&bytes))),
            Ok(back) if back != *v => ("different_value", format!("{}; bytes = {}", short(&back), hx(&bytes))),
            Ok(_) => ("ok", String::new()),
        },
    });
    if let Some(a) = o_pc {
        if a.0 != "ok" {
            c.fail(&format!("roundtrip.postcard.{ty}"), &[a.0], json!(short(v)), json!(a.1), &|| String::new());
        }
    }
    val
}

fn expect_hex_string(c: &mut Ctx, what: &str, j: Option<&Value>, bytes: &[u8]) {
    let want = hex::encode(bytes);
    let ok = j.and_then(|j| j.as_str()).map(|s| s.eq_ignore_ascii_case(&want)).unwrap_or(false);
    if !ok {
        c.fail("hex_form", &[what], json!(want), json!(j), &|| String::new());
    }
}

/// Display / LowerHex / UpperHex forms against the hex crate, and FromStr back.
fn text_forms<T: std::str::FromStr + PartialEq + std::fmt::Debug>(c: &mut Ctx, ty: &str, v: &T, bytes: &[u8], display: String, lower: String, upper: String) {
    if !display.eq_ignore_ascii_case(&hex::encode(bytes)) {
        c.fail("hex_form", &[&format!("{ty}:Display")], json!(hex::encode_upper(bytes)), json!(display), &|| String::new());
    }
    if lower != hex::encode(bytes) {
        c.fail("hex_form", &[&format!("{ty}:LowerHex")], json!(hex::encode(bytes)), json!(lower), &|| String::new());
    }
    if upper != hex::encode_upper(bytes) {
        c.fail("hex_form", &[&format!("{ty}:UpperHex")], json!(hex::encode_upper(bytes)), json!(upper), &|| String::new());
    }
    for (form, s) in [("Display", &display), ("LowerHex", &lower), ("UpperHex", &upper)] {
        if let Some(back) = c.guard("FromStr", || s.parse::<T>().ok()) {
            if back.as_ref() != Some(v) {
                c.fail(&format!("roundtrip.display_fromstr.{ty}"), &[form], json!(short(v)), json!({"text": s, "parsed": short(&back)}), &|| {
                    format!("#[test]\nfn replay() {{\n    {USES}\n    let v: {ty} = {s:?}.parse().unwrap();\n    assert!(v.to_string().eq_ignore_ascii_case({s:?}));\n}}\n")
                });
            }
        }
    }
}

fn sig_of(b: &[u8], id: u8) -> Sig {
    let mut a = [0u8; 64];
    let n = b.len().min(64);
    a[..n].copy_from_slice(&b[..n]);
    Sig(a, id)
}

fn rename_key(j: &mut Value, from: &str, to: &str) -> bool {
    match j.as_object_mut().and_then(|o| o.remove(from).map(|v| (o, v))) {
        Some((o, v)) => {
            o.insert(to.to_string(), v);
            true
        }
        None => false,
    }
}

fn legacy<T: DeserializeOwned + PartialEq + std::fmt::Debug>(c: &mut Ctx, what: &str, v: &T, j: Value) -> bool {
    let text = j.to_string();
    let r = c.guard("legacy names", || (serde_json::from_value::<T>(j).map_err(|e| e.to_string()), serde_json::from_str::<T>(&text).map_err(|e| e.to_string())));
    let Some((a, b)) = r else { return false };
    if a.as_ref() != Ok(v) || b.as_ref() != Ok(v) {
        c.fail("legacy_names", &[what], json!(short(v)), json!({"json": short(&text), "from_value": short(&a), "from_str": short(&b)}), &|| {
            if text.len() < 3000 {
                format!("#[test]\nfn replay() {{\n    {USES}\n    // the legacy field name must be accepted on input\n    serde_json::from_str::<{ty}>({text:?}).unwrap();\n}}\n", ty = std::any::type_name::<T>().rsplit("::").next().unwrap_or(""))
            } else {
                String::new()
            }
        });
        return false;
    }
    true
}

fn check_serde(c: &mut Ctx, t: &TVal) {
    let nt = Some(hash_of(c.case));
    let mut obs = 0u64;
    match t {
        TVal::ContentAddress(h) => {
            let v = ContentAddress(h.0);
            let j = serde_roundtrip(c, "ContentAddress", &v);
            expect_hex_string(c, "ContentAddress:json", j.as_ref(), &h.0);
            if let Some((d, l, u)) = c.guard("fmt", || (v.to_string(), format!("{v:x}"), format!("{v:X}"))) {
                obs = hash_of(&d);
                text_forms(c, "ContentAddress", &v, &h.0, d, l, u);
            }
        }
        TVal::PredicateAddress(a, b) => {
            let v = PredicateAddress { contract: ContentAddress(a.0), predicate: ContentAddress(b.0) };
            let j = serde_roundtrip(c, "PredicateAddress", &v);
            expect_hex_string(c, "PredicateAddress.contract:json", j.as_ref().map(|j| &j["contract"]), &a.0);
            expect_hex_string(c, "PredicateAddress.predicate:json", j.as_ref().map(|j| &j["predicate"]), &b.0);
            if let Some(d) = c.guard("fmt", || v.to_string()) {
                obs = hash_of(&d);
                // "<contract>:<predicate>", each half in the ContentAddress text form
                let halves: Option<(Option<ContentAddress>, Option<ContentAddress>)> = d.split_once(':').map(|(x, y)| (x.parse().ok(), y.parse().ok()));
                if halves != Some((Some(v.contract.clone()), Some(v.predicate.clone()))) {
                    c.fail("roundtrip.display_fromstr.PredicateAddress", &["Display"], json!(format!("{}:{}", hex::encode_upper(a.0), hex::encode_upper(b.0))), json!(d), &|| String::new());
                }
                let want = format!("{}:{}", hex::encode(a.0), hex::encode(b.0));
                if !d.eq_ignore_ascii_case(&want) {
                    c.fail("hex_form", &["PredicateAddress:Display"], json!(want), json!(d), &|| String::new());
                }
            }
        }
        TVal::Signature(b, id) => {
            let v = sig_of(b, *id);
            let mut all = v.0.to_vec();
            all.push(*id);
            let j = serde_roundtrip(c, "Signature", &v);
            expect_hex_string(c, "Signature:json", j.as_ref(), &all);
            if let Some((d, l, u)) = c.guard("fmt", || (v.to_string(), format!("{v:x}"), format!("{v:X}"))) {
                obs = hash_of(&d);
                text_forms(c, "Signature", &v, &all, d, l, u);
            }
            if let Some((arr, back)) = c.guard("Signature <-> [u8; 65]", || {
                let arr: [u8; 65] = v.clone().into();
                (arr, Sig::from(arr))
            }) {
                if back != v {
                    c.fail("roundtrip.arrays", &["Signature <-> [u8; 65]"], json!(hex::encode(&all)), json!({"array": hex::encode(arr), "back": short(&back)}), &|| String::new());
                }
            }
        }
        TVal::Predicate(ps) => {
            serde_roundtrip(c, "Predicate", &ps.build());
        }
        TVal::Program(b) => {
            let j = serde_roundtrip(c, "Program", &Program(b.clone()));
            expect_hex_string(c, "Program:json", j.as_ref(), b);
        }
        TVal::Mutation(k, v) => {
            serde_roundtrip(c, "Mutation", &Mutation { key: k.clone(), value: v.clone() });
        }
        TVal::Solution(ss) => {
            let v = ss.build();
            if let Some(mut j) = serde_roundtrip(c, "Solution", &v) {
                if rename_key(&mut j, "predicate_data", "decision_variables") {
                    legacy(c, "Solution:decision_variables", &v, j);
                } else {
                    c.fail("legacy_names", &["Solution:no field predicate_data in the JSON output"], json!("predicate_data"), j, &|| String::new());
                }
            }
        }
        TVal::SolutionSet(ss) => {
            let v = super::c17::build_set(ss);
            if let Some(j) = serde_roundtrip(c, "SolutionSet", &v) {
                let mut outer = j.clone();
                if rename_key(&mut outer, "solutions", "data") {
                    let mut ok = legacy(c, "SolutionSet:data", &v, outer.clone());
                    // both legacy names at once (the outer one alone is fine at this point, so a
                    // failure is the inner name's)
                    if let Some(arr) = outer["data"].as_array_mut() {
                        for s in arr {
                            ok &= rename_key(s, "predicate_data", "decision_variables");
                        }
                    }
                    if ok && !ss.is_empty() {
                        legacy(c, "Solution:decision_variables", &v, outer);
                    }
                } else {
                    c.fail("legacy_names", &["SolutionSet:no field solutions in the JSON output"], json!("solutions"), j, &|| String::new());
                }
            }
        }
        TVal::Contract(cs) => {
            let j = serde_roundtrip(c, "Contract", &cs.build());
            expect_hex_string(c, "Contract.salt:json", j.as_ref().map(|j| &j["salt"]), &cs.salt.0);
        }
        TVal::SignedContract(cs, b, id) => {
            serde_roundtrip(c, "SignedContract", &SignedContract { contract: cs.build(), signature: sig_of(b, *id) });
        }
    }
    c.rep.eval(nt, obs);
}

// ---------------------------------------------------------------------------------------------
// node_edges

/// The documented rule: leaf marker => empty; otherwise edges[start..end] with end = the next
/// node's edge_start if there is a next node and it is not a leaf, else edges.len(); None when
/// the node index is out of bounds or the range is inverted / out of bounds.
pub fn ref_node_edges(starts: &[u16], edges: &[u16], i: usize) -> Option<Vec<u16>> {
    let s = *starts.get(i)?;
    if s == 0xFFFF {
        return Some(vec![]);
    }
    let start = s as usize;
    let end = match i.checked_add(1).and_then(|j| starts.get(j)) {
        Some(&n) if n != 0xFFFF => n as usize,
        _ => edges.len(),
    };
    if start > end || end > edges.len() {
        return None;
    }
    Some(edges[start..end].to_vec())
}

fn check_node_edges(c: &mut Ctx, starts: &[u16], n_edges: usize) {
    let edges: Vec<u16> = (0..n_edges as u16).map(|i| 10 + i).collect();
    let ps = PSpec::Lit { nodes: starts.iter().enumerate().map(|(i, s)| (*s, H32([i as u8 + 1; 32]))).collect(), edges: edges.clone() };
    let p = ps.build();
    let mut idx: Vec<usize> = (0..=starts.len() + 1).collect();
    idx.push(usize::MAX);
    for i in idx {
        let want = ref_node_edges(starts, &edges, i);
        let got = c.guard("node_edges", || p.node_edges(i).map(|s| s.to_vec()));
        c.rep.eval(if i < starts.len() { Some(hash_of(&(starts, n_edges, i))) } else { None }, hash_of(&got));
        let Some(got) = got else { continue };
        if got != want {
            let f = match (&want, &got) {
                (Some(_), None) => "expected_some_got_none",
                (None, Some(_)) => "expected_none_got_some",
                _ => "different_slice",
            };
            let next_leaf = if i.checked_add(1).and_then(|j| starts.get(j)) == Some(&0xFFFF) { "next_is_leaf" } else { "next_not_leaf" };
            let pe = ps.expr();
            c.fail("node_edges", &[f, next_leaf], json!({"index": i, "edges": want}), json!({"index": i, "edges": got}), &|| {
                format!("#[test]\nfn replay() {{\n    {USES}\n    let p = {pe};\n    assert_eq!(p.node_edges({i}).map(|s| s.to_vec()), {});\n}}\n", match &want { Some(v) => format!("Some(vec!{v:?})"), None => "None".to_string() })
            });
        }
    }
}

// ---------------------------------------------------------------------------------------------

fn check(case: &Case, rep: &mut Report) {
    if let Ok(b) = serde_json::to_vec(case) {
        if b.len() < wal::CAP {
            wal::set(&b);
        } else {
            wal::tick();
        }
    }
    let mut c = Ctx { case, rep };
    match case {
        Case::Pred { p, all_truncations } => check_pred(&mut c, p, *all_truncations),
        Case::Muts(ms) => check_muts(&mut c, ms),
        Case::Words(ws) => check_words(&mut c, ws),
        Case::Slice { word, len } => check_slice(&mut c, *word, *len),
        Case::B32(b) => check_b32(&mut c, b.0),
        Case::B64(b) => check_b64(&mut c, b),
        Case::W4(w) => check_w4(&mut c, *w),
        Case::W8(w) => check_w8(&mut c, *w),
        Case::Serde(t) => check_serde(&mut c, t),
        Case::NodeEdges { starts, n_edges } => check_node_edges(&mut c, starts, *n_edges),
    }
}

fn byte_patterns(n: usize) -> Vec<Vec<u8>> {
    let mut out = vec![vec![0u8; n], vec![0xFF; n]];
    for k in [0u8, 1, 0x80, 0xF0] {
        out.push((0..n).map(|i| (i as u8).wrapping_add(k)).collect());
    }
    for bit in 0..n * 8 {
        let mut b = vec![0u8; n];
        b[bit / 8] = 1 << (bit % 8);
        out.push(b);
    }
    out
}

fn word_patterns<const N: usize>() -> Vec<[Word; N]> {
    let mut out = vec![[0; N], [-1; N], [Word::MIN; N], [Word::MAX; N]];
    for k in [Word::MIN, -2, 0, Word::MAX - N as Word] {
        let mut a = [0; N];
        for (i, x) in a.iter_mut().enumerate() {
            *x = k + i as Word;
        }
        out.push(a);
    }
    for bit in 0..N * 64 {
        let mut a = [0; N];
        a[bit / 64] = ((1u64) << (bit % 64)) as Word;
        out.push(a);
    }
    out
}

fn h32(v: &[u8]) -> H32 {
    let mut a = [0u8; 32];
    a.copy_from_slice(&v[..32]);
    H32(a)
}

fn mutation_alpha(words: &[Word]) -> Vec<MSpec> {
    let kv = lists(words, 2);
    let mut out = vec![];
    for k in &kv {
        for v in &kv {
            out.push((k.clone(), v.clone()));
        }
    }
    out
}

fn run(cfg: &RunCfg, rep: &mut Report) {
    let thorough = cfg.tier == Tier::Thorough;
    let mut ix = 0u64;
    // one top-level work item; returns whether it is this worker's
    macro_rules! mine {
        () => {{
            ix += 1;
            cfg.mine(ix)
        }};
    }
    let mut n_cases = 0u64;
    let mut go = |case: Case, rep: &mut Report| {
        n_cases += 1;
        if n_cases % 1013 == 7 {
            rep.sample(|| json!(case));
        }
        check(&case, rep);
    };

    // -- predicates
    let mut preds = small_predicates();
    preds.extend(sized_predicates(&[0, 1, 999, 1000]));
    for p in &preds {
        if mine!() {
            go(Case::Pred { p: p.clone(), all_truncations: thorough }, rep);
        }
    }
    // -- mutation lists
    let full = mutation_alpha(&W);
    let reduced = mutation_alpha(&[-1, 0, 2]);
    if mine!() {
        go(Case::Muts(vec![]), rep);
    }
    for m0 in &full {
        if !mine!() {
            continue;
        }
        go(Case::Muts(vec![m0.clone()]), rep);
        for m1 in if thorough { &full } else { &reduced } {
            go(Case::Muts(vec![m0.clone(), m1.clone()]), rep);
        }
    }
    for m0 in &reduced {
        if !mine!() {
            continue;
        }
        for m1 in &reduced {
            for m2 in if thorough { &reduced[..] } else { &reduced[..6] } {
                go(Case::Muts(vec![m0.clone(), m1.clone(), m2.clone()]), rep);
            }
        }
    }
    // -- words, bytes, hex
    let mut words: Vec<Word> = W.to_vec();
    words.extend((0..64).map(|b| (1u64 << b) as Word));
    words.sort();
    words.dedup();
    for ws in lists(&W, cfg.tier.pick(2, 3)) {
        if mine!() {
            go(Case::Words(ws), rep);
        }
    }
    for &w in &words {
        if mine!() {
            go(Case::Words(vec![w]), rep);
            go(Case::Words(vec![w, !w]), rep);
            for len in 0..=9 {
                go(Case::Slice { word: w, len }, rep);
            }
        }
    }
    // -- arrays
    let b32 = byte_patterns(32);
    let b64 = byte_patterns(64);
    for b in &b32 {
        if mine!() {
            go(Case::B32(h32(b)), rep);
        }
    }
    for b in &b64 {
        if mine!() {
            go(Case::B64(b.clone()), rep);
        }
    }
    for w in word_patterns::<4>() {
        if mine!() {
            go(Case::W4(w), rep);
        }
    }
    for w in word_patterns::<8>() {
        if mine!() {
            go(Case::W8(w), rep);
        }
    }
    // -- serde and text forms
    let mut tvals: Vec<TVal> = vec![];
    for b in &b32 {
        tvals.push(TVal::ContentAddress(h32(b)));
    }
    for a in b32.iter().take(8) {
        for b in b32.iter().take(8) {
            tvals.push(TVal::PredicateAddress(h32(a), h32(b)));
        }
    }
    for b in &b64 {
        tvals.push(TVal::Signature(b.clone(), 0));
    }
    for b in b64.iter().take(6) {
        for id in [1u8, 2, 3, 27, 0x80, 0xFF] {
            tvals.push(TVal::Signature(b.clone(), id));
        }
    }
    for p in small_predicates().into_iter().chain(sized_predicates(&[0, 1, 1000])) {
        tvals.push(TVal::Predicate(p));
    }
    for b in small_programs() {
        tvals.push(TVal::Program(b));
    }
    for b in 0..=255u8 {
        tvals.push(TVal::Program(vec![b]));
        tvals.push(TVal::Program(vec![b, !b, b]));
    }
    for (k, v) in &full {
        tvals.push(TVal::Mutation(k.clone(), v.clone()));
    }
    let mut sols = small_solutions();
    for (i, (k, v)) in full.iter().enumerate() {
        // word-alphabet solutions: every mutation of the alphabet once, data from its key/value
        sols.push(SSpec { contract: h32(&b32[2 + i % 4]), predicate: h32(&b32[3 + i % 3]), data: vec![v.clone(), k.clone()], muts: vec![(k.clone(), v.clone())] });
    }
    for s in &sols {
        tvals.push(TVal::Solution(s.clone()));
    }
    let k = cfg.tier.pick(8, 20);
    let mut spool = solution_pool(k - 2);
    spool.push(sols[sols.len() - 1].clone());
    spool.push(sols[sols.len() - 700].clone());
    for ms in multisets(spool.len(), cfg.tier.pick(2, 3)) {
        tvals.push(TVal::SolutionSet(ms.iter().map(|&i| spool[i].clone()).collect()));
    }
    let pool = contract_pool(k);
    let salts: Vec<H32> = vec![h32(&b32[0]), h32(&b32[1]), h32(&b32[2]), h32(&b32[40])];
    let mut contracts = vec![];
    for ms in multisets(pool.len(), cfg.tier.pick(2, 3)) {
        for (si, s) in salts.iter().enumerate() {
            if si < 2 || ms.len() <= 1 {
                contracts.push(CSpec { preds: ms.iter().map(|&i| pool[i].clone()).collect(), salt: *s });
            }
        }
    }
    for c in &contracts {
        tvals.push(TVal::Contract(c.clone()));
    }
    let sigs: Vec<(Vec<u8>, u8)> = vec![(b64[0].clone(), 0), (b64[1].clone(), 0xFF), (b64[2].clone(), 1), (b64[100].clone(), 27)];
    for (i, c) in contracts.iter().enumerate() {
        if i % cfg.tier.pick(3, 7) == 0 {
            let (b, id) = &sigs[(i / 3) % sigs.len()];
            tvals.push(TVal::SignedContract(c.clone(), b.clone(), *id));
        }
    }
    let n_serde = tvals.len();
    for t in tvals {
        if mine!() {
            go(Case::Serde(t), rep);
        }
    }
    // -- node_edges
    let mut n_ne = 0;
    for starts in lists(&[0u16, 1, 2, 3, 4, 0xFFFF], 3) {
        for n_edges in 0..=3 {
            n_ne += 1;
            if mine!() {
                go(Case::NodeEdges { starts: starts.clone(), n_edges }, rep);
            }
        }
    }
    rep.bound_completed = format!(
        "{} predicates (all truncations: {thorough}); mutation lists: {}; words: {} + lists; arrays: {}+{} byte patterns, {}+{} word patterns; {n_serde} serde/text values over 10 types; {n_ne} node_edges predicates x all indices",
        preds.len(),
        if thorough { "all <=2 over 1849 mutations + all of length 3 over 169" } else { "1849 singles + 1849x169 pairs + 169x169x6 triples" },
        words.len(),
        b32.len(),
        b64.len(),
        word_patterns::<4>().len(),
        word_patterns::<8>().len(),
    );
}

fn replay(case: &Value) -> Result<bool, String> {
    let c: Case = serde_json::from_value(case["case"].clone()).map_err(|e| e.to_string())?;
    let mut rep = Report::new();
    check(&c, &mut rep);
    Ok(!rep.violations.is_empty())
}
