//! C14 — mapped bytecode is equivalent to the parsed operation list.
use super::progx::{self, Px};
use crate::fw::*;
use crate::refvm::RVm;
use crate::util::*;
use crate::PropSpec;
use essential_asm::{self as asm, Op};
use essential_vm::{BytecodeMapped, GasLimit, Vm};
use serde_json::{json, Value};

pub fn spec() -> PropSpec {
    PropSpec {
        id: "C14",
        level: "model_checking",
        rule: "(1) construction: every byte string of length <= 2 over all 256 values, every string of <= 3 (thorough 4) symbols over {all opcode bytes, 0x00, 0x0F, 0xFF}, and every truncation of every encoded op sequence of length <= 2 with boundary immediates, through BytecodeMapped::try_from(Vec<u8>) and try_from(&[u8]) versus asm::from_bytes; (2) execution: the C09 and C10 hole-program sets (jumps, repeats, compute children re-indexing into the mapping) from the C10 parent states, each completed program executed as op list, as owned mapped bytecode and as borrowed mapped bytecode: final Vm (PartialEq), gas and error rendering must be identical. states = distinct programs/byte strings, transitions = differential executions. non-trivial = parse succeeded with >= 1 op / program executed >= 2 ops",
        assumptions: &["both sides are real code paths (differential oracle); error equality is by Debug rendering"],
        run,
        replay,
        describe_wal: Some(progx::wal_describe),
        run_wal: Some(progx::wal_run),
        both_profiles: false,
        workers: 0,
    }
}

fn check_bytes(bytes: &[u8], rep: &mut Report) {
    // accessors of the mapped form must not panic either (op(i) past the end, ops() on accepted input)
    if let Err((site, msg)) = catch(|| check_bytes_inner(bytes, &mut *rep)) {
        let sig = Signature::new("C14", "no_panic").site(format!("{site}: {msg}"));
        let key = sig.key();
        rep.violate(|| viol(sig, json!({"kind": "bytes", "bytes_hex": hex::encode(bytes)}), json!("mapped form agrees with the list, None past the end"), json!(format!("panic {site}: {msg}")), String::new()), Some(&key));
        rep.eval(None, 3);
    }
}

fn check_bytes_inner(bytes: &[u8], rep: &mut Report) {
    let list: Result<Vec<Op>, _> = asm::from_bytes(bytes.iter().copied()).collect();
    let owned = catch(|| BytecodeMapped::try_from(bytes.to_vec()));
    let borrowed = catch(|| BytecodeMapped::try_from(bytes));
    let mut fail = |clause: &str, detail: String, rep: &mut Report| {
        let sig = Signature::new("C14", clause);
        let key = sig.key();
        rep.violate(
            || viol(sig, json!({"kind": "bytes", "bytes_hex": hex::encode(bytes)}), json!(format!("{list:?}")), json!(detail), format!("#[test]\nfn replay() {{\n    let bytes = hex::decode(\"{}\").unwrap();\n    let list: Result<Vec<essential_vm::asm::Op>, _> = essential_vm::asm::from_bytes(bytes.iter().copied()).collect();\n    let mapped = essential_vm::BytecodeMapped::try_from(bytes.clone());\n    println!(\"{{list:?}} {{mapped:?}}\");\n}}\n", hex::encode(bytes))),
            Some(&key),
        );
    };
    let (owned, borrowed) = match (owned, borrowed) {
        (Ok(o), Ok(b)) => (o, b),
        (o, b) => {
            fail("no_panic", format!("owned panicked={:?} borrowed panicked={:?}", o.as_ref().err(), b.as_ref().err()), rep);
            rep.eval(None, 0);
            return;
        }
    };
    let nontrivial = matches!(&list, Ok(l) if !l.is_empty());
    match (&list, &owned, &borrowed) {
        (Ok(l), Ok(o), Ok(b)) => {
            let oo: Vec<Op> = o.ops().collect();
            let bo: Vec<Op> = b.ops().collect();
            if &oo != l || &bo != l {
                fail("mapped.ops", format!("owned {oo:?} borrowed {bo:?}"), rep);
            }
            for i in 0..=l.len() + 1 {
                if o.op(i) != l.get(i).cloned() || b.op(i) != l.get(i).cloned() {
                    fail("mapped.op_index", format!("index {i}: owned {:?} borrowed {:?} list {:?}", o.op(i), b.op(i), l.get(i)), rep);
                }
            }
            if o.bytecode() != bytes || b.bytecode() != bytes {
                fail("mapped.bytecode", "bytecode() differs from the input".into(), rep);
            }
            // building from operations reproduces the serialised bytes
            let from_iter: BytecodeMapped = l.iter().cloned().collect();
            let ser: Vec<u8> = asm::to_bytes(l.iter().cloned()).collect();
            if from_iter.bytecode() != ser.as_slice() || from_iter.ops().collect::<Vec<_>>() != *l {
                fail("mapped.from_iter", format!("{:?} vs {:?}", from_iter.bytecode(), ser), rep);
            }
            // incremental building: default() + push_op must give the very same mapping
            let mut pushed: BytecodeMapped = Default::default();
            for op in l.iter().cloned() {
                pushed.push_op(op);
            }
            if pushed != from_iter || pushed.ops().collect::<Vec<_>>() != *l || pushed.bytecode() != ser.as_slice() {
                fail("mapped.push_op", format!("default()+push_op gives ops {:?} / bytes {}", pushed.ops().collect::<Vec<_>>(), hex::encode(pushed.bytecode())), rep);
            }
            // collecting from an iterator that only knows a very loose upper bound on its length
            struct Loose<I>(I);
            impl<I: Iterator> Iterator for Loose<I> {
                type Item = I::Item;
                fn next(&mut self) -> Option<I::Item> {
                    self.0.next()
                }
                fn size_hint(&self) -> (usize, Option<usize>) {
                    (0, Some(usize::MAX))
                }
            }
            let loose: BytecodeMapped = Loose(l.iter().cloned()).collect();
            if loose != from_iter {
                fail("mapped.from_iter", "collecting from an iterator with a loose size_hint gives a different mapping".into(), rep);
            }
            if from_iter != *o && ser == bytes {
                fail("mapped.from_iter", "FromIterator result differs from try_from of the same bytes".into(), rep);
            }
        }
        (Err(e), Err(eo), Err(eb)) => {
            let (a, b, c) = (format!("{e:?}"), format!("{eo:?}"), format!("{eb:?}"));
            if a != b || a != c {
                fail("mapped.error_kind", format!("list {a} owned {b} borrowed {c}"), rep);
            }
        }
        _ => fail("mapped.success_iff_parse", format!("list ok={} owned ok={} borrowed ok={}", list.is_ok(), owned.is_ok(), borrowed.is_ok()), rep),
    }
    rep.transitions += 2;
    rep.traces_validated_against_impl += 2;
    rep.eval(if nontrivial { Some(hash_of(bytes)) } else { None }, hash_of(&format!("{list:?}")));
}

fn exec_diff(px: &Px, run: &progx::PxRun, rep: &mut Report) {
    let ops = run.completed();
    let bytes: Vec<u8> = asm::to_bytes(ops.iter().cloned()).collect();
    let cost = px.env.cost;
    let limit = GasLimit { per_yield: 4096, total: px.env.limit };
    let go = |which: u8| -> (String, Option<Vm>) {
        let mut vm = real_vm_from(px.init);
        let r = catch(|| match which {
            0 => vm.exec_ops(&ops, access_of(px.env), &px.env.state, &move |o: &Op| cost.of(o), limit).map_err(|e| format!("{e:?}")),
            1 => {
                let m = BytecodeMapped::try_from(bytes.clone()).expect("valid");
                vm.exec_bytecode(&m, access_of(px.env), &px.env.state, &move |o: &Op| cost.of(o), limit).map_err(|e| format!("{e:?}"))
            }
            _ => {
                let m = BytecodeMapped::try_from(&bytes[..]).expect("valid");
                vm.exec_bytecode(&m, access_of(px.env), &px.env.state, &move |o: &Op| cost.of(o), limit).map_err(|e| format!("{e:?}"))
            }
        });
        match r {
            Ok(Ok(g)) => (format!("Ok({g})"), Some(vm)),
            Ok(Err(e)) => (format!("Err({e})"), Some(vm)),
            Err((s, m)) => (format!("panic {s}: {m}"), None),
        }
    };
    let a = go(0);
    let b = go(1);
    let c = go(2);
    rep.transitions += 3;
    rep.traces_validated_against_impl += 3;
    if a != b || a != c {
        let which = if a != b { "owned" } else { "borrowed" };
        let sig = Signature::new("C14", "exec.equivalent").feat(which);
        let key = sig.key();
        rep.violate(
            || viol(sig, px.case_json(run), json!(format!("{:?}", a)), json!(format!("owned {:?} / borrowed {:?}", b, c)), String::new()),
            Some(&key),
        );
    }
}

fn symbols() -> Vec<u8> {
    let mut v: Vec<u8> = crate::refvm::all_ops().iter().map(|o| asm::to_bytes([o.clone()]).next().unwrap()).collect();
    v.extend([0x00, 0x0F, 0xFF]);
    v.sort();
    v.dedup();
    v
}

fn run(cfg: &RunCfg, rep: &mut Report) {
    // (1) construction
    let mut n = 0u64;
    if cfg.mine(0) {
        check_bytes(&[], rep);
    }
    for a in 0..=255u8 {
        n += 1;
        if !cfg.mine(n) {
            continue;
        }
        check_bytes(&[a], rep);
        for b in 0..=255u8 {
            check_bytes(&[a, b], rep);
        }
    }
    let sy = symbols();
    let slen = cfg.tier.pick(3, 4);
    for &a in &sy {
        n += 1;
        if !cfg.mine(n) {
            continue;
        }
        for &b in &sy {
            for &c in &sy {
                check_bytes(&[a, b, c], rep);
                if slen >= 4 {
                    for &d in &sy {
                        check_bytes(&[a, b, c, d], rep);
                    }
                }
            }
        }
    }
    // every truncation of encoded sequences with boundary immediates
    let mut alpha: Vec<Op> = crate::refvm::all_ops().into_iter().filter(|o| !matches!(o, Op::Stack(asm::Stack::Push(_)))).collect();
    for w in [0, 1, -1, MIN, MAX, 0x0102030405060708, 0x6201820191900160u64 as i64] {
        alpha.push(Op::Stack(asm::Stack::Push(w)));
    }
    for (i, a) in alpha.iter().enumerate() {
        n += 1;
        if !cfg.mine(n) {
            continue;
        }
        for b in &alpha {
            let bytes: Vec<u8> = asm::to_bytes([a.clone(), b.clone()]).collect();
            for cut in 0..=bytes.len() {
                check_bytes(&bytes[..cut], rep);
            }
        }
        rep.sample(|| json!({"bytes_hex": hex::encode(asm::to_bytes([a.clone(), alpha[(i * 5) % alpha.len()].clone()]).collect::<Vec<u8>>()), "every_truncation": true}));
    }
    // (2) execution
    let len = cfg.tier.pick(5, 7);
    let limit = cfg.tier.pick(40, 64);
    rep.bound_completed = format!("byte strings <= 2 (all values), symbol strings <= {slen}, truncations of op pairs; execution: C09 and C10 alphabets, program length <= {len}, 4 parent states");
    let a9 = super::c09::alphabet();
    let a10 = super::c10::alphabet();
    for (label, init) in super::c10::parent_states() {
        for (an, alpha) in [("c09", &a9), ("c10", &a10)] {
            if an == "c09" && label != "empty" && label != "open-loop" {
                continue;
            }
            let env = ProgEnv::basic(Cost::Const(1), limit);
            let px = Px { prop: "C14", alphabet: alpha, len, init: &init, env: &env, label: format!("{an}/{label}/len{len}"), mask_stray_compute_end: true };
            let mut tmp = Report::new();
            px.explore(cfg, &mut tmp, &mut |px, run, rep| exec_diff(px, run, rep));
            // C14 is purely differential: keep only its own verdicts
            tmp.violations.retain(|_, v| v.signature.clause.starts_with("exec.") || v.signature.clause.starts_with("mapped."));
            merge_with_sets(rep, tmp);
        }
    }
    rep.states = rep.nontrivial_evals; // every completed program is distinct by construction (dead-code equivalence)
}

fn replay(case: &Value) -> Result<bool, String> {
    let mut rep = Report::new();
    match case["kind"].as_str() {
        Some("bytes") => {
            let b = hex::decode(case["bytes_hex"].as_str().ok_or("bytes_hex")?).map_err(|e| e.to_string())?;
            check_bytes(&b, &mut rep);
        }
        Some("prog") => {
            let ops = ops_from_hex(case["ops_hex"].as_str().ok_or("ops_hex")?)?;
            let init: RvmSer = serde_json::from_value(case["init"].clone()).map_err(|e| e.to_string())?;
            let init = RVm::from(&init);
            let cost: Cost = serde_json::from_value(case["cost"].clone()).map_err(|e| e.to_string())?;
            let env = ProgEnv::basic(cost, case["limit"].as_u64().ok_or("limit")?);
            let h = Holey { ops: std::sync::Arc::new(ops.iter().cloned().map(Some).collect()) };
            let real = run_real_with(&init, h.clone(), &env, false);
            let rf = run_ref(&init, &h, &env);
            let px = Px { prop: "C14", alphabet: &[], len: ops.len(), init: &init, env: &env, label: "replay".into(), mask_stray_compute_end: true };
            let run = progx::PxRun { ops: ops.into_iter().map(Some).collect(), real, rf, real_execs: 1 };
            exec_diff(&px, &run, &mut rep);
        }
        _ => return Err("unknown case kind".into()),
    }
    Ok(!rep.violations.is_empty())
}
