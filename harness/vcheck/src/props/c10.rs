//! C10 — Compute forks and joins child programs like a sequential loop over indices.
use super::progx::{self, Px};
use crate::fw::*;
use crate::refvm::{RSlot, RVm};
use crate::sched;
use crate::util::*;
use crate::xplore::{self, Bounds};
use crate::PropSpec;
use essential_asm::{self as asm, Op};
use serde_json::{json, Value};
use std::sync::Arc;

pub fn spec() -> PropSpec {
    PropSpec {
        id: "C10",
        level: "model_checking",
        rule: "hole-program exploration through the real exec loop over {Push c (-1..3), Dup, Pop, Add, Eq, Alloc, Store, Load(parent), JumpIf, PanicIf, Halt, Repeat, RepeatEnd, RepeatCounter, Compute, ComputeEnd} from parent states {empty, small stack+memory, open repeat loop, two open loops (inner on its last round), full stack}, compared with the sequential-loop reference; directed cases (breadth 1000/5000, children allocating 10 vs 11 words, nested compute, children ending at different positions / by Halt / by end of program); then, for every completed program that forks >= 2 children, all completion orders of the children (mode A) and preemption-bounded op-granular interleavings (mode B, shuttle runtime + own DFS scheduler) must give the sequential observation. states = distinct completed programs x configurations, transitions = reference steps + schedules executed. non-trivial = the reference executed >= 2 ops; distinct by bytecode+configuration",
        assumptions: &[
            "the position reached by a child is its final pc; the parent resumes at max(own pc, children)",
            "a ComputeEnd met by a non-child VM is unspecified (masked); runs in which every child ends at or before the Compute are masked",
            "which failing child's inner error is carried is not compared (first error to arrive)",
        ],
        run,
        replay,
        describe_wal: Some(progx::wal_describe),
        run_wal: Some(progx::wal_run),
        both_profiles: false,
        workers: 0,
    }
}

pub fn alphabet() -> Vec<Op> {
    use asm::{Access as A, Alu, Compute as C, Memory as M, ParentMemory as PM, Pred, Stack as S, TotalControlFlow as T};
    let mut a: Vec<Op> = [-1, 0, 1, 2, 3].iter().map(|&c| Op::Stack(S::Push(c))).collect();
    a.extend([
        Op::Compute(C::Compute),
        Op::Compute(C::ComputeEnd),
        Op::Stack(S::Dup),
        Op::Stack(S::Pop),
        Op::Alu(Alu::Add),
        Op::Pred(Pred::Eq),
        Op::Memory(M::Alloc),
        Op::Memory(M::Store),
        Op::ParentMemory(PM::Load),
        Op::TotalControlFlow(T::JumpIf),
        Op::TotalControlFlow(T::PanicIf),
        Op::TotalControlFlow(T::Halt),
        Op::Stack(S::Repeat),
        Op::Stack(S::RepeatEnd),
        Op::Access(A::RepeatCounter),
    ]);
    a
}

pub fn parent_states() -> Vec<(String, RVm)> {
    let mut full = vec![0; 4095];
    full.push(2);
    vec![
        ("empty".into(), RVm::default()),
        ("small".into(), RVm { pc: 0, stack: vec![7, 2], memory: vec![5, 6], parent_memory: None, repeat: vec![] }),
        (
            "open-loop".into(),
            RVm { pc: 0, stack: vec![3], memory: vec![], parent_memory: None, repeat: vec![RSlot { counter: 1, up: Some(3), ret: 0, degenerate: false }] },
        ),
        (
            "two-open-loops".into(),
            RVm {
                pc: 0,
                stack: vec![2],
                memory: vec![],
                parent_memory: None,
                repeat: vec![
                    RSlot { counter: 1, up: Some(3), ret: 0, degenerate: false },
                    // inner loop on its last round: the next RepeatEnd pops it
                    RSlot { counter: 1, up: Some(2), ret: 0, degenerate: false },
                ],
            },
        ),
        ("full-stack".into(), RVm { pc: 0, stack: full, memory: vec![9], parent_memory: None, repeat: vec![] }),
    ]
}

/// Enumerate schedules of one completed program; every observation must equal the sequential one.
pub fn schedule_check(prop: &'static str, px: &Px, ops: &[Op], seq: &RealOut, tier: Tier, rep: &mut Report) {
    let h = Holey { ops: Arc::new(ops.iter().cloned().map(Some).collect()) };
    let want = sched_obs(seq);
    let mut report = |mode: &str, got: &RealOut, choices: Vec<u32>, rep: &mut Report| {
        let sig = Signature::new(prop, "schedule_independent").feat(format!("mode:{mode}"));
        let key = sig.key();
        rep.violate(
            || {
                let mut case = json!({
                    "kind": "sched", "mode": mode, "label": px.label, "ops": ops_json(ops), "ops_hex": ops_hex(ops),
                    "init": RvmSer::from(px.init), "cost": px.env.cost, "limit": px.env.limit, "schedule": choices,
                });
                case["note"] = json!("schedule = XPLORE choice vector over the shim's Pick / scheduler decisions");
                viol(sig, case, json!(format!("{want:?}")), json!(format!("{got:?}")), String::new())
            },
            Some(&key),
        );
    };
    // mode A: completion orders
    let b = Bounds { sched: tier.pick(2, 4), env: 0, max_runs: tier.pick(300, 5000) };
    let mut distinct_payloads = std::collections::HashSet::new();
    let st = xplore::explore(
        vec![],
        &b,
        |ctx| sched::run_atomic(ctx, || run_real_with(px.init, h.clone(), px.env, false)).0,
        |ctx, out| {
            rep.traces_validated_against_impl += 1;
            rep.transitions += 1;
            if let RealOut::Err { dbg, .. } = &out {
                distinct_payloads.insert(dbg.clone());
            }
            if sched_obs(&out) != want {
                report("A", &out, ctx.choices(), rep);
            }
        },
    );
    rep.add_extra("schedules_mode_a", st.runs);
    if distinct_payloads.len() > 1 {
        rep.add_extra("programs_with_schedule_dependent_inner_error_payload", 1);
    }
    if st.capped {
        rep.cap("mode A schedule cap per program");
    }
    // mode B: op-granular interleavings, preemption-bounded
    let b = Bounds { sched: tier.pick(1, 2), env: 0, max_runs: tier.pick(2000, 20000) };
    let init = px.init.clone();
    let env = px.env.clone();
    let h2 = h.clone();
    let st = sched::explore_threads(
        vec![],
        &b,
        move || run_real_with(&init, h2.clone(), &env, false),
        |choices, out| {
            rep.traces_validated_against_impl += 1;
            rep.transitions += 1;
            match out {
                Ok(out) => {
                    if sched_obs(&out) != want {
                        report("B", &out, choices.to_vec(), rep);
                    }
                }
                Err(msg) => {
                    let got = RealOut::Panic { site: "shuttle execution".into(), msg };
                    report("B", &got, choices.to_vec(), rep);
                }
            }
        },
    );
    rep.add_extra("schedules_mode_b", st.runs);
    if st.capped {
        rep.cap("mode B schedule cap per program");
    }
}

fn directed(cfg: &RunCfg, rep: &mut Report) {
    use asm::{Compute as C, Memory as M, ParentMemory as PM, Stack as S, TotalControlFlow as T};
    let push = |c| Op::Stack(S::Push(c));
    let mut cases: Vec<(String, Vec<Op>, RVm)> = vec![];
    for breadth in [1i64, 2, 3, 1000, 5000] {
        for alloc in [0i64, 1, 2, 10, 11] {
            cases.push((format!("breadth{breadth}-alloc{alloc}"), vec![push(breadth), Op::Compute(C::Compute), push(alloc), Op::Memory(M::Alloc), Op::Compute(C::ComputeEnd), push(1)], RVm::default()));
        }
    }
    // 1024 children x 10 words = exactly the limit; parent memory of 1 word pushes it over
    cases.push(("at-limit".into(), vec![push(1024), Op::Compute(C::Compute), push(10), Op::Memory(M::Alloc), Op::Compute(C::ComputeEnd)], RVm::default()));
    cases.push(("over-limit-by-parent".into(), vec![push(1024), Op::Compute(C::Compute), push(10), Op::Memory(M::Alloc), Op::Compute(C::ComputeEnd)], RVm { memory: vec![1], ..Default::default() }));
    // nested compute
    cases.push(("nested".into(), vec![push(2), Op::Compute(C::Compute), push(2), Op::Compute(C::Compute), Op::Compute(C::ComputeEnd), Op::Compute(C::ComputeEnd)], RVm::default()));
    // children ending at different positions: child i halts early iff i == 0
    cases.push((
        "different-ends".into(),
        vec![push(3), Op::Compute(C::Compute), Op::Stack(S::Dup), push(0), Op::Pred(asm::Pred::Eq), Op::TotalControlFlow(T::HaltIf), Op::Stack(S::Dup), Op::Memory(M::Alloc), Op::Compute(C::ComputeEnd), push(42)],
        RVm::default(),
    ));
    // child runs off the end of the program (no ComputeEnd)
    cases.push(("off-the-end".into(), vec![push(2), Op::Compute(C::Compute), push(1), Op::Memory(M::Alloc)], RVm::default()));
    // children read parent memory; child index dependent store
    cases.push((
        "parent-memory".into(),
        vec![push(3), Op::Compute(C::Compute), push(1), Op::Memory(M::Alloc), Op::Stack(S::Pop), Op::Stack(S::Dup), Op::ParentMemory(PM::Load), push(0), Op::Memory(M::Store), Op::Compute(C::ComputeEnd)],
        RVm { memory: vec![10, 20, 30], ..Default::default() },
    ));
    // children inherit an open repeat loop and use its counter
    cases.push((
        "repeat-inherited".into(),
        vec![push(2), push(1), Op::Stack(S::Repeat), push(2), Op::Compute(C::Compute), Op::Access(asm::Access::RepeatCounter), Op::Memory(M::Alloc), Op::Compute(C::ComputeEnd), Op::Stack(S::RepeatEnd)],
        RVm::default(),
    ));
    for (i, (label, ops, init)) in cases.into_iter().enumerate() {
        if !cfg.mine(i as u64) {
            continue;
        }
        let env = ProgEnv::basic(Cost::Const(1), 10_000_000);
        let h = Holey { ops: Arc::new(ops.iter().cloned().map(Some).collect()) };
        let real = run_real_with(&init, h.clone(), &env, false);
        let rf = run_ref(&init, &h, &env);
        let px = Px { prop: "C10", alphabet: &[], len: ops.len(), init: &init, env: &env, label: format!("directed:{label}"), mask_stray_compute_end: true };
        let breadth = rf.stats.max_breadth;
        let run = progx::PxRun { ops: ops.iter().cloned().map(Some).collect(), real: real.clone(), rf, real_execs: 1 };
        px.visit(&xplore::Ctx::new(vec![]), run, rep);
        if (2..=3).contains(&breadth) {
            schedule_check("C10", &px, &ops, &real, cfg.tier, rep);
        }
    }
}

fn run(cfg: &RunCfg, rep: &mut Report) {
    super::vmgraph::install_hook();
    let alpha = alphabet();
    let len = cfg.tier.pick(5, 6);
    let limit = cfg.tier.pick(40, 64);
    rep.bound_completed = format!("program length <= {len}, {} symbols, 5 parent states, gas limit {limit}; schedules: all completion orders for breadth <= 3 (deviation bound {} beyond), preemption bound {}", alpha.len(), cfg.tier.pick(2, 4), cfg.tier.pick(1, 2));
    for (label, init) in parent_states() {
        let env = ProgEnv::basic(Cost::Const(1), limit);
        let px = Px { prop: "C10", alphabet: &alpha, len, init: &init, env: &env, label: format!("{label}/len{len}"), mask_stray_compute_end: true };
        let tier = cfg.tier;
        let mut sched_programs = 0u64;
        px.explore(cfg, rep, &mut |px, run, rep| {
            // schedules only on completed programs that really fork >= 2 children
            let b = run.rf.stats.max_breadth;
            if run.rf.stats.computes > 0 && (2..=3).contains(&b) && !run.rf.stats.child_behind_parent && !run.rf.stats.stray_compute_end {
                // sample the schedule dimension deterministically: every k-th forking program
                sched_programs += 1;
                if sched_programs % tier.pick(16, 4) == 0 {
                    let ops = run.completed();
                    schedule_check("C10", px, &ops, &run.real, tier, rep);
                }
            }
        });
    }
    directed(cfg, rep);
    rep.states = rep.nontrivial_evals; // every completed program is distinct by construction (dead-code equivalence)
}

fn replay(case: &Value) -> Result<bool, String> {
    super::vmgraph::install_hook();
    match case["kind"].as_str() {
        Some("sched") => replay_sched(case, true),
        _ => progx::replay_prog("C10", case),
    }
}

pub fn replay_sched(case: &Value, free_small: bool) -> Result<bool, String> {
    match case["kind"].as_str() {
        Some("sched") => {
            let ops = ops_from_hex(case["ops_hex"].as_str().ok_or("ops_hex")?)?;
            let init: RvmSer = serde_json::from_value(case["init"].clone()).map_err(|e| e.to_string())?;
            let init = RVm::from(&init);
            let cost: Cost = serde_json::from_value(case["cost"].clone()).map_err(|e| e.to_string())?;
            let env = ProgEnv::named(case["env"].as_str().unwrap_or("basic"), cost, case["limit"].as_u64().ok_or("limit")?);
            let h = Holey { ops: Arc::new(ops.iter().cloned().map(Some).collect()) };
            let seq = run_real_with(&init, h.clone(), &env, false);
            let choices: Vec<u32> = serde_json::from_value(case["schedule"].clone()).map_err(|e| e.to_string())?;
            let mode = case["mode"].as_str().unwrap_or("A").to_string();
            let once = || -> Result<RealOut, String> {
                let ctx = xplore::Ctx::new(choices.clone());
                let out = if mode == "A" {
                    sched::run_atomic_opt(&ctx, free_small, || run_real_with(&init, h.clone(), &env, false)).0
                } else {
                    let (h2, i2, e2) = (h.clone(), init.clone(), env.clone());
                    match sched::run_threads(&ctx, move || run_real_with(&i2, h2.clone(), &e2, false)) {
                        Ok(o) => o,
                        Err(msg) => RealOut::Panic { site: "shuttle execution".into(), msg },
                    }
                };
                if ctx.diverged() {
                    return Err("replay divergence: recorded schedule does not fit this build".into());
                }
                Ok(out)
            };
            let a = once()?;
            let b = once()?;
            if sched_obs(&a) != sched_obs(&b) {
                return Err("nondeterministic replay".into());
            }
            Ok(sched_obs(&a) != sched_obs(&seq))
        }
        _ => progx::replay_prog("C10", case),
    }
}
