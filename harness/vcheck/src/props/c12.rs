//! C12 — access and crypto ops expose solution data and agree with the hash/sign crates.
use super::vmgraph::*;
use crate::fw::*;
use crate::refvm::{self, RVm, W};
use crate::util::*;
use crate::PropSpec;
use essential_asm::{self as asm, Op};
use essential_types::{solution::Solution, ContentAddress, PredicateAddress};
use serde_json::{json, Value};
use std::sync::atomic::AtomicU64;
use std::sync::Arc;

pub fn spec() -> PropSpec {
    PropSpec {
        id: "C12",
        level: "exploration",
        rule: "access ops: all solution sets of 1..3 solutions over predicate-data shapes {[],[[]],[[1]],[[1,2,3]],[[1],[2,3]]} x every index x operands (slot, offset, len) in {-1,0,1,2,3,4,MAX}^3; PredicateExists: every set x {hash of each solution's documented pre-image, one word perturbed, slots without length prefix, contract/predicate swapped}; Sha256: every byte length 0..=72 (thorough 0..=264) x 3 fill patterns plus bad lengths; VerifyEd25519: 3 keys x message lengths 0..=33 (thorough 0..=72) x {valid, every single-byte corruption of signature/key/message, wrong length word}, non-point key, small-order key with R=identity,s=0; RecoverSecp256k1: 3 keys x 3 digests x recovery ids {-1,0,1,2,3,4,2^31} x {valid, single-bit flips of the signature (quick: every 8th bit), five zero words, r=0, r>=n, s>=n, the high-S twin (r, n-s)}. Oracle: real sync::step_op vs the reference step (direct slicing, sha2, ed25519-dalek, essential-sign) on the complete stack; plus essential_hash::hash_bytes/hash_words agreement. non-trivial = the real op succeeded; distinct by (solutions, index, stack, op)",
        assumptions: &["keys, digests and messages come from small fixed pools: structural dimensions exhausted, 2^256 value spaces not"],
        run,
        replay,
        describe_wal: None,
        run_wal: None,
        both_profiles: false,
        workers: 0,
    }
}

fn sol(i: u8, data: Vec<Vec<W>>) -> Solution {
    Solution {
        predicate_to_solve: PredicateAddress { contract: ContentAddress([0xC0 + i; 32]), predicate: ContentAddress([0xA0 + i; 32]) },
        predicate_data: data,
        state_mutations: vec![],
    }
}

fn shapes() -> Vec<Vec<Vec<W>>> {
    vec![vec![], vec![vec![]], vec![vec![1]], vec![vec![1, 2, 3]], vec![vec![1], vec![2, 3]]]
}

fn graph(solutions: Vec<Solution>, index: usize) -> VmGraph {
    let mut env = ProgEnv::basic(Cost::Const(1), 1_000_000);
    env.solutions = Arc::new(solutions);
    env.index = index;
    VmGraph {
        prop: "C12",
        actions: vec![],
        inits: vec![("c12".into(), RVm::default(), 1)],
        env,
        env_label: "c12".into(),
        cont: continuation(),
        compare_ref: true,
        check_bounds: false,
        sink: Sink::new(),
        transitions: AtomicU64::new(0),
        err_transitions: AtomicU64::new(0),
    }
}

fn step(g: &VmGraph, stack: Vec<W>, op: &Op, rep: &mut Report) {
    let st = VState { depth: 0, init: 0, vm: RVm { pc: 0, stack, memory: vec![], parent_memory: None, repeat: vec![] } };
    let before = rep.violations.len();
    g.transition(&st, op, rep);
    if rep.violations.len() > before {
        // attach the solution set to freshly recorded violations
        for v in rep.violations.values_mut() {
            if v.case.get("solutions").is_none() {
                v.case["solutions"] = json!(&*g.env.solutions);
                v.case["index"] = json!(g.env.index);
            }
        }
    }
}

fn words_of(bytes: &[u8]) -> Vec<W> {
    bytes
        .chunks(8)
        .map(|c| {
            let mut b = [0u8; 8];
            b[..c.len()].copy_from_slice(c);
            W::from_be_bytes(b)
        })
        .collect()
}

fn access(cfg: &RunCfg, rep: &mut Report) {
    use asm::Access as A;
    let vals: [W; 7] = [-1, 0, 1, 2, 3, 4, MAX];
    let sh = shapes();
    let mut sets: Vec<Vec<Solution>> = vec![];
    for a in &sh {
        sets.push(vec![sol(0, a.clone())]);
        for b in &sh {
            sets.push(vec![sol(0, a.clone()), sol(1, b.clone())]);
            for c in &sh {
                sets.push(vec![sol(0, a.clone()), sol(1, b.clone()), sol(2, c.clone())]);
            }
        }
    }
    // a set with two identical solutions and one sharing only data
    sets.push(vec![sol(0, vec![vec![1]]), sol(0, vec![vec![1]]), sol(1, vec![vec![1]])]);
    for (si, set) in sets.iter().enumerate() {
        if !cfg.mine(si as u64) {
            continue;
        }
        for index in 0..set.len() {
            let g = graph(set.clone(), index);
            for &s in &vals {
                step(&g, vec![55, s], &Op::Access(A::PredicateDataLen), rep);
                for &o in &vals {
                    for &l in &vals {
                        step(&g, vec![55, s, o, l], &Op::Access(A::PredicateData), rep);
                    }
                }
            }
            step(&g, vec![55], &Op::Access(A::PredicateDataSlots), rep);
            step(&g, vec![55], &Op::Access(A::ThisAddress), rep);
            step(&g, vec![55], &Op::Access(A::ThisContractAddress), rep);
            step(&g, vec![], &Op::Access(A::PredicateData), rep);
            step(&g, vec![1, 1], &Op::Access(A::PredicateData), rep);
            // PredicateExists
            if index == 0 {
                let mut hashes: Vec<[u8; 32]> = vec![];
                for s in set.iter() {
                    let pre = refvm::predicate_exists_preimage(s);
                    hashes.push(essential_hash::hash_bytes(&pre));
                    // slots without the length prefix
                    let mut ws: Vec<W> = s.predicate_data.iter().flatten().copied().collect();
                    ws.extend(refvm::words4(s.predicate_to_solve.contract.0));
                    ws.extend(refvm::words4(s.predicate_to_solve.predicate.0));
                    hashes.push(essential_hash::hash_words(&ws));
                    // contract / predicate swapped
                    let mut ws: Vec<W> = vec![];
                    for slot in &s.predicate_data {
                        ws.push(slot.len() as W);
                        ws.extend(slot);
                    }
                    ws.extend(refvm::words4(s.predicate_to_solve.predicate.0));
                    ws.extend(refvm::words4(s.predicate_to_solve.contract.0));
                    hashes.push(essential_hash::hash_words(&ws));
                }
                for h in hashes {
                    let w = refvm::words4(h);
                    step(&g, vec![55, w[0], w[1], w[2], w[3]], &Op::Access(A::PredicateExists), rep);
                    for k in 0..4 {
                        let mut p = w;
                        p[k] ^= 1;
                        step(&g, vec![p[0], p[1], p[2], p[3]], &Op::Access(A::PredicateExists), rep);
                    }
                }
                step(&g, vec![1, 2, 3], &Op::Access(A::PredicateExists), rep);
            }
        }
        if si % 37 == 0 {
            rep.sample(|| json!({"access": {"solutions": set.iter().map(|s| &s.predicate_data).collect::<Vec<_>>(), "operands": "(slot,offset,len) in {-1,0,1,2,3,4,MAX}^3"}}));
        }
    }
}

fn sha(cfg: &RunCfg, rep: &mut Report) {
    let g = graph(vec![sol(0, vec![])], 0);
    let maxlen = cfg.tier.pick(264, 1100);
    for len in 0..=maxlen {
        if !cfg.mine(len as u64) {
            continue;
        }
        for pat in 0..3u8 {
            let bytes: Vec<u8> = (0..len).map(|i| match pat { 0 => 0, 1 => 0xFF, _ => (i * 37 + 11) as u8 }).collect();
            let mut stack = vec![77];
            stack.extend(words_of(&bytes));
            stack.push(len as W);
            step(&g, stack.clone(), &Op::Crypto(asm::Crypto::Sha256), rep);
            // direct agreement with the hash crate
            let mut vm = real_vm_from(&RVm { stack: stack.clone(), ..Default::default() });
            let ops = [Op::Crypto(asm::Crypto::Sha256)];
            let r = essential_vm::sync::step_op(access_of(&g.env), ops[0].clone(), &mut vm, &g.env.state, &ops[..], &|_: &Op| 1, essential_vm::GasLimit::UNLIMITED);
            let want = refvm::words4(essential_hash::hash_bytes(&bytes));
            let ok = r.is_ok() && vm.stack.len() == 5 && vm.stack[1..] == want;
            let ok2 = len % 8 != 0 || essential_hash::hash_words(&words_of(&bytes)) == essential_hash::hash_bytes(&bytes);
            if !ok || !ok2 {
                let sig = Signature::new("C12", "sha256.agrees_with_hash_crate");
                let key = sig.key();
                rep.violate(|| viol(sig, json!({"kind": "sha", "len": len, "pattern": pat}), json!(format!("{want:?}")), json!(format!("{:?} {:?}", r.is_ok(), vm.stack.to_vec())), String::new()), Some(&key));
            }
            // wrong lengths
            let mut s2 = stack.clone();
            *s2.last_mut().unwrap() = len as W + 8;
            step(&g, s2, &Op::Crypto(asm::Crypto::Sha256), rep);
        }
    }
    for l in [-1, MIN, MAX, 1 << 40] {
        step(&g, vec![1, 2, 3, l], &Op::Crypto(asm::Crypto::Sha256), rep);
    }
}

fn ed(cfg: &RunCfg, rep: &mut Report) {
    use ed25519_dalek::{Signer, SigningKey};
    let g = graph(vec![sol(0, vec![])], 0);
    let op = Op::Crypto(asm::Crypto::VerifyEd25519);
    let mut n = 0u64;
    for k in 0..3u8 {
        let sk = SigningKey::from_bytes(&[k.wrapping_mul(71).wrapping_add(3); 32]);
        let pk = sk.verifying_key().to_bytes();
        for len in 0..=(if cfg.tier == Tier::Thorough { 72usize } else { 33 }) {
            n += 1;
            if !cfg.mine(n) {
                continue;
            }
            let msg: Vec<u8> = (0..len).map(|i| (i * 7 + k as usize) as u8).collect();
            let sig = sk.sign(&msg).to_bytes();
            let mk = |msg: &[u8], lenw: W, sig: &[u8; 64], pk: &[u8; 32]| {
                let mut s = vec![9];
                s.extend(words_of(msg));
                s.push(lenw);
                s.extend(words_of(sig));
                s.extend(words_of(pk));
                s
            };
            step(&g, mk(&msg, len as W, &sig, &pk), &op, rep);
            for i in 0..64 {
                let mut s2 = sig;
                s2[i] ^= 0x40;
                step(&g, mk(&msg, len as W, &s2, &pk), &op, rep);
            }
            for i in 0..32 {
                let mut p2 = pk;
                p2[i] ^= 0x04;
                step(&g, mk(&msg, len as W, &sig, &p2), &op, rep);
            }
            for i in 0..len {
                let mut m2 = msg.clone();
                m2[i] ^= 1;
                step(&g, mk(&m2, len as W, &sig, &pk), &op, rep);
            }
            for lw in [len as W - 1, len as W + 1, -1, MAX] {
                step(&g, mk(&msg, lw, &sig, &pk), &op, rep);
            }
        }
    }
    if cfg.mine(0) {
        // structural edge cases
        let mk = |msg: &[u8], sig: &[u8; 64], pk: &[u8; 32]| {
            let mut s = words_of(msg);
            s.push(msg.len() as W);
            s.extend(words_of(sig));
            s.extend(words_of(pk));
            s
        };
        // a key that is not a curve point
        let mut bad = [0xFFu8; 32];
        bad[0] = 0xEE;
        step(&g, mk(b"abc", &[1; 64], &bad), &op, rep);
        step(&g, mk(b"abc", &[1; 64], &[2u8; 32]), &op, rep);
        // small-order identity key with R = identity, s = 0: accepted by verify, rejected by verify_strict
        let mut ident = [0u8; 32];
        ident[0] = 1;
        let mut sig = [0u8; 64];
        sig[0] = 1;
        step(&g, mk(b"", &sig, &ident), &op, rep);
        step(&g, mk(b"any message", &sig, &ident), &op, rep);
        rep.sample(|| json!({"ed25519": "small-order identity key, R=identity, s=0"}));
    }
}

/// n - s for the secp256k1 group order n (big-endian, 32 bytes; 0 < s < n).
fn order_minus(s: &[u8]) -> [u8; 32] {
    const N: [u8; 32] = [
        0xFF, 0xFF, 0xFF, 0xFF, 0xFF, 0xFF, 0xFF, 0xFF, 0xFF, 0xFF, 0xFF, 0xFF, 0xFF, 0xFF, 0xFF, 0xFE, 0xBA, 0xAE, 0xDC, 0xE6, 0xAF, 0x48, 0xA0, 0x3B, 0xBF, 0xD2, 0x5E, 0x8C, 0xD0, 0x36, 0x41, 0x41,
    ];
    let mut out = [0u8; 32];
    let mut borrow = 0i16;
    for i in (0..32).rev() {
        let d = N[i] as i16 - s[i] as i16 - borrow;
        borrow = if d < 0 { 1 } else { 0 };
        out[i] = (d + if d < 0 { 256 } else { 0 }) as u8;
    }
    out
}

fn secp(cfg: &RunCfg, rep: &mut Report) {
    use secp256k1::{Message, Secp256k1, SecretKey};
    let g = graph(vec![sol(0, vec![])], 0);
    let op = Op::Crypto(asm::Crypto::RecoverSecp256k1);
    let secp = Secp256k1::new();
    let stride = cfg.tier.pick(1, 1);
    let mut n = 0u64;
    for k in 1..=3u8 {
        let sk = SecretKey::from_slice(&[k.wrapping_mul(29); 32]).unwrap();
        for d in 0..3u8 {
            n += 1;
            if !cfg.mine(n) {
                continue;
            }
            let digest = [d.wrapping_mul(101).wrapping_add(5); 32];
            let rsig = secp.sign_ecdsa_recoverable(&Message::from_digest(digest), &sk);
            let (rid, sig) = rsig.serialize_compact();
            let rid: i32 = rid.into();
            let mk = |digest: &[u8; 32], sig: &[u8; 64], id: W| {
                let mut s = vec![4];
                s.extend(words_of(digest));
                s.extend(words_of(sig));
                s.push(id);
                s
            };
            for id in [-1, 0, 1, 2, 3, 4, 1 << 31, rid as W] {
                step(&g, mk(&digest, &sig, id), &op, rep);
                for bit in (0..512).step_by(stride) {
                    let mut s2 = sig;
                    s2[bit / 8] ^= 1 << (bit % 8);
                    step(&g, mk(&digest, &s2, id), &op, rep);
                }
                // r = 0, r >= n (group order starts FFFFFFFF FFFFFFFF ...), all zero
                let mut z = sig;
                z[..32].fill(0);
                step(&g, mk(&digest, &z, id), &op, rep);
                let mut big = sig;
                big[..32].fill(0xFF);
                step(&g, mk(&digest, &big, id), &op, rep);
                let mut sbig = sig;
                sbig[32..].fill(0xFF);
                step(&g, mk(&digest, &sbig, id), &op, rep);
                step(&g, mk(&digest, &[0u8; 64], id), &op, rep);
                // the malleated twin (r, n - s): a well-formed high-S signature; with the parity bit
                // of the recovery id flipped it recovers the signer's key, and every id is tried
                let mut twin = sig;
                twin[32..].copy_from_slice(&order_minus(&sig[32..]));
                step(&g, mk(&digest, &twin, id), &op, rep);
            }
            // too few operands
            step(&g, vec![1, 2, 3], &op, rep);
            rep.sample(|| json!({"secp256k1": {"key": k, "digest": d, "recovery_id": rid, "tamperings": 512 / stride}}));
        }
    }
}

fn run(cfg: &RunCfg, rep: &mut Report) {
    rep.bound_completed = format!("see rule; sha256 lengths 0..={}, secp256k1 bit stride {}", cfg.tier.pick(264, 1100), cfg.tier.pick(1, 1));
    access(cfg, rep);
    sha(cfg, rep);
    ed(cfg, rep);
    secp(cfg, rep);
}

fn replay(case: &Value) -> Result<bool, String> {
    if case["kind"] == "sha" {
        return Err("sha agreement cases are replayed by re-running the check".into());
    }
    let sols: Vec<Solution> = serde_json::from_value(case["solutions"].clone()).map_err(|e| e.to_string())?;
    let index = case["index"].as_u64().unwrap_or(0) as usize;
    super::c08::replay_step("C12", case, graph(sols, index))
}
