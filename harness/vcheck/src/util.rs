//! Adapters between the real VM and the reference model; mock states; program cases.

use crate::fw;
use crate::refvm::{self, RErr, RExecErr, RSlot, RVm, RefEnv, RefProg, W};
use essential_asm::Op;
use essential_types::{solution::Solution, ContentAddress, PredicateAddress};
use essential_vm::{
    error::{ExecError, OpError},
    Access, GasLimit, Memory, Repeat, Stack, StateRead, StateReads, Vm,
};
use serde::{Deserialize, Serialize};
use serde_json::{json, Value};
use std::collections::BTreeMap;
use std::sync::Arc;

pub const MIN: W = W::MIN;
pub const MAX: W = W::MAX;

/// Full boundary alphabet of words.
pub const WORDS_FULL: &[W] = &[
    MIN, MIN + 1, -2, -1, 0, 1, 2, 3, 4, 5, 8, 63, 64, 4095, 4096, 4097, 10239, 10240, 10241,
    MAX - 1, MAX,
];
/// Quick-tier subset.
pub const WORDS_QUICK: &[W] = &[MIN, -1, 0, 1, 2, 3, 64, 4096, MAX];

pub fn ca(b: u8) -> ContentAddress {
    ContentAddress([b; 32])
}

pub fn test_solution(pred_data: Vec<Vec<W>>) -> Solution {
    Solution {
        predicate_to_solve: PredicateAddress {
            contract: ca(0xC1),
            predicate: ca(0xA1),
        },
        predicate_data: pred_data,
        state_mutations: vec![],
    }
}

// ---------------------------------------------------------------------------------------------
// Mock state: total map with lexicographic key successor (the convention of the repo's tests).

pub const MOCK_RANGE_CAP: usize = 20_000;

pub type StateMap = BTreeMap<([u8; 32], Vec<W>), Vec<W>>;

pub fn next_key(mut k: Vec<W>) -> Option<Vec<W>> {
    for w in k.iter_mut().rev() {
        if *w == W::MAX {
            *w = W::MIN;
        } else {
            *w += 1;
            return Some(k);
        }
    }
    None
}

pub fn map_key_range(
    m: &StateMap,
    unknown_contract_errors: bool,
    contract: [u8; 32],
    key: &[W],
    n: usize,
) -> Result<Vec<Vec<W>>, String> {
    // (a read of zero keys asks nothing of the state, so it cannot fail either)
    if unknown_contract_errors && n > 0 && !m.keys().any(|(c, _)| *c == contract) {
        return Err(format!("unknown contract {:02x}", contract[0]));
    }
    let mut out = vec![];
    let mut k = Some(key.to_vec());
    // a state never holds more than this many consecutive keys (more than fits into VM memory)
    for _ in 0..n.min(MOCK_RANGE_CAP) {
        let Some(kk) = k else { break };
        out.push(m.get(&(contract, kk.clone())).cloned().unwrap_or_default());
        k = next_key(kk);
    }
    Ok(out)
}

#[derive(Clone, Debug, Default)]
pub struct MapState {
    pub map: Arc<StateMap>,
    pub strict: bool,
}

impl StateRead for MapState {
    type Error = String;
    fn key_range(
        &self,
        contract_addr: ContentAddress,
        key: Vec<W>,
        num_values: usize,
    ) -> Result<Vec<Vec<W>>, String> {
        map_key_range(&self.map, self.strict, contract_addr.0, &key, num_values)
    }
}

#[derive(Clone, Debug, Default)]
pub struct PrePost {
    pub pre: MapState,
    pub post: MapState,
}

impl StateReads for PrePost {
    type Error = String;
    type Pre = MapState;
    type Post = MapState;
    fn pre(&self) -> &MapState {
        &self.pre
    }
    fn post(&self) -> &MapState {
        &self.post
    }
}

pub fn small_state() -> PrePost {
    let mut pre = StateMap::new();
    pre.insert((ca(0xC1).0, vec![0]), vec![5]);
    pre.insert((ca(0xC1).0, vec![1]), vec![5, 6]);
    pre.insert((ca(0xC2).0, vec![0]), vec![9]);
    let mut post = pre.clone();
    post.insert((ca(0xC1).0, vec![0]), vec![7, 7, 7]);
    post.insert((ca(0xC1).0, vec![2]), vec![8]);
    PrePost {
        pre: MapState {
            map: Arc::new(pre),
            strict: false,
        },
        post: MapState {
            map: Arc::new(post),
            strict: false,
        },
    }
}

// ---------------------------------------------------------------------------------------------
// Gas cost functions

#[derive(Clone, Copy, Debug, PartialEq, Eq, Hash, Serialize, Deserialize)]
pub enum Cost {
    Const(u64),
    /// Push costs 0, everything else 1.
    PushFree,
    /// Compute costs 3, everything else 1.
    ComputeHeavy,
    /// Pop costs this much, everything else nothing (a Compute is reached with the whole budget left).
    PopHeavy(u64),
}

impl Cost {
    pub fn of(&self, op: &Op) -> u64 {
        match self {
            Cost::Const(c) => *c,
            Cost::PushFree => match op {
                Op::Stack(essential_asm::Stack::Push(_)) => 0,
                _ => 1,
            },
            Cost::PopHeavy(c) => match op {
                Op::Stack(essential_asm::Stack::Pop) => *c,
                _ => 0,
            },
            Cost::ComputeHeavy => {
                if refvm::is_compute(op) {
                    3
                } else {
                    1
                }
            }
        }
    }
}

// ---------------------------------------------------------------------------------------------
// Conversions between reference configurations and real VMs

pub fn real_vm_from(r: &RVm) -> Vm {
    let mut repeat = Repeat::new();
    for s in &r.repeat {
        match s.up {
            Some(limit) => {
                repeat.repeat_to(s.ret, limit).expect("repeat_to");
                for _ in 0..s.counter {
                    let _ = repeat.repeat();
                }
            }
            None => repeat.repeat_from(s.ret, s.counter).expect("repeat_from"),
        }
    }
    Vm {
        pc: r.pc,
        stack: Stack::try_from(r.stack.clone()).expect("stack within limit"),
        memory: Memory::try_from(r.memory.clone()).expect("memory within limit"),
        parent_memory: match &r.parent_memory {
            Some(m) => vec![Arc::new(Memory::try_from(m.clone()).expect("pmem"))],
            None => vec![],
        },
        halt: false,
        repeat,
        cache: Default::default(),
    }
}

/// Number of entries of the repeat stack, read structurally from its `Debug` rendering
/// (first bracketed list, top-level elements). `None` if the rendering has no list.
pub fn repeat_depth(r: &Repeat) -> Option<usize> {
    use std::fmt::Write;
    /// Counts the top-level elements of the first bracketed list without building a string.
    #[derive(Default)]
    struct Counter {
        started: bool,
        done: bool,
        depth: i32,
        elems: usize,
        nonempty: bool,
    }
    impl Write for Counter {
        fn write_str(&mut self, s: &str) -> std::fmt::Result {
            if self.done {
                return Ok(());
            }
            for ch in s.chars() {
                if !self.started {
                    if ch == '[' {
                        self.started = true;
                        self.depth = 1;
                    }
                    continue;
                }
                match ch {
                    '[' | '{' | '(' => {
                        self.depth += 1;
                        self.nonempty = true;
                    }
                    ']' | '}' | ')' => {
                        self.depth -= 1;
                        if self.depth == 0 {
                            self.done = true;
                            return Ok(());
                        }
                    }
                    ',' if self.depth == 1 => self.elems += 1,
                    c if !c.is_whitespace() && self.depth == 1 => self.nonempty = true,
                    _ => {}
                }
            }
            Ok(())
        }
    }
    let mut c = Counter::default();
    let _ = write!(c, "{r:?}");
    if !c.done {
        return None;
    }
    Some(if c.nonempty { c.elems + 1 } else { 0 })
}

/// What of a real VM configuration is compared with the reference.
#[derive(Clone, Debug, PartialEq, Eq, Hash, Serialize, Deserialize)]
pub struct Snap {
    pub pc: usize,
    pub stack: Vec<W>,
    pub memory: Vec<W>,
    pub parent_memory: Option<Vec<W>>,
    pub repeat_depth: Option<usize>,
    /// Top repeat counter; `None` if no loop is open or the counter is unspecified.
    pub repeat_top: Option<W>,
}

pub fn snap_real(vm: &Vm, mask_top: bool) -> Snap {
    Snap {
        pc: vm.pc,
        stack: vm.stack.to_vec(),
        memory: vm.memory.to_vec(),
        parent_memory: vm.parent_memory.last().map(|m| m.to_vec()),
        repeat_depth: repeat_depth(&vm.repeat),
        repeat_top: if mask_top { None } else { vm.repeat.counter().ok() },
    }
}

pub fn snap_ref(vm: &RVm, depth_observable: bool) -> (Snap, bool) {
    let degenerate = vm.repeat.last().map(|s| s.degenerate).unwrap_or(false);
    (
        Snap {
            pc: vm.pc,
            stack: vm.stack.clone(),
            memory: vm.memory.clone(),
            parent_memory: vm.parent_memory.clone(),
            repeat_depth: if depth_observable { Some(vm.repeat.len()) } else { None },
            repeat_top: if degenerate { None } else { vm.repeat.last().map(|s| s.counter) },
        },
        degenerate,
    )
}

// ---------------------------------------------------------------------------------------------
// Program cases: one program, one initial configuration, one environment.

#[derive(Clone, Debug)]
pub struct ProgEnv {
    pub solutions: Arc<Vec<Solution>>,
    pub index: usize,
    pub state: PrePost,
    pub cost: Cost,
    pub limit: u64,
}

impl ProgEnv {
    pub fn basic(cost: Cost, limit: u64) -> Self {
        ProgEnv {
            solutions: Arc::new(vec![test_solution(vec![vec![1, 2, 3], vec![]])]),
            index: 0,
            state: small_state(),
            cost,
            limit,
        }
    }
}

impl ProgEnv {
    /// Environments by name (recorded in replay files).
    pub fn named(kind: &str, cost: Cost, limit: u64) -> Self {
        let mut e = Self::basic(cost, limit);
        if kind == "two-solutions" {
            let mut s1 = test_solution(vec![vec![7], vec![8, 9]]);
            s1.predicate_to_solve.predicate = ca(0xA2);
            e.solutions = Arc::new(vec![test_solution(vec![vec![1, 2, 3], vec![]]), s1]);
        }
        e
    }
}

impl RefEnv for ProgEnv {
    fn solutions(&self) -> &[Solution] {
        &self.solutions
    }
    fn index(&self) -> usize {
        self.index
    }
    fn key_range(&self, post: bool, contract: [u8; 32], key: &[W], n: usize) -> Result<Vec<Vec<W>>, String> {
        let st = if post { &self.state.post } else { &self.state.pre };
        map_key_range(&st.map, st.strict, contract, key, n)
    }
    fn op_cost(&self, op: &Op) -> u64 {
        self.cost.of(op)
    }
    fn gas_limit(&self) -> u64 {
        self.limit
    }
}

#[derive(Clone, Debug, PartialEq, Eq, Hash)]
pub enum RealOut {
    Ok { gas: u64, snap: Snap },
    Err { index: usize, oog: bool, hole: Option<usize>, state_err: Option<String>, dbg: String },
    Panic { site: String, msg: String },
}

/// Dig the failing position / out-of-gas-ness / hole out of a (possibly nested) exec error.
pub fn classify_err<E: std::fmt::Debug>(e: &ExecError<E>) -> (usize, bool, Option<usize>, Option<String>) {
    fn inner<E: std::fmt::Debug>(e: &ExecError<E>) -> (bool, Option<usize>, Option<String>) {
        match &e.1 {
            OpError::OutOfGas(_) => (true, None, None),
            OpError::FromBytes(_) => (false, Some(e.0), None),
            OpError::StateRead(s) => (false, None, Some(format!("{s:?}"))),
            OpError::Compute(essential_vm::error::ComputeError::Exec(b)) => inner(b),
            _ => (false, None, None),
        }
    }
    let (oog, hole, st) = inner(e);
    (e.0, oog, hole, st)
}

/// A program with holes. Reaching a hole yields a decode error and records the position.
#[derive(Clone)]
pub struct Holey {
    pub ops: Arc<Vec<Option<Op>>>,
}

impl essential_vm::OpAccess for Holey {
    type Op = Op;
    type Error = essential_asm::FromBytesError;
    fn op_access(&self, index: usize) -> Option<Result<Op, Self::Error>> {
        match self.ops.get(index)? {
            Some(op) => Some(Ok(op.clone())),
            None => Some(Err(essential_asm::FromBytesError::InvalidOpcode(
                essential_asm::InvalidOpcodeError(0xEE),
            ))),
        }
    }
}

impl RefProg for Holey {
    fn at(&self, pc: usize) -> Option<Result<Op, ()>> {
        match self.ops.get(pc)? {
            Some(op) => Some(Ok(op.clone())),
            None => Some(Err(())),
        }
    }
}

pub fn access_of(env: &ProgEnv) -> Access {
    Access {
        solutions: env.solutions.clone(),
        index: env.index,
    }
}

pub fn run_real_with<OA>(init: &RVm, oa: OA, env: &ProgEnv, mask_top: bool) -> RealOut
where
    OA: essential_vm::OpAccess<Op = Op>,
    OA::Error: Into<OpError<String>>,
{
    let mut vm = real_vm_from(init);
    let cost = env.cost;
    let costf = move |op: &Op| cost.of(op);
    let limit = GasLimit {
        per_yield: GasLimit::DEFAULT_PER_YIELD,
        total: env.limit,
    };
    let r = fw::catch(|| vm.exec(access_of(env), &env.state, oa, &costf, limit));
    match r {
        Ok(Ok(gas)) => RealOut::Ok {
            gas,
            snap: snap_real(&vm, mask_top),
        },
        Ok(Err(e)) => {
            let (index, oog, hole, state_err) = classify_err(&e);
            RealOut::Err {
                index,
                oog,
                hole,
                state_err,
                dbg: format!("{e:?}").chars().take(300).collect(),
            }
        }
        Err((site, msg)) => RealOut::Panic { site, msg },
    }
}

pub struct RefOut {
    pub res: Result<RVm, RExecErr>,
    pub gas: u128,
    pub stats: refvm::RStats,
}

pub fn run_ref(init: &RVm, prog: &dyn RefProg, env: &ProgEnv) -> RefOut {
    let mut vm = init.clone();
    let mut ex = refvm::Exec::new(env, prog);
    let r = ex.run(&mut vm, init.parent_memory.is_some());
    RefOut {
        res: r.map(|_| vm),
        gas: ex.gas,
        stats: ex.stats,
    }
}

/// Compare a real outcome with the reference outcome. `None` = agree (or masked).
/// Returns (clause, detail).
pub fn compare(real: &RealOut, rf: &RefOut, at_compute: &dyn Fn(usize) -> bool, rep_masks: &mut dyn FnMut(&str)) -> Option<(String, String)> {
    match (&rf.res, real) {
        (_, RealOut::Panic { site, msg }) => Some(("no_panic".into(), format!("{site}: {msg}"))),
        (Err(e), _) if matches!(e.kind, RErr::Unspecified(_)) => {
            if let RErr::Unspecified(w) = &e.kind {
                rep_masks(w);
            }
            None
        }
        (Ok(rvm), RealOut::Ok { gas, snap }) => {
            let depth_obs = snap.repeat_depth.is_some();
            let (mut rs, degenerate) = snap_ref(rvm, depth_obs);
            let mut real_snap = snap.clone();
            if degenerate {
                rs.repeat_top = None;
                real_snap.repeat_top = None;
            }
            if rs != real_snap {
                return Some((
                    "final_state".into(),
                    format!("reference {rs:?} / real {real_snap:?}"),
                ));
            }
            if *gas as u128 != rf.gas {
                return Some(("gas.exact".into(), format!("reference {} / real {}", rf.gas, gas)));
            }
            None
        }
        (Err(e), RealOut::Err { index, oog, state_err, .. }) => {
            if e.index != *index {
                return Some((
                    "error_index".into(),
                    format!("reference fails at {} ({:?}) / real at {}", e.index, e.kind, index),
                ));
            }
            match (&e.kind, oog) {
                (RErr::OutOfGas, false) | (RErr::Fail, true) if at_compute(*index) => {
                    // children run concurrently with the remaining budget: which child's
                    // failure (out of gas / op error) surfaces is not specified
                    rep_masks("error class of a failing Compute");
                    None
                }
                (RErr::OutOfGas, false) => Some(("gas.oog_class".into(), "reference: out of gas / real: other error".into())),
                (RErr::Fail, true) => Some(("gas.oog_class".into(), "reference: op error / real: out of gas".into())),
                (RErr::State(s), _) => {
                    // a state error must come back unchanged
                    let want = format!("{s:?}");
                    if state_err.as_deref() != Some(want.as_str()) {
                        Some(("state_error_unchanged".into(), format!("want {want} got {state_err:?}")))
                    } else {
                        None
                    }
                }
                _ => None,
            }
        }
        (Ok(rvm), RealOut::Err { index, dbg, .. }) => Some((
            "spurious_error".into(),
            format!("reference Ok (pc {}) / real Err at {index}: {dbg}", rvm.pc),
        )),
        (Err(e), RealOut::Ok { gas, snap }) => Some((
            if e.kind == RErr::OutOfGas { "gas.limit_exceeded".into() } else { "missing_error".into() },
            format!("reference Err at {} ({:?}) / real Ok gas {gas} pc {}", e.index, e.kind, snap.pc),
        )),
    }
}

pub fn ops_json(ops: &[Op]) -> Value {
    json!(ops.iter().map(|o| format!("{o:?}")).collect::<Vec<_>>())
}

pub fn rvm_json(v: &RVm) -> Value {
    fn short(v: &[W]) -> Value {
        if v.len() <= 12 {
            json!(v)
        } else {
            json!({"len": v.len(), "head": v[..4], "tail": v[v.len()-4..]})
        }
    }
    json!({
        "pc": v.pc, "stack": short(&v.stack), "memory": short(&v.memory),
        "parent_memory": v.parent_memory.as_ref().map(|m| short(m)),
        "repeat": v.repeat.iter().map(|s| json!({"counter": s.counter, "up": s.up, "ret": s.ret})).collect::<Vec<_>>(),
    })
}

/// Serialise ops as the hex of their bytecode (lossless, replayable).
pub fn ops_hex(ops: &[Op]) -> String {
    hex::encode(essential_asm::to_bytes(ops.iter().cloned()).collect::<Vec<u8>>())
}
pub fn ops_from_hex(h: &str) -> Result<Vec<Op>, String> {
    let b = hex::decode(h).map_err(|e| e.to_string())?;
    essential_asm::from_bytes(b.into_iter())
        .collect::<Result<Vec<_>, _>>()
        .map_err(|e| e.to_string())
}

#[derive(Clone, Debug, Serialize, Deserialize)]
pub struct RvmSer {
    pub pc: usize,
    pub stack: Vec<W>,
    pub memory: Vec<W>,
    pub parent_memory: Option<Vec<W>>,
    pub repeat: Vec<(W, Option<W>, usize, bool)>,
}
impl From<&RVm> for RvmSer {
    fn from(v: &RVm) -> Self {
        RvmSer {
            pc: v.pc,
            stack: v.stack.clone(),
            memory: v.memory.clone(),
            parent_memory: v.parent_memory.clone(),
            repeat: v.repeat.iter().map(|s| (s.counter, s.up, s.ret, s.degenerate)).collect(),
        }
    }
}
impl From<&RvmSer> for RVm {
    fn from(v: &RvmSer) -> Self {
        RVm {
            pc: v.pc,
            stack: v.stack.clone(),
            memory: v.memory.clone(),
            parent_memory: v.parent_memory.clone(),
            repeat: v
                .repeat
                .iter()
                .map(|&(counter, up, ret, degenerate)| RSlot { counter, up, ret, degenerate })
                .collect(),
        }
    }
}

/// A `#[test]` reproducing a program case with public API only.
pub fn prog_test_snippet(ops: &[Op], init: &RVm, env: &ProgEnv, expect: &str) -> String {
    format!(
        "#[test]\nfn replay() {{\n    use essential_vm::{{*, asm::*}};\n    // ops (bytecode hex): {}\n    let ops: Vec<Op> = essential_vm::asm::from_bytes(hex::decode(\"{}\").unwrap().into_iter()).collect::<Result<_,_>>().unwrap();\n    let mut vm = Vm::default();\n    vm.pc = {};\n    vm.stack = Stack::try_from(vec!{:?}).unwrap();\n    vm.memory = Memory::try_from(vec!{:?}).unwrap();\n    // cost {:?}, total gas limit {}\n    let r = vm.exec_ops(&ops, /*access*/ todo!(\"one solution, see case\"), /*state*/ todo!(), &|_: &Op| 1, GasLimit {{ per_yield: 4096, total: {} }});\n    // expected by the reference: {}\n    println!(\"{{r:?}} {{vm:?}}\");\n}}\n",
        ops.iter().map(|o| format!("{o:?}")).collect::<Vec<_>>().join(", "),
        ops_hex(ops),
        init.pc,
        if init.stack.len() <= 64 { init.stack.clone() } else { vec![] },
        if init.memory.len() <= 64 { init.memory.clone() } else { vec![] },
        env.cost,
        env.limit,
        env.limit,
        expect
    )
}

/// Schedule-independent part of an outcome (what C10/C02 compare across schedules).
pub fn sched_obs(o: &RealOut) -> (u8, u64, Option<Snap>, usize) {
    match o {
        RealOut::Ok { gas, snap } => (0, *gas, Some(snap.clone()), 0),
        RealOut::Err { index, .. } => (1, 0, None, *index),
        RealOut::Panic { .. } => (2, 0, None, 0),
    }
}

