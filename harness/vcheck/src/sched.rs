//! Binding XPLORE to the rayon shim (mode A: completion orders) and to the shuttle runtime
//! (mode B: op-granular preemptive interleavings under our own bounded DFS scheduler).

use crate::xplore::{Class, Ctx};
use rayon::sched::{Mode, Oracle, Site};
use shuttle::scheduler::{Schedule, Scheduler, Task, TaskId};
use std::cell::RefCell;
use std::rc::Rc;

/// Oracle of the shim whose every decision is an XPLORE `Sched` choice.
pub struct XOracle {
    pub ctx: Ctx,
    pub mode: Mode,
    /// picks inside sections of <= 3 tasks cost nothing (they are always fully permuted)
    pub free_small: bool,
    sizes: RefCell<Vec<usize>>,
    pub max_section: RefCell<usize>,
    pub sections: RefCell<u64>,
}

impl XOracle {
    pub fn new(ctx: Ctx, mode: Mode) -> Self {
        XOracle {
            ctx,
            mode,
            free_small: true,
            sizes: RefCell::new(vec![]),
            max_section: RefCell::new(0),
            sections: RefCell::new(0),
        }
    }
}

impl Oracle for XOracle {
    fn mode(&self) -> Mode {
        self.mode
    }
    fn choose(&self, site: Site, n: usize) -> usize {
        let cost = match site {
            // sections with <= 3 tasks are always fully permuted
            Site::Pick => {
                if self.free_small && self.sizes.borrow().last().copied().unwrap_or(0) <= 3 {
                    0
                } else {
                    1
                }
            }
            _ => 1,
        };
        self.ctx.choose_cost(Class::Sched, n, cost)
    }
    fn section_begin(&self, n: usize) {
        self.sizes.borrow_mut().push(n);
        *self.sections.borrow_mut() += 1;
        let mut m = self.max_section.borrow_mut();
        if n > *m {
            *m = n;
        }
    }
    fn section_end(&self) {
        self.sizes.borrow_mut().pop();
    }
}

/// Mode A: run `f` with every parallel section's completion order decided by `ctx`.
pub fn run_atomic<R>(ctx: &Ctx, f: impl FnOnce() -> R) -> (R, usize) {
    run_atomic_opt(ctx, true, f)
}

/// Mode A with every pick costing one deviation (for inputs with nested sections).
pub fn run_atomic_opt<R>(ctx: &Ctx, free_small: bool, f: impl FnOnce() -> R) -> (R, usize) {
    let mut x = XOracle::new(ctx.clone(), Mode::Atomic);
    x.free_small = free_small;
    let o = Rc::new(x);
    let r = rayon::sched::with_oracle(o.clone(), f);
    let m = *o.max_section.borrow();
    (r, m)
}

/// Sequential reference run (index order).
pub fn run_sequential<R>(f: impl FnOnce() -> R) -> R {
    struct Seq;
    impl Oracle for Seq {
        fn mode(&self) -> Mode {
            Mode::Sequential
        }
        fn choose(&self, _: Site, _: usize) -> usize {
            0
        }
    }
    rayon::sched::with_oracle(Rc::new(Seq), f)
}

// ---------------------------------------------------------------------------------------------
// Mode B

thread_local! {
    static CUR: RefCell<Option<Ctx>> = const { RefCell::new(None) };
    /// Set while a mode-B execution is running: the on_step hook yields to the scheduler.
    pub static IN_SHUTTLE: std::cell::Cell<bool> = const { std::cell::Cell::new(false) };
    /// When set, EVERY departure from the default schedule (continue the running task, else the
    /// lowest id) costs one deviation in mode B, not only preemptions.
    pub static ALL_SWITCHES_COST: std::cell::Cell<bool> = const { std::cell::Cell::new(false) };
}

/// Shared DFS state of a mode-B exploration (outlives individual `Runner`s, so that a panicking
/// execution does not end the exploration).
struct Dfs {
    stack: Vec<Vec<u32>>,
    bounds: crate::xplore::Bounds,
    runs: u64,
    capped: bool,
    /// Execution in flight: its context and the length of its prefix.
    cur: Option<(Ctx, usize)>,
    /// Finished executions: choice vector, diverged?
    done: Vec<(Vec<u32>, bool)>,
}

impl Dfs {
    /// Close the execution in flight (if any): record it and push its children.
    fn close_current(&mut self) -> bool {
        let Some((ctx, from)) = self.cur.take() else {
            return false;
        };
        let pts = ctx.points();
        self.done.push((ctx.choices(), ctx.diverged()));
        let mut ch = crate::xplore::children(&pts, from, &self.bounds);
        ch.reverse();
        self.stack.extend(ch);
        true
    }
}

/// Exhaustive-DFS scheduler with preemption accounting: every decision is an XPLORE choice.
/// Canonical order of alternatives: the running task first if still runnable, then ascending
/// ids. Switching away from a runnable task costs 1 (a preemption); anything else is free.
/// One `Runner` drives many executions, so coroutine stacks are pooled.
struct XSched {
    dfs: Rc<RefCell<Dfs>>,
    /// Called when an execution is closed normally (to harvest its observation).
    on_close: Rc<dyn Fn()>,
}

impl Scheduler for XSched {
    fn new_execution(&mut self) -> Option<Schedule> {
        let mut d = self.dfs.borrow_mut();
        if d.close_current() {
            drop(d);
            (self.on_close)();
            d = self.dfs.borrow_mut();
        }
        if d.runs >= d.bounds.max_runs {
            if !d.stack.is_empty() {
                d.capped = true;
            }
            return None;
        }
        let prefix = d.stack.pop()?;
        d.runs += 1;
        let from = prefix.len();
        let ctx = Ctx::new(prefix);
        CUR.with(|c| *c.borrow_mut() = Some(ctx.clone()));
        d.cur = Some((ctx, from));
        Some(Schedule::new(0))
    }
    fn next_task(&mut self, runnable: &[&Task], current: Option<TaskId>, _is_yielding: bool) -> Option<TaskId> {
        let ctx = self.dfs.borrow().cur.as_ref().map(|c| c.0.clone()).expect("execution in flight");
        let mut order: Vec<TaskId> = vec![];
        let cur_runnable = current.map(|c| runnable.iter().any(|t| t.id() == c)).unwrap_or(false);
        if cur_runnable {
            order.push(current.unwrap());
        }
        for t in runnable {
            if !order.contains(&t.id()) {
                order.push(t.id());
            }
        }
        let cost = if cur_runnable || ALL_SWITCHES_COST.with(|a| a.get()) { 1 } else { 0 };
        let k = ctx.choose_cost(Class::Sched, order.len(), cost);
        Some(order[k])
    }
    fn next_u64(&mut self) -> u64 {
        0
    }
}

struct ThreadsOracle {
    ctx: Ctx,
}
impl Oracle for ThreadsOracle {
    fn mode(&self) -> Mode {
        Mode::Threads
    }
    fn choose(&self, _site: Site, n: usize) -> usize {
        self.ctx.choose_cost(Class::Sched, n, 1)
    }
}

pub struct ThreadsStats {
    pub runs: u64,
    pub capped: bool,
    pub divergences: u64,
}

/// Mode B: explore the schedules of `f` (root prefix `root`) inside shuttle executions.
/// Parallel sections become shuttle threads; the on_step hook yields after every VM op.
/// `visit` sees (choice vector, Ok(observation) | Err(panic message incl. deadlock)).
pub fn explore_threads<O: Send + 'static>(
    root: Vec<u32>,
    bounds: &crate::xplore::Bounds,
    f: impl Fn() -> O + Send + Sync + 'static,
    mut visit: impl FnMut(&[u32], Result<O, String>),
) -> ThreadsStats {
    let dfs = Rc::new(RefCell::new(Dfs { stack: vec![root], bounds: *bounds, runs: 0, capped: false, cur: None, done: vec![] }));
    let slot: std::sync::Arc<std::sync::Mutex<Option<O>>> = Default::default();
    let results: Rc<RefCell<Vec<Result<O, String>>>> = Default::default();
    let f = std::sync::Arc::new(f);
    let mut divergences = 0;
    loop {
        let mut cfg = shuttle::Config::new();
        cfg.stack_size = 1 << 19;
        cfg.max_steps = shuttle::MaxSteps::None;
        cfg.failure_persistence = shuttle::FailurePersistence::None;
        cfg.silence_warnings = true;
        let (slot_c, results_c) = (slot.clone(), results.clone());
        let on_close: Rc<dyn Fn()> = Rc::new(move || {
            let o = slot_c.lock().unwrap().take();
            results_c.borrow_mut().push(o.ok_or_else(|| "execution produced no result".to_string()));
        });
        let runner = shuttle::Runner::new(XSched { dfs: dfs.clone(), on_close }, cfg);
        let (f2, slot2) = (f.clone(), slot.clone());
        let r = crate::fw::catch(move || {
            runner.run(move || {
                let ctx = CUR.with(|c| c.borrow().clone()).expect("ctx");
                IN_SHUTTLE.with(|s| s.set(true));
                let o = rayon::sched::with_oracle(Rc::new(ThreadsOracle { ctx }), || f2());
                IN_SHUTTLE.with(|s| s.set(false));
                *slot2.lock().unwrap() = Some(o);
            })
        });
        IN_SHUTTLE.with(|s| s.set(false));
        rayon::sched::set_oracle(None);
        match r {
            Ok(_) => break,
            Err((site, msg)) => {
                // the execution in flight panicked (code under test, or shuttle: deadlock)
                let mut d = dfs.borrow_mut();
                if d.close_current() {
                    let _ = slot.lock().unwrap().take();
                    results.borrow_mut().push(Err(format!("{site}: {msg}")));
                } else {
                    drop(d);
                    // panic outside an execution: machinery
                    results.borrow_mut().push(Err(format!("machinery: {site}: {msg}")));
                    break;
                }
                if d.stack.is_empty() {
                    break;
                }
            }
        }
    }
    CUR.with(|c| *c.borrow_mut() = None);
    let d = dfs.borrow();
    let res = std::mem::take(&mut *results.borrow_mut());
    for ((choices, div), r) in d.done.iter().zip(res) {
        if *div {
            divergences += 1;
        }
        visit(choices, r);
    }
    ThreadsStats { runs: d.runs, capped: d.capped, divergences }
}

/// Mode B, one schedule: replay the choice vector `choices` exactly.
pub fn run_threads<O: Send + 'static>(ctx: &Ctx, f: impl Fn() -> O + Send + Sync + 'static) -> Result<O, String> {
    let b = crate::xplore::Bounds { sched: u32::MAX, env: u32::MAX, max_runs: 1 };
    let mut out = None;
    let prefix = ctx.0.borrow().prefix_clone();
    let st = explore_threads(prefix, &b, f, |_, r| out = Some(r));
    if st.divergences > 0 {
        ctx.0.borrow_mut().diverged = true;
    }
    out.unwrap_or_else(|| Err("no execution".into()))
}

/// Called from the on_step hook.
#[inline]
pub fn maybe_yield() {
    if IN_SHUTTLE.with(|s| s.get()) {
        shuttle::thread::yield_now();
    }
}
