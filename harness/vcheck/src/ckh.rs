//! Checker harness: cases (predicate encodings + node roles + solution sets + pre-state),
//! node-program builders with the *echo read* observation channel, recording states, and
//! drivers for the real entry points.

use crate::refvm::W;
use essential_asm::{self as asm, Op};
use essential_check::solution::{
    self as sol, CheckPredicateConfig, DataOutput, PredicateError, PredicatesError, RunMode,
};
use essential_types::{
    predicate::{Node, Predicate, Program},
    solution::{Mutation, Solution, SolutionSet},
    ContentAddress, PredicateAddress,
};
use essential_vm::StateRead;
use serde::{Deserialize, Serialize};
use std::collections::{BTreeMap, HashMap};
use std::sync::{Arc, Mutex};

// ---------------------------------------------------------------------------------------------
// Cases

#[derive(Clone, Debug, PartialEq, Eq, Hash, Serialize, Deserialize)]
pub enum Role {
    /// non-leaf: append own tag to stack and memory, echo
    Tracer,
    /// Tracer plus a post-state read with count 0 (makes the node deferred)
    TracerPost,
    /// program error
    Fails,
    /// leaf: whole input (memory ++ stack) becomes the value of a computed mutation keyed
    /// [tag]; ends with [2] (data output)
    LeafDump,
    /// leaf: like LeafDump but contains a post-state read (deferred data output)
    LeafDumpPost,
    /// leaf ending with exactly [1]
    LeafTrue,
    /// leaf ending with exactly [1] that contains a post-state read
    LeafTruePost,
    /// leaf ending with [0]
    LeafFalse0,
    /// leaf ending with the empty stack
    LeafEmpty,
    /// leaf ending with [1, 1]
    LeafOneOne,
    /// leaf whose memory is exactly these words, stack [2] (arbitrary data output)
    LeafRaw(Vec<W>),
    /// reads `count` keys from `key` with op (0 KeyRange, 1 KeyRangeExtern, 2 PostKeyRange,
    /// 3 PostKeyRangeExtern) from contract byte `ext`, echoes what it got; non-leaf variant
    /// appends tag like Tracer, leaf variant ends with [1]
    Probe { op: u8, ext: u8, key: Vec<W>, count: W },
    /// a Tracer whose Push immediate contains the PostKeyRange opcode byte (must NOT defer)
    TracerFakePost,
    /// leaf: true iff a post read of `key` (own contract) returns exactly `want`
    LeafPostEquals { key: Vec<W>, want: Vec<W> },
    /// non-leaf that forks `n` compute children, each appending its index to memory
    TracerCompute(u8),
    /// leaf: true iff a post read of `key` (own contract) INTO MEMORY ADDRESS 1 returns exactly
    /// `want`; the address operand `Push(1)` sits directly in front of the read op
    LeafPostEqualsAt1 { key: Vec<W>, want: Vec<W> },
    /// the program is exactly these bytes (possibly not well-formed bytecode); totality checks only
    RawBytes(Vec<u8>),
    /// the inner role built with this tag instead of the node's own: nodes given the same
    /// role and tag share one program (same content address)
    Tagged(Box<Role>, W),
}

#[derive(Clone, Debug, PartialEq, Eq, Hash, Serialize, Deserialize)]
pub struct PredCase {
    /// (edge_start, role) per node
    pub nodes: Vec<(u16, Role)>,
    pub edges: Vec<u16>,
}

#[derive(Clone, Debug, PartialEq, Eq, Hash, Serialize, Deserialize)]
pub struct SolCase {
    pub pred: usize,
    pub contract: u8,
    pub data: Vec<Vec<W>>,
    pub mutations: Vec<(Vec<W>, Vec<W>)>,
}

#[derive(Clone, Debug, PartialEq, Eq, Hash, Serialize, Deserialize)]
pub struct CkCase {
    pub preds: Vec<PredCase>,
    pub sols: Vec<SolCase>,
    /// (contract byte, key, value)
    pub pre: Vec<(u8, Vec<W>, Vec<W>)>,
    /// unknown contract => error
    pub strict: bool,
    /// the state answers a read of an unknown contract with NO values (a short answer) instead
    /// of `n` empty ones
    #[serde(default)]
    pub short: bool,
    pub collect_all: bool,
}

pub fn contract_addr(b: u8) -> ContentAddress {
    ContentAddress([b; 32])
}

pub fn tag_of(pred: usize, node: usize) -> W {
    (pred as W) * 32 + node as W + 1
}

// ---------------------------------------------------------------------------------------------
// Node programs

fn push(w: W) -> Op {
    Op::Stack(asm::Stack::Push(w))
}

/// First word of every echo key: tells echoes apart from the fallback reads the post-state
/// overlay issues against the pre-state (those carry a program's own key).
pub const ECHO_MAGIC: W = 0x4543_484F_0000_0001;

/// Echo: pre-state KeyRange with key = [MAGIC, tag, extra words on the stack...], count 0, addr 0.
/// The `n_extra + 2` words currently on top of the stack become the key.
fn echo_with(tag_first: bool, n_extra: usize) -> Vec<Op> {
    let _ = tag_first;
    vec![push(n_extra as W + 2), push(0), push(0), Op::StateRead(asm::StateRead::KeyRange)]
}

/// [.., ] -> pushes (tag, stack_len, mem_len) and echoes them.
fn echo_summary(tag: W) -> Vec<Op> {
    use asm::{Memory as M, Stack as S};
    let mut v = vec![push(ECHO_MAGIC), push(tag), push(0), Op::Stack(S::Reserve), push(0), Op::Memory(M::Alloc)];
    // stack: [.., MAGIC, tag, slen, mlen]  (slen counts MAGIC and tag: len before Reserve's own push)
    v.extend(echo_with(true, 2));
    v
}

fn append_tag(tag: W) -> Vec<Op> {
    use asm::{Memory as M, Stack as S};
    vec![
        push(1),
        Op::Memory(M::Alloc), // -> old len L
        push(tag),
        Op::Stack(S::Swap), // [.., tag, L]
        Op::Memory(M::Store),
        push(tag),
    ]
}

/// Move the whole input into memory as one computed mutation `[1, 1, tag, T, trace..]`.
fn dump_as_mutation(tag: W) -> Vec<Op> {
    use asm::{Alu, Memory as M, Stack as S};
    vec![
        // n = |stack|
        push(0),
        Op::Stack(S::Reserve),
        // append the stack to memory: [in.., n] -> Dup, Alloc -> [in.., n, m]; StoreRange
        Op::Stack(S::Dup),
        Op::Memory(M::Alloc),
        Op::Memory(M::StoreRange),
        // T = |memory|; load everything onto the stack
        push(0),
        push(0),
        Op::Memory(M::Alloc), // [0, T]
        Op::Memory(M::LoadRange), // [trace..]
        push(0),
        Op::Memory(M::Free),
        // allocate T + 4 and store the trace at 4
        push(0),
        Op::Stack(S::Reserve), // [trace.., T]
        Op::Stack(S::Dup),
        push(4),
        Op::Alu(Alu::Add),
        Op::Memory(M::Alloc),
        Op::Stack(S::Pop), // [trace.., T]
        push(4),
        Op::Memory(M::StoreRange), // []
        // header
        push(1),
        push(0),
        Op::Memory(M::Store),
        push(1),
        push(1),
        Op::Memory(M::Store),
        push(tag),
        push(2),
        Op::Memory(M::Store),
        push(0),
        Op::Memory(M::Alloc),
        push(4),
        Op::Alu(Alu::Sub),
        push(3),
        Op::Memory(M::Store),
    ]
}

fn drop_all() -> Vec<Op> {
    vec![push(0), Op::Stack(asm::Stack::Reserve), Op::Stack(asm::Stack::Drop)]
}

fn post_read_count0(tag: W) -> Vec<Op> {
    vec![push(tag), push(1), push(0), push(0), Op::StateRead(asm::StateRead::PostKeyRange)]
}

const PROBE_MEM: W = 24;

/// Perform the probe read into fresh memory [base..base+PROBE_MEM) and echo that window.
fn probe(tag: W, op: u8, ext: u8, key: &[W], count: W) -> Vec<Op> {
    use asm::{Memory as M, StateRead as SR};
    let mut v = vec![push(PROBE_MEM), Op::Memory(M::Alloc)]; // [.., base]
    // stash base at the bottom of our working area: keep it on the stack
    if op == 1 || op == 3 {
        v.extend(crate::refvm::words4([ext; 32]).iter().map(|&w| push(w)));
    }
    v.extend(key.iter().map(|&w| push(w)));
    v.push(push(key.len() as W));
    v.push(push(count));
    // address = base: fetch it with DupFrom
    let depth = key.len() as W + 2 + if op == 1 || op == 3 { 4 } else { 0 };
    v.push(push(depth));
    v.push(Op::Stack(asm::Stack::DupFrom));
    v.push(Op::StateRead(match op {
        0 => SR::KeyRange,
        1 => SR::KeyRangeExtern,
        2 => SR::PostKeyRange,
        _ => SR::PostKeyRangeExtern,
    }));
    // [.., base] -> echo key = [MAGIC, tag, window..]
    v.push(push(ECHO_MAGIC));
    v.push(Op::Stack(asm::Stack::Swap)); // [.., MAGIC, base]
    v.push(push(tag));
    v.push(Op::Stack(asm::Stack::Swap)); // [.., MAGIC, tag, base]
    v.push(push(PROBE_MEM));
    v.push(Op::Memory(M::LoadRange)); // [.., tag, w0..w23]
    v.extend(echo_with(true, PROBE_MEM as usize));
    v
}

pub fn program_for(role: &Role, tag: W, leaf: bool) -> Vec<Op> {
    use asm::{Pred, TotalControlFlow as T};
    if let Role::Tagged(inner, t) = role {
        return program_for(inner, *t, leaf);
    }
    let mut v = vec![];
    match role {
        Role::Tracer => {
            v.extend(append_tag(tag));
            v.extend(echo_summary(tag));
        }
        Role::TracerFakePost => {
            v.extend(append_tag(tag));
            // a constant whose bytes contain 0x82 / 0x83 (post-read opcodes)
            v.push(push(0x0082_8300_0000_8283u64 as W));
            v.push(Op::Stack(asm::Stack::Pop));
            v.extend(echo_summary(tag));
        }
        Role::TracerPost => {
            v.extend(append_tag(tag));
            v.extend(post_read_count0(tag));
            v.extend(echo_summary(tag));
        }
        Role::TracerCompute(n) => {
            use asm::{Compute as C, Memory as M};
            v.extend(append_tag(tag));
            // children: alloc 1, store index at 0
            v.extend([
                push(*n as W),
                Op::Compute(C::Compute),
                push(1),
                Op::Memory(M::Alloc), // [.., i, 0]
                Op::Memory(M::Store),
                Op::Compute(C::ComputeEnd),
            ]);
            v.extend(echo_summary(tag));
        }
        Role::Fails => {
            v.extend([push(1), Op::TotalControlFlow(T::PanicIf)]);
        }
        Role::LeafDump => {
            v.extend(dump_as_mutation(tag));
            v.extend(echo_summary(tag));
            v.push(push(2));
        }
        Role::LeafDumpPost => {
            v.extend(dump_as_mutation(tag));
            v.extend(post_read_count0(tag));
            v.extend(echo_summary(tag));
            v.push(push(2));
        }
        Role::LeafTrue | Role::LeafTruePost | Role::LeafFalse0 | Role::LeafEmpty | Role::LeafOneOne => {
            v.extend(echo_summary(tag));
            v.extend(drop_all());
            if *role == Role::LeafTruePost {
                v.extend(post_read_count0(tag));
            }
            match role {
                Role::LeafTrue | Role::LeafTruePost => v.push(push(1)),
                Role::LeafFalse0 => v.push(push(0)),
                Role::LeafEmpty => {}
                _ => v.extend([push(1), push(1)]),
            }
        }
        Role::LeafRaw(words) => {
            use asm::Memory as M;
            v.extend(drop_all());
            v.extend([push(0), Op::Memory(M::Free)]);
            v.extend([push(words.len() as W), Op::Memory(M::Alloc), Op::Stack(asm::Stack::Pop)]);
            for (i, w) in words.iter().enumerate() {
                v.extend([push(*w), push(i as W), Op::Memory(M::Store)]);
            }
            v.push(push(2));
        }
        Role::Probe { op, ext, key, count } => {
            if leaf {
                v.extend(drop_all());
                v.extend(probe(tag, *op, *ext, key, *count));
                v.extend(drop_all());
                v.push(push(1));
            } else {
                v.extend(append_tag(tag));
                v.extend(probe(tag, *op, *ext, key, *count));
            }
        }
        Role::Tagged(..) => unreachable!(),
        // handled by `build` (bytes are used verbatim); as ops: what parses, else a failing program
        Role::RawBytes(b) => match asm::from_bytes(b.iter().copied()).collect::<Result<Vec<_>, _>>() {
            Ok(ops) => v.extend(ops),
            Err(_) => v.extend([push(1), Op::TotalControlFlow(T::PanicIf)]),
        },
        Role::LeafPostEqualsAt1 { key, want } => {
            use asm::{Memory as M, StateRead as SR};
            v.extend(drop_all());
            v.extend([push(0), Op::Memory(M::Free), push(3 + want.len() as W), Op::Memory(M::Alloc), Op::Stack(asm::Stack::Pop)]);
            v.extend(key.iter().map(|&w| push(w)));
            v.extend([push(key.len() as W), push(1), push(1), Op::StateRead(SR::PostKeyRange)]);
            // memory [1..3+len) must be [3, len, want..]
            v.extend([push(1), push(2 + want.len() as W), Op::Memory(M::LoadRange)]);
            v.push(push(3));
            v.push(push(want.len() as W));
            v.extend(want.iter().map(|&w| push(w)));
            v.extend([push(2 + want.len() as W), Op::Pred(Pred::EqRange)]);
        }
        Role::LeafPostEquals { key, want } => {
            use asm::{Memory as M, StateRead as SR};
            v.extend(drop_all());
            v.extend([push(0), Op::Memory(M::Free), push(2 + want.len() as W), Op::Memory(M::Alloc), Op::Stack(asm::Stack::Pop)]);
            v.extend(key.iter().map(|&w| push(w)));
            v.extend([push(key.len() as W), push(1), push(0), Op::StateRead(SR::PostKeyRange)]);
            // compare memory [0..2+len) with [2, len, want..]
            v.extend([push(0), push(2 + want.len() as W), Op::Memory(M::LoadRange)]);
            v.push(push(2));
            v.push(push(want.len() as W));
            v.extend(want.iter().map(|&w| push(w)));
            v.extend([push(2 + want.len() as W), Op::Pred(Pred::EqRange)]);
        }
    }
    v
}

// ---------------------------------------------------------------------------------------------
// Materialisation

pub struct Built {
    pub preds: Vec<Arc<Predicate>>,
    /// per predicate, per node: ops
    pub node_ops: Vec<Vec<Vec<Op>>>,
    pub programs: HashMap<ContentAddress, Arc<Program>>,
    pub set: SolutionSet,
    pub get_pred: HashMap<PredicateAddress, Arc<Predicate>>,
    pub pre: crate::util::StateMap,
}

/// Slicing rule of the node/edge encoding, re-implemented from the documentation.
/// None = malformed (the accessor would give None).
pub fn edges_of(nodes: &[u16], edges: &[u16], i: usize) -> Option<Vec<u16>> {
    let s = *nodes.get(i)?;
    if s == u16::MAX {
        return Some(vec![]);
    }
    let e = match nodes.get(i + 1) {
        Some(&n) if n != u16::MAX => n as usize,
        _ => edges.len(),
    };
    let s = s as usize;
    if s > e || e > edges.len() {
        return None;
    }
    Some(edges[s..e].to_vec())
}

pub fn build(case: &CkCase) -> Built {
    let mut programs = HashMap::new();
    let mut preds = vec![];
    let mut node_ops = vec![];
    for (pi, p) in case.preds.iter().enumerate() {
        let starts: Vec<u16> = p.nodes.iter().map(|n| n.0).collect();
        let mut nodes = vec![];
        let mut ops_of = vec![];
        for (ni, (edge_start, role)) in p.nodes.iter().enumerate() {
            let leaf = edges_of(&starts, &p.edges, ni).map(|e| e.is_empty()).unwrap_or(true);
            let ops = program_for(role, tag_of(pi, ni), leaf);
            let prog = match role {
                Role::RawBytes(b) => Program(b.clone()),
                _ => Program(asm::to_bytes(ops.iter().cloned()).collect()),
            };
            let addr = essential_hash::content_addr(&prog);
            programs.insert(addr.clone(), Arc::new(prog));
            nodes.push(Node { edge_start: *edge_start, program_address: addr });
            ops_of.push(ops);
        }
        preds.push(Arc::new(Predicate { nodes, edges: p.edges.clone() }));
        node_ops.push(ops_of);
    }
    let mut get_pred = HashMap::new();
    let mut solutions = vec![];
    for s in &case.sols {
        let pa = PredicateAddress { contract: contract_addr(s.contract), predicate: essential_hash::content_addr(&*preds[s.pred]) };
        get_pred.insert(pa.clone(), preds[s.pred].clone());
        solutions.push(Solution {
            predicate_to_solve: pa,
            predicate_data: s.data.clone(),
            state_mutations: s.mutations.iter().map(|(k, v)| Mutation { key: k.clone(), value: v.clone() }).collect(),
        });
    }
    let mut pre = crate::util::StateMap::new();
    for (c, k, v) in &case.pre {
        pre.insert(([*c; 32], k.clone()), v.clone());
    }
    Built { preds, node_ops, programs, set: SolutionSet { solutions }, get_pred, pre }
}

// ---------------------------------------------------------------------------------------------
// Recording pre-state

/// (contract byte 0, key, count)
pub type Rec = (u8, Vec<W>, usize);

#[derive(Clone)]
pub struct RecState {
    pub map: Arc<crate::util::StateMap>,
    pub strict: bool,
    pub short: bool,
    pub log: Arc<Mutex<Vec<Rec>>>,
}

impl StateRead for RecState {
    type Error = String;
    fn key_range(&self, c: ContentAddress, key: Vec<W>, n: usize) -> Result<Vec<Vec<W>>, String> {
        self.log.lock().unwrap().push((c.0[0], key.clone(), n));
        if self.short && !self.map.keys().any(|(k, _)| *k == c.0) {
            return Ok(vec![]);
        }
        crate::util::map_key_range(&self.map, self.strict, c.0, &key, n)
    }
}

/// Harness-built post state for the "two modes by hand" call pattern: overlay over the
/// recording pre-state (same semantics as the reference overlay).
#[derive(Clone)]
pub struct OverlayState {
    pub pre: RecState,
    pub overlay: Arc<BTreeMap<([u8; 32], Vec<W>), Vec<W>>>,
}

impl StateRead for OverlayState {
    type Error = String;
    fn key_range(&self, c: ContentAddress, key: Vec<W>, n: usize) -> Result<Vec<Vec<W>>, String> {
        overlay_read(&self.overlay, &|c, k, n| self.pre.key_range(ContentAddress(c), k.to_vec(), n), c.0, &key, n)
    }
}

/// Reference post-state read: for each key of the successor sequence the proposed value if
/// one is proposed (empty = deletion), else the pre-state value.
pub fn overlay_read(
    overlay: &BTreeMap<([u8; 32], Vec<W>), Vec<W>>,
    pre: &dyn Fn([u8; 32], &[W], usize) -> Result<Vec<Vec<W>>, String>,
    contract: [u8; 32],
    key: &[W],
    n: usize,
) -> Result<Vec<Vec<W>>, String> {
    let mut out = vec![];
    let mut k = Some(key.to_vec());
    for _ in 0..n.min(crate::util::MOCK_RANGE_CAP) {
        let Some(kk) = k else { break };
        match overlay.get(&(contract, kk.clone())) {
            Some(v) => out.push(v.clone()),
            None => out.push(pre(contract, &kk, 1)?.pop().unwrap_or_default()),
        }
        k = crate::util::next_key(kk);
    }
    Ok(out)
}

// ---------------------------------------------------------------------------------------------
// Observations of the real checker

#[derive(Clone, Debug, PartialEq, Eq, Hash, Serialize, Deserialize)]
pub enum SolFail {
    InvalidGraph,
    ProgramErrors(Vec<usize>),
    Unsatisfied(Vec<usize>),
    Mutations,
}

#[derive(Clone, Debug, PartialEq, Eq, Hash, Serialize, Deserialize)]
pub enum CkOut {
    Ok {
        gas: u64,
        /// per solution: final mutations (declared ++ computed), in order
        mutations: Vec<Vec<(Vec<W>, Vec<W>)>>,
    },
    Failed(Vec<(u16, SolFail)>),
    OtherErr(String),
    Panic { site: String, msg: String },
}

pub fn classify<E: std::fmt::Debug + std::fmt::Display>(e: &PredicatesError<E>) -> CkOut {
    match e {
        PredicatesError::Failed(errs) => CkOut::Failed(
            errs.0
                .iter()
                .map(|(ix, pe)| {
                    (
                        *ix,
                        match pe {
                            PredicateError::InvalidNodeEdges(_) => SolFail::InvalidGraph,
                            PredicateError::ProgramErrors(_) => SolFail::ProgramErrors(program_error_nodes(&format!("{pe}"))),
                            PredicateError::ConstraintsUnsatisfied(u) => SolFail::Unsatisfied(u.0.clone()),
                            PredicateError::Mutations(_) => SolFail::Mutations,
                        },
                    )
                })
                .collect(),
        ),
        other => CkOut::OtherErr(format!("{other:?}").chars().take(120).collect()),
    }
}

/// The failing node indices of a `ProgramErrors` (its field is private): parsed from the
/// Display rendering "  <node_ix>: ..." lines.
fn program_error_nodes(display: &str) -> Vec<usize> {
    let mut v = vec![];
    for line in display.lines() {
        if let Some(rest) = line.strip_prefix("  ") {
            if !rest.starts_with(' ') {
                if let Some((n, _)) = rest.split_once(':') {
                    if let Ok(i) = n.trim().parse::<usize>() {
                        v.push(i);
                    }
                }
            }
        }
    }
    v
}

pub struct RealRun {
    pub out: CkOut,
    pub log: Vec<Rec>,
}

/// The two-pass entry point.
pub fn run_two_pass(case: &CkCase, b: &Built) -> RealRun {
    let log = Arc::new(Mutex::new(vec![]));
    let state = RecState { map: Arc::new(b.pre.clone()), strict: case.strict, short: case.short, log: log.clone() };
    let cfg = Arc::new(CheckPredicateConfig { collect_all_failures: case.collect_all });
    let r = crate::fw::catch(|| {
        sol::check_and_compute_solution_set_two_pass(&state, b.set.clone(), b.get_pred.clone(), b.programs.clone(), cfg)
    });
    let out = match r {
        Err((site, msg)) => CkOut::Panic { site, msg },
        Ok(Err(e)) => classify(&e),
        Ok(Ok((gas, set))) => CkOut::Ok {
            gas,
            mutations: set.solutions.iter().map(|s| s.state_mutations.iter().map(|m| (m.key.clone(), m.value.clone())).collect()).collect(),
        },
    };
    let log = log.lock().unwrap().clone();
    RealRun { out, log }
}

pub struct ModesRun {
    pub pass1: Result<(u64, Vec<(u16, Vec<Vec<W>>)>), CkOut>,
    pub pass2: Option<Result<(u64, Vec<(u16, Vec<Vec<W>>)>), CkOut>>,
    pub log1: Vec<Rec>,
    pub log2: Vec<Rec>,
}

fn outputs_of(o: sol::Outputs) -> (u64, Vec<(u16, Vec<Vec<W>>)>) {
    (
        o.gas,
        o.data
            .into_iter()
            .map(|d| (d.solution_index, d.data.into_iter().map(|DataOutput::Memory(m)| m.to_vec()).collect()))
            .collect(),
    )
}

/// `check_set_predicates` in mode Outputs then Checks over one shared cache; the post state
/// for the second call is built by the harness from `overlay`.
pub fn run_modes(
    case: &CkCase,
    b: &Built,
    overlay_for_pass2: &dyn Fn(&[(u16, Vec<Vec<W>>)]) -> BTreeMap<([u8; 32], Vec<W>), Vec<W>>,
) -> ModesRun {
    let cfg = Arc::new(CheckPredicateConfig { collect_all_failures: case.collect_all });
    let mut cache = HashMap::new();
    let log = Arc::new(Mutex::new(vec![]));
    let pre = RecState { map: Arc::new(b.pre.clone()), strict: case.strict, short: case.short, log: log.clone() };
    let empty = OverlayState { pre: pre.clone(), overlay: Arc::new(BTreeMap::new()) };
    let set = Arc::new(b.set.clone());
    // This entry point gets closure providers that hand out a FRESH `Arc` per request (a
    // store-backed provider); the two-pass entry point gets the maps of long-lived `Arc`s.
    // Nothing may depend on the identity or lifetime of what a provider returns.
    let (progs, preds) = (Arc::new(b.programs.clone()), Arc::new(b.get_pred.clone()));
    let fresh_prog = move |ca: &ContentAddress| -> Arc<Program> { Arc::new(Program(progs[ca].0.clone())) };
    let fresh_pred = move |pa: &PredicateAddress| -> Arc<Predicate> { Arc::new((*preds[pa]).clone()) };
    let r1 = crate::fw::catch(|| {
        sol::check_set_predicates(&(pre.clone(), empty.clone()), set.clone(), fresh_pred.clone(), fresh_prog.clone(), cfg.clone(), RunMode::Outputs, &mut cache)
    });
    let log1 = std::mem::take(&mut *log.lock().unwrap());
    let pass1 = match r1 {
        Err((site, msg)) => Err(CkOut::Panic { site, msg }),
        Ok(Err(e)) => Err(classify(&e)),
        Ok(Ok(o)) => Ok(outputs_of(o)),
    };
    let mut pass2 = None;
    if let Ok((_, data)) = &pass1 {
        let post = OverlayState { pre: pre.clone(), overlay: Arc::new(overlay_for_pass2(data)) };
        let r2 = crate::fw::catch(|| {
            sol::check_set_predicates(&(pre.clone(), post), set.clone(), fresh_pred.clone(), fresh_prog.clone(), cfg.clone(), RunMode::Checks, &mut cache)
        });
        pass2 = Some(match r2 {
            Err((site, msg)) => Err(CkOut::Panic { site, msg }),
            Ok(Err(e)) => Err(classify(&e)),
            Ok(Ok(o)) => Ok(outputs_of(o)),
        });
    }
    let log2 = std::mem::take(&mut *log.lock().unwrap());
    ModesRun { pass1, pass2, log1, log2 }
}

/// Full observation of a checker input (everything the statement lists).
pub fn ck_obs(case: &CkCase, b: &Built) -> String {
    let r = run_two_pass(case, b);
    // post state for the by-hand second call: the declared mutations (fixed, schedule-independent)
    let m = run_modes(case, b, &|_| {
        let mut o = std::collections::BTreeMap::new();
        for s in &case.sols {
            for (k, v) in &s.mutations {
                o.insert(([s.contract; 32], k.clone()), v.clone());
            }
        }
        o
    });
    // what the node programs saw (echo records: tags, input sizes, windows of what reads returned),
    // as a sorted multiset: the order of the log is schedule-dependent by nature, its content is not
    let mut echoes: Vec<&Rec> = r.log.iter().filter(|x| x.2 == 0 && x.1.first() == Some(&ECHO_MAGIC)).collect();
    echoes.sort();
    let ok = matches!(r.out, CkOut::Ok { .. });
    format!("{:?} | {:?} | {:?} | {:?}", r.out, m.pass1, m.pass2, if ok { echoes } else { vec![] })
}

