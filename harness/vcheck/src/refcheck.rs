//! Reference semantics of the predicate-graph check (DESIGN Appendix A), evaluated on the
//! abstract multigraph with the reference VM. Produces the expected verdict, gas, computed
//! mutations and the expected echo log of every pass.

use crate::ckh::*;
use crate::refvm::{self, RVm, RefEnv, W};
use essential_asm::Op;
use essential_types::solution::Solution;
use std::cell::RefCell;
use std::collections::{BTreeMap, BTreeSet};

pub type Overlay = BTreeMap<([u8; 32], Vec<W>), Vec<W>>;

#[derive(Clone, Debug)]
pub struct Graph {
    pub n: usize,
    /// edges_of(i) incl. dangling targets; None anywhere = malformed
    pub edges: Vec<Option<Vec<u16>>>,
}

impl Graph {
    pub fn of(p: &PredCase) -> Graph {
        let starts: Vec<u16> = p.nodes.iter().map(|n| n.0).collect();
        Graph { n: starts.len(), edges: (0..starts.len()).map(|i| edges_of(&starts, &p.edges, i)).collect() }
    }
    pub fn malformed(&self) -> bool {
        self.edges.iter().any(|e| e.is_none())
    }
    pub fn children(&self, i: usize) -> Vec<usize> {
        self.edges[i].as_ref().map(|e| e.iter().map(|&c| c as usize).filter(|&c| c < self.n).collect()).unwrap_or_default()
    }
    pub fn leaf(&self, i: usize) -> bool {
        self.edges[i].as_ref().map(|e| e.is_empty()).unwrap_or(true)
    }
    /// parents(j): ascending, once per occurrence
    pub fn parents(&self, j: usize) -> Vec<usize> {
        let mut v = vec![];
        for i in 0..self.n {
            for c in self.children(i) {
                if c == j {
                    v.push(i);
                }
            }
        }
        v
    }
    /// Kahn order, or None if cyclic.
    pub fn topo(&self) -> Option<Vec<usize>> {
        let mut indeg: Vec<usize> = (0..self.n).map(|j| self.parents(j).len()).collect();
        let mut done = vec![false; self.n];
        let mut order = vec![];
        loop {
            let ready: Vec<usize> = (0..self.n).filter(|&i| !done[i] && indeg[i] == 0).collect();
            if ready.is_empty() {
                break;
            }
            for i in ready {
                done[i] = true;
                order.push(i);
                for c in self.children(i) {
                    indeg[c] -= 1;
                }
            }
        }
        if order.len() == self.n {
            Some(order)
        } else {
            None
        }
    }
    pub fn invalid(&self) -> bool {
        self.malformed() || self.topo().is_none()
    }
    pub fn descendants(&self, roots: &BTreeSet<usize>) -> BTreeSet<usize> {
        let mut seen = roots.clone();
        let mut work: Vec<usize> = roots.iter().copied().collect();
        while let Some(i) = work.pop() {
            for c in self.children(i) {
                if seen.insert(c) {
                    work.push(c);
                }
            }
        }
        seen
    }
}

pub fn has_post_read(ops: &[Op]) -> bool {
    ops.iter().any(|o| {
        matches!(
            o,
            Op::StateRead(essential_asm::StateRead::PostKeyRange) | Op::StateRead(essential_asm::StateRead::PostKeyRangeExtern)
        )
    })
}

pub fn deferred_set(g: &Graph, ops: &[Vec<Op>]) -> BTreeSet<usize> {
    let roots: BTreeSet<usize> = (0..g.n).filter(|&i| has_post_read(&ops[i])).collect();
    g.descendants(&roots)
}

struct Env<'a> {
    sols: &'a [Solution],
    index: usize,
    pre: &'a crate::util::StateMap,
    strict: bool,
    short: bool,
    overlay: Option<&'a Overlay>,
    log: RefCell<Vec<Rec>>,
}

impl RefEnv for Env<'_> {
    fn solutions(&self) -> &[Solution] {
        self.sols
    }
    fn index(&self) -> usize {
        self.index
    }
    fn key_range(&self, post: bool, contract: [u8; 32], key: &[W], n: usize) -> Result<Vec<Vec<W>>, String> {
        let pre = |c: [u8; 32], k: &[W], n: usize| {
            if self.short && !self.pre.keys().any(|(kc, _)| *kc == c) {
                return Ok(vec![]);
            }
            crate::util::map_key_range(self.pre, self.strict, c, k, n)
        };
        if post {
            match self.overlay {
                // the reference never lets a non-deferred node read post state
                None => Err("post read in the outputs pass".into()),
                Some(o) => overlay_read(o, &pre, contract, key, n),
            }
        } else {
            self.log.borrow_mut().push((contract[0], key.to_vec(), n));
            pre(contract, key, n)
        }
    }
    fn op_cost(&self, _: &Op) -> u64 {
        1
    }
    fn gas_limit(&self) -> u64 {
        u64::MAX
    }
}

#[derive(Clone, Debug)]
pub enum NodeOut {
    Parent(Vec<W>, Vec<W>),
    LeafTrue,
    LeafData(Vec<W>),
    LeafFalse,
    Failed,
}

#[derive(Clone, Debug, Default)]
pub struct SolPass {
    /// nodes whose program (or input concatenation) fails with well-defined inputs
    pub root_failures: BTreeSet<usize>,
    /// root failures and all their descendants scheduled in this pass
    pub tainted: BTreeSet<usize>,
    pub unsatisfied: BTreeSet<usize>,
    pub gas: u64,
    /// data outputs (memories) by node
    pub data: Vec<(usize, Vec<W>)>,
    pub invalid_graph: bool,
    /// expected echo records of nodes with well-defined inputs
    pub log: Vec<Rec>,
    /// nodes executed (well-defined inputs), in a valid order
    pub ran: Vec<usize>,
    /// the reference met something it leaves open
    pub unspecified: Option<&'static str>,
}

/// Evaluate one solution's predicate in one pass. `cache` carries non-leaf outputs across passes.
pub fn eval_pass(
    g: &Graph,
    ops: &[Vec<Op>],
    deferred: &BTreeSet<usize>,
    checks_pass: bool,
    cache: &mut BTreeMap<usize, (Vec<W>, Vec<W>)>,
    sols: &[Solution],
    index: usize,
    pre: &crate::util::StateMap,
    strict: bool,
    short: bool,
    overlay: Option<&Overlay>,
) -> SolPass {
    let mut r = SolPass::default();
    if g.invalid() {
        r.invalid_graph = true;
        return r;
    }
    let order = g.topo().unwrap();
    let env = Env { sols, index, pre, strict, short, overlay, log: RefCell::new(vec![]) };
    for &i in &order {
        if deferred.contains(&i) != checks_pass {
            continue;
        }
        // input = concatenation over parents (ascending, with multiplicity)
        let mut stack = vec![];
        let mut memory = vec![];
        let mut defined = true;
        for p in g.parents(i) {
            match cache.get(&p) {
                Some((s, m)) => {
                    stack.extend_from_slice(s);
                    memory.extend_from_slice(m);
                }
                None => defined = false,
            }
        }
        if !defined || g.parents(i).iter().any(|p| r.tainted.contains(p)) {
            r.tainted.insert(i);
            continue;
        }
        if stack.len() > refvm::STACK_LIMIT || memory.len() > refvm::MEM_LIMIT {
            r.root_failures.insert(i);
            r.tainted.insert(i);
            continue;
        }
        let mut vm = RVm { pc: 0, stack, memory, parent_memory: None, repeat: vec![] };
        let mark = env.log.borrow().len();
        let mut ex = refvm::Exec::new(&env, &ops[i]);
        let res = ex.run(&mut vm, false);
        r.gas += ex.stats.ops;
        match res {
            Err(e) => {
                if let refvm::RErr::Unspecified(w) = e.kind {
                    r.unspecified = Some(w);
                }
                // what a failing program echoed before failing is still observed
                let _ = mark;
                r.root_failures.insert(i);
                r.tainted.insert(i);
            }
            Ok(()) => {
                r.ran.push(i);
                if g.leaf(i) {
                    if vm.stack == [1] {
                    } else if vm.stack == [2] {
                        r.data.push((i, vm.memory.clone()));
                    } else {
                        r.unsatisfied.insert(i);
                    }
                } else {
                    cache.insert(i, (vm.stack, vm.memory));
                }
            }
        }
    }
    r.log = env.log.into_inner();
    r
}

/// Decode `[count, (klen, key.., vlen, value..)*]`; None = not a valid encoding.
pub fn decode_mutations(m: &[W]) -> Option<Vec<(Vec<W>, Vec<W>)>> {
    let (&count, mut rest) = m.split_first()?;
    if count < 0 {
        return None;
    }
    let mut out = vec![];
    if count == 0 {
        return Some(out);
    }
    // the documented layout gives the number of mutations up front; the implementation
    // decodes until the words run out. Both agree on well-formed encodings; `count` wrong
    // is reported by the caller as "unspecified".
    while !rest.is_empty() {
        let (&kl, r) = rest.split_first()?;
        let kl = usize::try_from(kl).ok()?;
        if r.len() < kl + 1 {
            return None;
        }
        let key = r[..kl].to_vec();
        let vl = usize::try_from(r[kl]).ok()?;
        let r = &r[kl + 1..];
        if r.len() < vl {
            return None;
        }
        out.push((key, r[..vl].to_vec()));
        rest = &r[vl..];
    }
    Some(out)
}

#[derive(Clone, Debug)]
pub enum Expect {
    /// Ok with total gas, final mutations per solution
    Ok { gas: u64, mutations: Vec<Vec<(Vec<W>, Vec<W>)>> },
    /// the set fails in `pass` (1 or 2); per failing solution what is known
    Fail { pass: u8, sols: Vec<(u16, SolExpect)> },
    Unspecified(&'static str),
}

#[derive(Clone, Debug)]
pub enum SolExpect {
    InvalidGraph,
    Program { roots: BTreeSet<usize>, tainted: BTreeSet<usize> },
    Unsatisfied(BTreeSet<usize>),
    Mutations,
}

pub struct RefRun {
    pub expect: Expect,
    pub log1: Vec<Rec>,
    pub log2: Vec<Rec>,
    /// per solution: nodes run per pass (for the exactly-once / ordering clauses)
    pub passes: Vec<(SolPass, Option<SolPass>)>,
    pub overlay: Overlay,
    /// per solution deferred sets
    pub deferred: Vec<BTreeSet<usize>>,
    /// some solution has a node with a post read in a cyclic/malformed graph etc.
    pub any_invalid: bool,
}

fn sol_fail(p: &SolPass) -> Option<SolExpect> {
    if p.invalid_graph {
        Some(SolExpect::InvalidGraph)
    } else if !p.root_failures.is_empty() {
        Some(SolExpect::Program { roots: p.root_failures.clone(), tainted: p.tainted.clone() })
    } else if !p.unsatisfied.is_empty() {
        Some(SolExpect::Unsatisfied(p.unsatisfied.clone()))
    } else {
        None
    }
}

/// The complete two-pass reference.
pub fn reference(case: &CkCase, b: &Built) -> RefRun {
    let sols = &b.set.solutions;
    let graphs: Vec<Graph> = case.preds.iter().map(Graph::of).collect();
    let mut caches: Vec<BTreeMap<usize, (Vec<W>, Vec<W>)>> = vec![BTreeMap::new(); sols.len()];
    let mut deferred = vec![];
    let mut p1 = vec![];
    let mut unspecified = None;
    for (si, s) in case.sols.iter().enumerate() {
        let g = &graphs[s.pred];
        let d = if g.invalid() { BTreeSet::new() } else { deferred_set(g, &b.node_ops[s.pred]) };
        let r = eval_pass(g, &b.node_ops[s.pred], &d, false, &mut caches[si], sols, si, &b.pre, case.strict, case.short, None);
        if let Some(w) = r.unspecified {
            unspecified = Some(w);
        }
        deferred.push(d);
        p1.push(r);
    }
    let any_invalid = p1.iter().any(|p| p.invalid_graph);
    let log1: Vec<Rec> = p1.iter().flat_map(|p| p.log.clone()).collect();
    let fails1: Vec<(u16, SolExpect)> = p1.iter().enumerate().filter_map(|(i, p)| sol_fail(p).map(|f| (i as u16, f))).collect();
    let mk = |expect, log1, log2, passes, overlay, deferred| RefRun { expect, log1, log2, passes, overlay, deferred, any_invalid };
    if let Some(w) = unspecified {
        let passes = p1.into_iter().map(|p| (p, None)).collect();
        return mk(Expect::Unspecified(w), log1, vec![], passes, Overlay::new(), deferred);
    }
    if !fails1.is_empty() {
        let passes = p1.into_iter().map(|p| (p, None)).collect();
        return mk(Expect::Fail { pass: 1, sols: fails1 }, log1, vec![], passes, Overlay::new(), deferred);
    }
    // decode pass-1 data outputs, append to the producing solution
    let mut muts: Vec<Vec<(Vec<W>, Vec<W>)>> = case.sols.iter().map(|s| s.mutations.clone()).collect();
    let append = |muts: &mut Vec<Vec<(Vec<W>, Vec<W>)>>, passes: &[&SolPass]| -> Option<Vec<(u16, SolExpect)>> {
        let mut bad = vec![];
        // one value per (contract, key) over the whole set, declared or computed
        let mut proposed: BTreeMap<(u8, Vec<W>), Vec<W>> = BTreeMap::new();
        for (si, s) in case.sols.iter().enumerate() {
            for (k, v) in &muts[si] {
                proposed.insert((s.contract, k.clone()), v.clone());
            }
        }
        for (si, p) in passes.iter().enumerate() {
            let mut keys: BTreeSet<Vec<W>> = muts[si].iter().map(|m| m.0.clone()).collect();
            let mut failed = false;
            for (_, mem) in &p.data {
                match decode_mutations(mem) {
                    None => failed = true,
                    Some(ms) => {
                        for m in ms {
                            if !keys.insert(m.0.clone()) {
                                failed = true;
                            }
                            let slot = (case.sols[si].contract, m.0.clone());
                            if *proposed.entry(slot).or_insert_with(|| m.1.clone()) != m.1 {
                                failed = true;
                            }
                            muts[si].push(m);
                        }
                    }
                }
            }
            if failed {
                bad.push((si as u16, SolExpect::Mutations));
            }
        }
        if bad.is_empty() {
            None
        } else {
            Some(bad)
        }
    };
    if let Some(bad) = append(&mut muts, &p1.iter().collect::<Vec<_>>()) {
        let passes = p1.into_iter().map(|p| (p, None)).collect();
        return mk(Expect::Fail { pass: 1, sols: bad }, log1, vec![], passes, Overlay::new(), deferred);
    }
    // post = pre overlaid, solution by solution, mutation by mutation
    let mut overlay = Overlay::new();
    for (si, s) in case.sols.iter().enumerate() {
        for (k, v) in &muts[si] {
            overlay.insert(([s.contract; 32], k.clone()), v.clone());
        }
    }
    let mut p2 = vec![];
    for (si, s) in case.sols.iter().enumerate() {
        let g = &graphs[s.pred];
        let r = eval_pass(g, &b.node_ops[s.pred], &deferred[si], true, &mut caches[si], sols, si, &b.pre, case.strict, case.short, Some(&overlay));
        if let Some(w) = r.unspecified {
            unspecified = Some(w);
        }
        p2.push(r);
    }
    let log2: Vec<Rec> = p2.iter().flat_map(|p| p.log.clone()).collect();
    let fails2: Vec<(u16, SolExpect)> = p2.iter().enumerate().filter_map(|(i, p)| sol_fail(p).map(|f| (i as u16, f))).collect();
    let gas: u64 = p1.iter().map(|p| p.gas).sum::<u64>() + p2.iter().map(|p| p.gas).sum::<u64>();
    let bad2 = if fails2.is_empty() && unspecified.is_none() { append(&mut muts, &p2.iter().collect::<Vec<_>>()) } else { None };
    let passes: Vec<(SolPass, Option<SolPass>)> = p1.into_iter().zip(p2.into_iter().map(Some)).collect();
    let expect = if let Some(w) = unspecified {
        Expect::Unspecified(w)
    } else if !fails2.is_empty() {
        Expect::Fail { pass: 2, sols: fails2 }
    } else if let Some(bad) = bad2 {
        Expect::Fail { pass: 2, sols: bad }
    } else {
        Expect::Ok { gas, mutations: muts }
    };
    mk(expect, log1, log2, passes, overlay, deferred)
}
