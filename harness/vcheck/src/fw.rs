//! Framework: run configuration, reports, violation signatures, known findings,
//! evidence and replay files, worker-process orchestration.

use serde::{Deserialize, Serialize};
use serde_json::{json, Value};
use std::collections::{BTreeMap, HashSet};
use std::hash::{Hash, Hasher};
use std::io::Write;
use std::path::{Path, PathBuf};
use std::time::Instant;

pub const VERIF_ROOT: &str = "/verif";

/// Root for evidence/, replays/, work/, known-findings.json (overridable for scratch runs).
pub fn verif_root() -> PathBuf {
    PathBuf::from(std::env::var("VERIF_ROOT").unwrap_or_else(|_| VERIF_ROOT.to_string()))
}

#[derive(Clone, Copy, Debug, PartialEq, Eq, Serialize, Deserialize)]
pub enum Tier {
    Quick,
    Thorough,
}

impl Tier {
    pub fn name(self) -> &'static str {
        match self {
            Tier::Quick => "quick",
            Tier::Thorough => "thorough",
        }
    }
    pub fn pick<T>(self, q: T, t: T) -> T {
        match self {
            Tier::Quick => q,
            Tier::Thorough => t,
        }
    }
}

/// Configuration of one (worker) run.
#[derive(Clone, Debug)]
pub struct RunCfg {
    pub prop: String,
    pub tier: Tier,
    pub seed: u64,
    pub worker: usize,
    pub nworkers: usize,
    /// Which arithmetic profile this binary was built with.
    pub checked_profile: bool,
}

impl RunCfg {
    /// Does work item `i` belong to this worker?
    pub fn mine(&self, i: u64) -> bool {
        (i % self.nworkers as u64) as usize == self.worker
    }
}

/// Identity of a violation: property, oracle clause, panic site, discriminating features.
#[derive(Clone, Debug, PartialEq, Eq, PartialOrd, Ord, Serialize, Deserialize)]
pub struct Signature {
    pub property: String,
    pub clause: String,
    #[serde(default)]
    pub site: String,
    #[serde(default)]
    pub features: Vec<String>,
}

impl Signature {
    pub fn new(property: &str, clause: &str) -> Self {
        Signature {
            property: property.into(),
            clause: clause.into(),
            site: String::new(),
            features: vec![],
        }
    }
    /// `file:line: message` — digits in the message part are normalised so that one defect
    /// reached with different sizes keeps one signature.
    pub fn site(mut self, s: impl Into<String>) -> Self {
        let s: String = s.into();
        self.site = match s.find(": ") {
            Some(i) => {
                let (head, msg) = s.split_at(i + 2);
                let mut out = String::with_capacity(s.len());
                out.push_str(head);
                let mut last_digit = false;
                for ch in msg.chars() {
                    if ch.is_ascii_digit() {
                        if !last_digit {
                            out.push('#');
                        }
                        last_digit = true;
                    } else {
                        out.push(ch);
                        last_digit = false;
                    }
                }
                out
            }
            None => s,
        };
        self
    }
    pub fn feat(mut self, f: impl Into<String>) -> Self {
        self.features.push(f.into());
        self.features.sort();
        self.features.dedup();
        self
    }
    pub fn key(&self) -> String {
        format!(
            "{}|{}|{}|{}",
            self.property,
            self.clause,
            self.site,
            self.features.join(",")
        )
    }
}

#[derive(Clone, Debug, Serialize, Deserialize)]
pub struct Violation {
    pub signature: Signature,
    /// Self-contained description of the case: input, expected, observed.
    pub case: Value,
    pub expected: Value,
    pub observed: Value,
    #[serde(default)]
    pub test_snippet: String,
    #[serde(default)]
    pub count: u64,
}

#[derive(Clone, Debug, Default, Serialize, Deserialize)]
pub struct Report {
    pub evaluations: u64,
    pub states: u64,
    pub transitions: u64,
    pub traces_validated_against_impl: u64,
    pub nontrivial_evals: u64,
    #[serde(skip)]
    pub distinct_nontrivial: HashSet<u64>,
    #[serde(skip)]
    pub distinct_observations: HashSet<u64>,
    pub distinct_nontrivial_count: u64,
    pub distinct_observations_count: u64,
    pub samples: Vec<Value>,
    pub violations: BTreeMap<String, Violation>,
    pub caps_hit: Vec<String>,
    pub bound_completed: String,
    pub exhaustive: bool,
    pub notes: Vec<String>,
    pub masked: BTreeMap<String, u64>,
    pub extra: BTreeMap<String, Value>,
    pub machinery_errors: Vec<String>,
}

pub const MAX_SIGNATURES: usize = 50;
pub const DISTINCT_CAP: usize = 3_000_000;

pub fn hash_of<T: Hash + ?Sized>(t: &T) -> u64 {
    let mut h = std::collections::hash_map::DefaultHasher::new();
    t.hash(&mut h);
    h.finish()
}

impl Report {
    pub fn new() -> Self {
        Report {
            exhaustive: true,
            ..Default::default()
        }
    }
    /// Count one evaluated case. `nontrivial` = hash of its canonical form when it is
    /// non-trivial by the property's rule.
    pub fn eval(&mut self, nontrivial: Option<u64>, observation: u64) {
        self.evaluations += 1;
        if let Some(h) = nontrivial {
            self.nontrivial_evals += 1;
            if self.distinct_nontrivial.len() < DISTINCT_CAP {
                self.distinct_nontrivial.insert(h);
            }
        }
        if self.distinct_observations.len() < DISTINCT_CAP {
            self.distinct_observations.insert(observation);
        }
    }
    pub fn sample(&mut self, v: impl FnOnce() -> Value) {
        if self.samples.len() < 6 {
            self.samples.push(v());
        }
    }
    pub fn mask(&mut self, what: &str) {
        *self.masked.entry(what.to_string()).or_default() += 1;
    }
    pub fn cap(&mut self, what: impl Into<String>) {
        let w = what.into();
        if !self.caps_hit.contains(&w) {
            self.caps_hit.push(w);
        }
        self.exhaustive = false;
    }
    pub fn violate(&mut self, v: impl FnOnce() -> Violation, sig_key_hint: Option<&str>) {
        // Cheap path: if the caller can give the key up front, avoid building the case.
        if let Some(k) = sig_key_hint {
            if let Some(e) = self.violations.get_mut(k) {
                e.count += 1;
                return;
            }
        }
        let mut viol = v();
        let k = viol.signature.key();
        if let Some(e) = self.violations.get_mut(&k) {
            e.count += 1;
            return;
        }
        if self.violations.len() >= MAX_SIGNATURES {
            self.cap(format!("more than {MAX_SIGNATURES} violation signatures"));
            return;
        }
        viol.count = 1;
        self.violations.insert(k, viol);
    }
    pub fn merge(&mut self, o: Report) {
        self.evaluations += o.evaluations;
        self.states += o.states;
        self.transitions += o.transitions;
        self.traces_validated_against_impl += o.traces_validated_against_impl;
        self.nontrivial_evals += o.nontrivial_evals;
        for s in o.samples {
            if self.samples.len() < 6 {
                self.samples.push(s);
            }
        }
        for (k, v) in o.violations {
            match self.violations.get_mut(&k) {
                Some(e) => e.count += v.count,
                None => {
                    if self.violations.len() < MAX_SIGNATURES {
                        self.violations.insert(k, v);
                    }
                }
            }
        }
        for c in o.caps_hit {
            if !self.caps_hit.contains(&c) {
                self.caps_hit.push(c);
            }
        }
        self.exhaustive &= o.exhaustive;
        if self.bound_completed.is_empty() {
            self.bound_completed = o.bound_completed;
        }
        for n in o.notes {
            if !self.notes.contains(&n) {
                self.notes.push(n);
            }
        }
        for (k, v) in o.masked {
            *self.masked.entry(k).or_default() += v;
        }
        for (k, v) in o.extra {
            match (self.extra.get_mut(&k), &v) {
                (Some(Value::Number(a)), Value::Number(b)) => {
                    let s = a.as_u64().unwrap_or(0) + b.as_u64().unwrap_or(0);
                    *self.extra.get_mut(&k).unwrap() = json!(s);
                }
                (None, _) => {
                    self.extra.insert(k, v);
                }
                _ => {}
            }
        }
        self.machinery_errors.extend(o.machinery_errors);
    }
    pub fn add_extra(&mut self, k: &str, n: u64) {
        let cur = self.extra.get(k).and_then(|v| v.as_u64()).unwrap_or(0);
        self.extra.insert(k.to_string(), json!(cur + n));
    }
}

// ---------------------------------------------------------------------------------------------
// Worker partial results on disk

fn work_dir() -> PathBuf {
    let p = verif_root().join("work");
    let _ = std::fs::create_dir_all(&p);
    p
}

pub fn worker_paths(prop: &str, profile: &str, w: usize) -> (PathBuf, PathBuf, PathBuf, PathBuf) {
    let d = work_dir();
    (
        d.join(format!("{prop}.{profile}.w{w}.json")),
        d.join(format!("{prop}.{profile}.w{w}.nt.bin")),
        d.join(format!("{prop}.{profile}.w{w}.obs.bin")),
        d.join(format!("{prop}.{profile}.w{w}.wal")),
    )
}

fn write_set(p: &Path, s: &HashSet<u64>) -> std::io::Result<()> {
    let mut f = std::io::BufWriter::new(std::fs::File::create(p)?);
    for h in s {
        f.write_all(&h.to_le_bytes())?;
    }
    f.flush()
}

fn read_set(p: &Path, into: &mut HashSet<u64>) {
    if let Ok(b) = std::fs::read(p) {
        for c in b.chunks_exact(8) {
            if into.len() >= DISTINCT_CAP {
                break;
            }
            into.insert(u64::from_le_bytes(c.try_into().unwrap()));
        }
    }
}

pub fn save_worker_report(cfg: &RunCfg, rep: &mut Report) -> std::io::Result<()> {
    let prof = if cfg.checked_profile { "checked" } else { "release" };
    let (j, nt, obs, _) = worker_paths(&cfg.prop, prof, cfg.worker);
    rep.distinct_nontrivial_count = rep.distinct_nontrivial.len() as u64;
    rep.distinct_observations_count = rep.distinct_observations.len() as u64;
    write_set(&nt, &rep.distinct_nontrivial)?;
    write_set(&obs, &rep.distinct_observations)?;
    let tmp = j.with_extension("json.tmp");
    std::fs::write(&tmp, serde_json::to_vec(rep).unwrap())?;
    std::fs::rename(tmp, j)
}

pub fn load_worker_report(prop: &str, profile: &str, w: usize) -> Option<Report> {
    let (j, nt, obs, _) = worker_paths(prop, profile, w);
    let b = std::fs::read(&j).ok()?;
    let mut r: Report = serde_json::from_slice(&b).ok()?;
    read_set(&nt, &mut r.distinct_nontrivial);
    read_set(&obs, &mut r.distinct_observations);
    Some(r)
}

pub fn merge_with_sets(acc: &mut Report, o: Report) {
    let Report {
        distinct_nontrivial,
        distinct_observations,
        ..
    } = &o;
    // the merged sets are capped too (16 workers' worth); beyond that the counts are lower bounds
    for h in distinct_nontrivial {
        if acc.distinct_nontrivial.len() >= 16 * DISTINCT_CAP {
            break;
        }
        acc.distinct_nontrivial.insert(*h);
    }
    for h in distinct_observations {
        if acc.distinct_observations.len() >= 16 * DISTINCT_CAP {
            break;
        }
        acc.distinct_observations.insert(*h);
    }
    acc.merge(o);
}

// ---------------------------------------------------------------------------------------------
// Write-ahead case buffer, dumped by signal handlers / watchdog when the process dies.

pub mod wal {
    use std::sync::atomic::{AtomicI32, AtomicU64, AtomicUsize, Ordering};

    pub const CAP: usize = 192 * 1024;
    pub const SLOTS: usize = 64;
    struct Slot {
        len: AtomicUsize,
        buf: std::cell::UnsafeCell<[u8; CAP]>,
    }
    unsafe impl Sync for Slot {}
    #[allow(clippy::declare_interior_mutable_const)]
    const EMPTY: Slot = Slot { len: AtomicUsize::new(0), buf: std::cell::UnsafeCell::new([0; CAP]) };
    static SLOT: [Slot; SLOTS] = [EMPTY; SLOTS];
    static FD: AtomicI32 = AtomicI32::new(-1);
    pub static CASE_NO: AtomicU64 = AtomicU64::new(0);
    static NEXT: AtomicUsize = AtomicUsize::new(0);
    thread_local! {
        static MINE: usize = NEXT.fetch_add(1, Ordering::Relaxed) % SLOTS;
    }

    /// Record the case this thread is about to execute (a memcpy into the thread's slot).
    #[inline]
    pub fn set(bytes: &[u8]) {
        let i = MINE.with(|m| *m);
        let n = bytes.len().min(CAP);
        let s = &SLOT[i];
        s.len.store(0, Ordering::SeqCst);
        unsafe {
            (&mut *s.buf.get())[..n].copy_from_slice(&bytes[..n]);
        }
        s.len.store(n, Ordering::SeqCst);
        CASE_NO.fetch_add(1, Ordering::Relaxed);
    }

    pub fn clear() {
        let i = MINE.with(|m| *m);
        SLOT[i].len.store(0, Ordering::SeqCst);
    }

    /// Dump: first line = kind, then one hex line per non-empty slot.
    pub fn dump(kind: &[u8]) {
        let fd = FD.load(Ordering::SeqCst);
        if fd < 0 {
            return;
        }
        unsafe {
            libc::write(fd, kind.as_ptr() as *const _, kind.len());
            libc::write(fd, b"\n".as_ptr() as *const _, 1);
            let hexd = b"0123456789abcdef";
            for s in SLOT.iter() {
                let n = s.len.load(Ordering::SeqCst);
                if n == 0 {
                    continue;
                }
                let buf = &*s.buf.get();
                let mut out = [0u8; 4096];
                let mut o = 0;
                for &b in &buf[..n] {
                    out[o] = hexd[(b >> 4) as usize];
                    out[o + 1] = hexd[(b & 15) as usize];
                    o += 2;
                    if o == out.len() {
                        libc::write(fd, out.as_ptr() as *const _, o);
                        o = 0;
                    }
                }
                libc::write(fd, out.as_ptr() as *const _, o);
                libc::write(fd, b"\n".as_ptr() as *const _, 1);
            }
            libc::fsync(fd);
        }
    }

    extern "C" fn on_signal(sig: libc::c_int) {
        let kind: &[u8] = match sig {
            libc::SIGABRT => b"abort",
            libc::SIGSEGV => b"segv",
            libc::SIGBUS => b"bus",
            libc::SIGTERM => b"killed-by-parent",
            libc::SIGXCPU => b"cpu-limit",
            _ => b"signal",
        };
        dump(kind);
        unsafe { libc::_exit(70) }
    }

    pub fn install(path: &std::path::Path) {
        use std::os::unix::ffi::OsStrExt;
        let mut c = path.as_os_str().as_bytes().to_vec();
        c.push(0);
        unsafe {
            let fd = libc::open(
                c.as_ptr() as *const _,
                libc::O_WRONLY | libc::O_CREAT | libc::O_TRUNC,
                0o644,
            );
            FD.store(fd, Ordering::SeqCst);
            for s in [libc::SIGABRT, libc::SIGTERM, libc::SIGXCPU] {
                libc::signal(s, on_signal as *const () as usize);
            }
        }
    }

    /// Watchdog: if no case starts for `horizon_s`, dump as "hang" and exit.
    pub fn watchdog(horizon_s: u64) {
        std::thread::spawn(move || {
            let mut last = CASE_NO.load(Ordering::Relaxed);
            let mut stale = 0u64;
            loop {
                std::thread::sleep(std::time::Duration::from_millis(500));
                let now = CASE_NO.load(Ordering::Relaxed);
                if now == last && now != 0 {
                    stale += 1;
                    if stale >= horizon_s * 2 {
                        dump(b"hang");
                        unsafe { libc::_exit(71) }
                    }
                } else {
                    stale = 0;
                    last = now;
                }
            }
        });
    }

    /// Progress without a case (phases that cannot hang by construction).
    #[inline]
    pub fn tick() {
        CASE_NO.fetch_add(1, Ordering::Relaxed);
    }
}

pub fn limit_address_space(gib: u64) {
    unsafe {
        let lim = libc::rlimit {
            rlim_cur: gib << 30,
            rlim_max: gib << 30,
        };
        libc::setrlimit(libc::RLIMIT_AS, &lim);
    }
}

// ---------------------------------------------------------------------------------------------
// Panic capture

thread_local! {
    static LAST_PANIC: std::cell::RefCell<Option<(String, String)>> = const { std::cell::RefCell::new(None) };
}

pub fn install_panic_hook() {
    std::panic::set_hook(Box::new(|info| {
        let loc = info
            .location()
            .map(|l| format!("{}:{}", l.file(), l.line()))
            .unwrap_or_default();
        let msg = if let Some(s) = info.payload().downcast_ref::<&str>() {
            s.to_string()
        } else if let Some(s) = info.payload().downcast_ref::<String>() {
            s.clone()
        } else {
            "<non-string panic>".into()
        };
        LAST_PANIC.with(|p| *p.borrow_mut() = Some((loc, msg)));
    }));
}

/// Run `f` catching panics; on panic returns (location, first line of message).
pub fn catch<R>(f: impl FnOnce() -> R) -> Result<R, (String, String)> {
    match std::panic::catch_unwind(std::panic::AssertUnwindSafe(f)) {
        Ok(r) => Ok(r),
        Err(_) => {
            let (loc, msg) = LAST_PANIC
                .with(|p| p.borrow_mut().take())
                .unwrap_or_else(|| ("?".into(), "?".into()));
            let loc = normalize_site(&loc);
            let msg = msg.lines().next().unwrap_or("").to_string();
            Err((loc, msg))
        }
    }
}

/// Make panic sites stable: strip cargo registry prefixes and /repo prefix.
pub fn normalize_site(loc: &str) -> String {
    if let Some(i) = loc.find("/repo/") {
        return loc[i + 6..].to_string();
    }
    if let Some(i) = loc.find("registry/src/") {
        let rest = &loc[i + 13..];
        if let Some(j) = rest.find('/') {
            return rest[j + 1..].to_string();
        }
    }
    if let Some(i) = loc.find("/library/") {
        return format!("std:{}", &loc[i + 9..]);
    }
    loc.to_string()
}

// ---------------------------------------------------------------------------------------------
// Known findings

#[derive(Clone, Debug, Deserialize)]
pub struct KnownFinding {
    pub property: String,
    pub clause: String,
    #[serde(default)]
    pub site: String,
    #[serde(default)]
    pub features: Vec<String>,
    pub what: String,
}

#[derive(Clone, Debug, Default, Deserialize)]
pub struct KnownFindings {
    #[serde(default)]
    pub findings: Vec<KnownFinding>,
    #[serde(default)]
    pub fixed: Vec<Value>,
}

pub fn load_known_findings() -> Result<KnownFindings, String> {
    let p = verif_root().join("known-findings.json");
    match std::fs::read(&p) {
        Ok(b) => serde_json::from_slice(&b).map_err(|e| format!("known-findings.json: {e}")),
        Err(_) => Ok(KnownFindings::default()),
    }
}

impl KnownFindings {
    pub fn matches(&self, s: &Signature) -> Option<&KnownFinding> {
        self.findings.iter().find(|k| {
            k.property == s.property
                && k.clause == s.clause
                && (k.site.is_empty() || k.site == s.site)
                && k.features.iter().all(|f| s.features.contains(f))
                // all listed features must agree, and the violation must not carry a
                // discriminating feature the finding does not list
                && s.features.iter().all(|f| k.features.contains(f))
        })
    }
}

// ---------------------------------------------------------------------------------------------
// Final evidence + verdict (parent)

pub struct Finalize<'a> {
    pub prop: &'a str,
    pub tier: Tier,
    pub seed: u64,
    pub level: &'a str,
    pub rule: &'a str,
    pub assumptions: Vec<String>,
    pub started: Instant,
}

/// Writes replay files, evidence, prints verdict lines; returns the process exit code.
pub fn finalize(f: Finalize, rep: &mut Report) -> i32 {
    let known = match load_known_findings() {
        Ok(k) => k,
        Err(e) => {
            eprintln!("MACHINERY: {e}");
            return 2;
        }
    };
    let replay_dir = verif_root().join("replays").join(f.prop);
    let _ = std::fs::create_dir_all(&replay_dir);
    let mut unlisted = 0;
    let mut known_seen = vec![];
    for (k, v) in &rep.violations {
        if let Some(kf) = known.matches(&v.signature) {
            println!(
                "KNOWN-FINDING: property={} {} [clause={} site={} features={}] ({} cases)",
                f.prop,
                kf.what,
                v.signature.clause,
                v.signature.site,
                v.signature.features.join(","),
                v.count
            );
            known_seen.push(json!({"signature": v.signature, "count": v.count}));
        } else {
            unlisted += 1;
            let name = format!("{:016x}.json", hash_of(k));
            let path = replay_dir.join(name);
            let body = json!({
                "property": f.prop,
                "signature": v.signature,
                "case": v.case,
                "expected": v.expected,
                "observed": v.observed,
                "test_snippet": v.test_snippet,
                "cases_with_this_signature": v.count,
            });
            let _ = std::fs::write(&path, serde_json::to_vec_pretty(&body).unwrap());
            println!("VIOLATION property={} replay={}", f.prop, path.display());
            println!(
                "  clause={} site={} features=[{}] cases={}",
                v.signature.clause,
                v.signature.site,
                v.signature.features.join(","),
                v.count
            );
        }
    }
    rep.distinct_nontrivial_count = rep.distinct_nontrivial.len() as u64;
    rep.distinct_observations_count = rep.distinct_observations.len() as u64;
    if rep.nontrivial_evals > rep.distinct_nontrivial_count && rep.nontrivial_evals > DISTINCT_CAP as u64 {
        rep.notes.push(format!(
            "distinct_nontrivial is a lower bound: each worker keeps at most {DISTINCT_CAP} case hashes (non-trivial evaluations: {})",
            rep.nontrivial_evals
        ));
    }
    let wall = f.started.elapsed().as_secs_f64();
    let mut cov = serde_json::Map::new();
    cov.insert("evaluations".into(), json!(rep.evaluations));
    cov.insert("distinct_nontrivial".into(), json!(rep.distinct_nontrivial_count));
    cov.insert("nontrivial_evaluations".into(), json!(rep.nontrivial_evals));
    cov.insert("rule".into(), json!(f.rule));
    cov.insert("samples".into(), json!(rep.samples));
    if f.level == "model_checking" {
        cov.insert("states".into(), json!(rep.states));
        cov.insert("transitions".into(), json!(rep.transitions));
        cov.insert(
            "traces_validated_against_impl".into(),
            json!(rep.traces_validated_against_impl),
        );
    }
    cov.insert("exhaustive".into(), json!(rep.exhaustive && rep.caps_hit.is_empty()));
    cov.insert("bound_completed".into(), json!(rep.bound_completed));
    cov.insert("caps_hit".into(), json!(rep.caps_hit));
    cov.insert("distinct_observations".into(), json!(rep.distinct_observations_count));
    cov.insert("known_findings_seen".into(), json!(known_seen));
    cov.insert("masked".into(), json!(rep.masked));
    cov.insert("notes".into(), json!(rep.notes));
    for (k, v) in &rep.extra {
        cov.insert(k.clone(), v.clone());
    }
    let ev = json!({
        "property_id": f.prop,
        "tier": f.tier.name(),
        "seed": f.seed,
        "level": f.level,
        "coverage": Value::Object(cov),
        "assumptions": f.assumptions,
        "wall_s": (wall * 1000.0).round() / 1000.0,
        "violations": unlisted,
    });
    let evdir = verif_root().join("evidence");
    let _ = std::fs::create_dir_all(&evdir);
    let evp = evdir.join(format!("{}.json", f.prop));
    if let Err(e) = std::fs::write(&evp, serde_json::to_vec_pretty(&ev).unwrap()) {
        eprintln!("MACHINERY: cannot write evidence: {e}");
        return 2;
    }
    println!(
        "{} {}: evaluations={} distinct_nontrivial={} states={} transitions={} distinct_observations={} violations(unlisted)={} known={} exhaustive={} caps={:?} wall={:.1}s",
        f.prop,
        f.tier.name(),
        rep.evaluations,
        rep.distinct_nontrivial_count,
        rep.states,
        rep.transitions,
        rep.distinct_observations_count,
        unlisted,
        known_seen.len(),
        rep.exhaustive && rep.caps_hit.is_empty(),
        rep.caps_hit,
        wall
    );
    for e in &rep.machinery_errors {
        eprintln!("MACHINERY: {e}");
    }
    // a replayable violation is a verdict even if some other part of the run broke down
    if unlisted > 0 {
        1
    } else if !rep.machinery_errors.is_empty() {
        2
    } else {
        0
    }
}

pub fn viol(
    sig: Signature,
    case: Value,
    expected: Value,
    observed: Value,
    snippet: String,
) -> Violation {
    Violation {
        signature: sig,
        case,
        expected,
        observed,
        test_snippet: snippet,
        count: 0,
    }
}
