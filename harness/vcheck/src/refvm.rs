//! Reference interpreter of the 62 operations, written from `asm.yml` and the property
//! statements. Plain `Vec<i64>` stack/memory, `i128` arithmetic, explicit limits, a sequential
//! `for` loop for `Compute`, one shared running gas total. Errors are a *class* (plus the index
//! of the failing top-level op), never a specific variant.

use essential_asm as asm;
use essential_asm::Op;
use essential_types::solution::Solution;

pub const STACK_LIMIT: usize = 4096;
pub const MEM_LIMIT: usize = 10240;
pub const REPEAT_LIMIT: usize = 4096;

pub type W = i64;

#[derive(Clone, Debug, PartialEq, Eq, Hash)]
pub struct RSlot {
    pub counter: W,
    /// Some(limit) = counting up to limit-1; None = counting down to 1.
    pub up: Option<W>,
    pub ret: usize,
    /// The loop was entered with a count <= 0: the value of the counter is unspecified.
    pub degenerate: bool,
}

#[derive(Clone, Debug, PartialEq, Eq, Hash, Default)]
pub struct RVm {
    pub pc: usize,
    pub stack: Vec<W>,
    pub memory: Vec<W>,
    /// Some = inside a compute child (depth 1).
    pub parent_memory: Option<Vec<W>>,
    pub repeat: Vec<RSlot>,
}

/// Why a reference step did not produce a successor configuration.
#[derive(Clone, Debug, PartialEq, Eq)]
pub enum RErr {
    /// The operation is an error by the specification.
    Fail,
    /// Out of gas (also an error class, kept apart for C07).
    OutOfGas,
    /// The specification leaves the outcome open (masked case); carries the reason.
    Unspecified(&'static str),
    /// The environment (state read) failed with this message.
    State(String),
}

pub type RRes<T> = Result<T, RErr>;

#[derive(Clone, Debug, PartialEq, Eq)]
pub enum Flow {
    Next,
    Jump(usize),
    Halt,
    ComputeEnd,
}

/// What the reference needs from the outside world.
pub trait RefEnv {
    fn solutions(&self) -> &[Solution];
    fn index(&self) -> usize;
    /// `post` selects the view.
    fn key_range(&self, post: bool, contract: [u8; 32], key: &[W], n: usize) -> Result<Vec<Vec<W>>, String>;
    fn op_cost(&self, op: &Op) -> u64;
    fn gas_limit(&self) -> u64;
}

/// Program access for the reference: `None` past the end, `Some(Err(()))` for a hole / bad op.
pub trait RefProg {
    fn at(&self, pc: usize) -> Option<Result<Op, ()>>;
}

impl RefProg for [Op] {
    fn at(&self, pc: usize) -> Option<Result<Op, ()>> {
        self.get(pc).cloned().map(Ok)
    }
}
impl RefProg for Vec<Op> {
    fn at(&self, pc: usize) -> Option<Result<Op, ()>> {
        self.get(pc).cloned().map(Ok)
    }
}

fn pop(s: &mut Vec<W>) -> RRes<W> {
    s.pop().ok_or(RErr::Fail)
}
fn push(s: &mut Vec<W>, w: W) -> RRes<()> {
    if s.len() >= STACK_LIMIT {
        return Err(RErr::Fail);
    }
    s.push(w);
    Ok(())
}
fn extend(s: &mut Vec<W>, ws: &[W]) -> RRes<()> {
    if s.len() + ws.len() > STACK_LIMIT {
        return Err(RErr::Fail);
    }
    s.extend_from_slice(ws);
    Ok(())
}
fn nat(w: W) -> RRes<usize> {
    usize::try_from(w).map_err(|_| RErr::Fail)
}
fn boolw(w: W) -> RRes<bool> {
    match w {
        0 => Ok(false),
        1 => Ok(true),
        _ => Err(RErr::Fail),
    }
}
fn fit(v: i128) -> RRes<W> {
    W::try_from(v).map_err(|_| RErr::Fail)
}
/// Pop `n` words (kept in stack order).
fn pop_n(s: &mut Vec<W>, n: usize) -> RRes<Vec<W>> {
    if n > s.len() {
        return Err(RErr::Fail);
    }
    let at = s.len() - n;
    Ok(s.split_off(at))
}

pub fn words4(b: [u8; 32]) -> [W; 4] {
    let mut o = [0; 4];
    for i in 0..4 {
        o[i] = W::from_be_bytes(b[i * 8..i * 8 + 8].try_into().unwrap());
    }
    o
}
pub fn bytes32(w: [W; 4]) -> [u8; 32] {
    let mut o = [0u8; 32];
    for i in 0..4 {
        o[i * 8..i * 8 + 8].copy_from_slice(&w[i].to_be_bytes());
    }
    o
}
pub fn bytes64(w: &[W]) -> [u8; 64] {
    let mut o = [0u8; 64];
    for i in 0..8 {
        o[i * 8..i * 8 + 8].copy_from_slice(&w[i].to_be_bytes());
    }
    o
}

fn decode_set(ws: &[W]) -> RRes<std::collections::BTreeSet<Vec<W>>> {
    // [elem_0.., elem_0_len, ..., elem_N.., elem_N_len]; decoded from the top.
    let mut out = std::collections::BTreeSet::new();
    let mut rest = ws;
    while let Some((&l, r)) = rest.split_last() {
        let l = nat(l)?;
        if l > r.len() {
            return Err(RErr::Fail);
        }
        let (r2, e) = r.split_at(r.len() - l);
        out.insert(e.to_vec());
        rest = r2;
    }
    Ok(out)
}

/// Pop a byte length and ceil(len/8) words; return the first `len` bytes (big-endian words).
fn pop_bytes(s: &mut Vec<W>) -> RRes<Vec<u8>> {
    let n = nat(pop(s)?)?;
    let nw = n.div_ceil(8);
    let ws = pop_n(s, nw)?;
    let mut b: Vec<u8> = ws.iter().flat_map(|w| w.to_be_bytes()).collect();
    b.truncate(n);
    Ok(b)
}

pub fn sha256(b: &[u8]) -> [u8; 32] {
    use sha2::Digest;
    let mut h = sha2::Sha256::new();
    h.update(b);
    h.finalize().into()
}

/// The documented pre-image of `PredicateExists` for one solution.
pub fn predicate_exists_preimage(s: &Solution) -> Vec<u8> {
    let mut ws: Vec<W> = vec![];
    for slot in &s.predicate_data {
        ws.push(slot.len() as W);
        ws.extend_from_slice(slot);
    }
    ws.extend_from_slice(&words4(s.predicate_to_solve.contract.0));
    ws.extend_from_slice(&words4(s.predicate_to_solve.predicate.0));
    ws.iter().flat_map(|w| w.to_be_bytes()).collect()
}

fn write_values(mem: &mut [W], addr: usize, values: &[Vec<W>]) -> RRes<()> {
    // [a_addr, a_len, b_addr, b_len, a_value, b_value]
    let n = values.len();
    let total: usize = 2 * n + values.iter().map(|v| v.len()).sum::<usize>();
    if total == 0 {
        // nothing is written: trivially fits, whatever the address
        return Ok(());
    }
    let end = addr.checked_add(total).ok_or(RErr::Fail)?;
    if end > mem.len() {
        return Err(RErr::Fail);
    }
    let mut vaddr = addr + 2 * n;
    for (i, v) in values.iter().enumerate() {
        mem[addr + 2 * i] = vaddr as W;
        mem[addr + 2 * i + 1] = v.len() as W;
        mem[vaddr..vaddr + v.len()].copy_from_slice(v);
        vaddr += v.len();
    }
    Ok(())
}

/// One operation that is not `Compute` (which needs the program and gas; see `Exec`).
pub fn step_simple(vm: &mut RVm, op: &Op, env: &dyn RefEnv) -> RRes<Flow> {
    let s = &mut vm.stack;
    match op {
        Op::Stack(o) => {
            use asm::Stack::*;
            match o {
                Push(w) => push(s, *w)?,
                Pop => {
                    pop(s)?;
                }
                Dup => {
                    let w = pop(s)?;
                    push(s, w)?;
                    push(s, w)?;
                }
                DupFrom => {
                    let i = nat(pop(s)?)?;
                    if i >= s.len() {
                        return Err(RErr::Fail);
                    }
                    let w = s[s.len() - 1 - i];
                    push(s, w)?;
                }
                Swap => {
                    let b = pop(s)?;
                    let a = pop(s)?;
                    push(s, b)?;
                    push(s, a)?;
                }
                SwapIndex => {
                    let i = nat(pop(s)?)?;
                    if s.is_empty() || i >= s.len() {
                        return Err(RErr::Fail);
                    }
                    let top = s.len() - 1;
                    s.swap(top, top - i);
                }
                Select => {
                    let c = pop(s)?;
                    let b = pop(s)?;
                    let a = pop(s)?;
                    let c = boolw(c)?;
                    push(s, if c { b } else { a })?;
                }
                SelectRange => {
                    let c = boolw(pop(s)?)?;
                    let len = nat(pop(s)?)?;
                    let two = len.checked_mul(2).ok_or(RErr::Fail)?;
                    if two > s.len() {
                        return Err(RErr::Fail);
                    }
                    let b = pop_n(s, len)?;
                    let a = pop_n(s, len)?;
                    s.extend_from_slice(if c { &b } else { &a });
                }
                Repeat => {
                    let up = pop(s)?;
                    let n = {
                        // num_repeats is below the direction flag
                        let n = pop(s)?;
                        n
                    };
                    let up = boolw(up)?;
                    if vm.repeat.len() >= REPEAT_LIMIT {
                        return Err(RErr::Fail);
                    }
                    vm.repeat.push(RSlot {
                        counter: if up { 0 } else { n },
                        up: if up { Some(n) } else { None },
                        ret: vm.pc + 1,
                        degenerate: n <= 0,
                    });
                }
                RepeatEnd => {
                    let Some(slot) = vm.repeat.last_mut() else {
                        return Err(RErr::Fail);
                    };
                    let done = match slot.up {
                        Some(limit) => (slot.counter as i128) >= (limit as i128) - 1,
                        None => slot.counter <= 1,
                    };
                    if done {
                        vm.repeat.pop();
                    } else {
                        match slot.up {
                            Some(_) => slot.counter += 1,
                            None => slot.counter -= 1,
                        }
                        return Ok(Flow::Jump(slot.ret));
                    }
                }
                Reserve => {
                    let len = nat(pop(s)?)?;
                    let start = s.len();
                    let new_len = start.checked_add(len).ok_or(RErr::Fail)?;
                    // the reserved words plus the returned index must fit
                    if new_len + 1 > STACK_LIMIT {
                        return Err(RErr::Fail);
                    }
                    s.resize(new_len, 0);
                    s.push(start as W);
                }
                Load => {
                    let i = nat(pop(s)?)?;
                    let w = *s.get(i).ok_or(RErr::Fail)?;
                    push(s, w)?;
                }
                Store => {
                    let i = pop(s)?;
                    let v = pop(s)?;
                    let i = nat(i)?;
                    *s.get_mut(i).ok_or(RErr::Fail)? = v;
                }
                Drop => {
                    let n = nat(pop(s)?)?;
                    pop_n(s, n)?;
                }
            }
            Ok(Flow::Next)
        }
        Op::Pred(o) => {
            use asm::Pred::*;
            match o {
                Eq | Gt | Lt | Gte | Lte | And | Or | BitAnd | BitOr => {
                    let r = pop(s)?;
                    let l = pop(s)?;
                    let v = match o {
                        Eq => (l == r) as W,
                        Gt => (l > r) as W,
                        Lt => (l < r) as W,
                        Gte => (l >= r) as W,
                        Lte => (l <= r) as W,
                        And => (l != 0 && r != 0) as W,
                        Or => (l != 0 || r != 0) as W,
                        BitAnd => l & r,
                        BitOr => l | r,
                        _ => unreachable!(),
                    };
                    push(s, v)?;
                }
                Not => {
                    let a = pop(s)?;
                    push(s, (a == 0) as W)?;
                }
                EqRange => {
                    let len = nat(pop(s)?)?;
                    let two = len.checked_mul(2).ok_or(RErr::Fail)?;
                    if two > s.len() {
                        return Err(RErr::Fail);
                    }
                    let b = pop_n(s, len)?;
                    let a = pop_n(s, len)?;
                    push(s, (a == b) as W)?;
                }
                EqSet => {
                    let rl = nat(pop(s)?)?;
                    let rhs = pop_n(s, rl)?;
                    let ll = nat(pop(s)?)?;
                    let lhs = pop_n(s, ll)?;
                    let a = decode_set(&lhs)?;
                    let b = decode_set(&rhs)?;
                    push(s, (a == b) as W)?;
                }
            }
            Ok(Flow::Next)
        }
        Op::Alu(o) => {
            use asm::Alu::*;
            let r = pop(s)?;
            let l = pop(s)?;
            let (li, ri) = (l as i128, r as i128);
            let v = match o {
                Add => fit(li + ri)?,
                Sub => fit(li - ri)?,
                Mul => fit(li * ri)?,
                Div => {
                    if r == 0 {
                        return Err(RErr::Fail);
                    }
                    fit(li / ri)?
                }
                Mod => {
                    if r == 0 {
                        return Err(RErr::Fail);
                    }
                    if l == W::MIN && r == -1 {
                        return Err(RErr::Unspecified("Mod(MIN,-1)"));
                    }
                    fit(li % ri)?
                }
                Shl | Shr | ShrI => {
                    if !(0..64).contains(&r) {
                        return Err(RErr::Fail);
                    }
                    match o {
                        Shl => ((l as u64) << r) as W,
                        Shr => ((l as u64) >> r) as W,
                        _ => {
                            // arithmetic: floor(l / 2^r)
                            let d = 1i128 << r;
                            li.div_euclid(d) as W
                        }
                    }
                }
            };
            push(s, v)?;
            Ok(Flow::Next)
        }
        Op::Memory(o) => {
            use asm::Memory::*;
            let m = &mut vm.memory;
            match o {
                Alloc => {
                    let n = nat(pop(s)?)?;
                    let old = m.len();
                    let new = old.checked_add(n).ok_or(RErr::Fail)?;
                    if new > MEM_LIMIT {
                        return Err(RErr::Fail);
                    }
                    m.resize(new, 0);
                    push(s, old as W)?;
                }
                Free => {
                    let n = nat(pop(s)?)?;
                    if n > m.len() {
                        return Err(RErr::Fail);
                    }
                    m.truncate(n);
                }
                Load => {
                    let a = nat(pop(s)?)?;
                    let w = *m.get(a).ok_or(RErr::Fail)?;
                    push(s, w)?;
                }
                Store => {
                    let a = pop(s)?;
                    let v = pop(s)?;
                    let a = nat(a)?;
                    *m.get_mut(a).ok_or(RErr::Fail)? = v;
                }
                LoadRange => {
                    let len = pop(s)?;
                    let a = pop(s)?;
                    let (a, len) = (nat(a)?, nat(len)?);
                    let end = a.checked_add(len).ok_or(RErr::Fail)?;
                    if end > m.len() {
                        return Err(RErr::Fail);
                    }
                    let ws = m[a..end].to_vec();
                    extend(s, &ws)?;
                }
                StoreRange => {
                    let a = pop(s)?;
                    let len = nat(pop(s)?)?;
                    let ws = pop_n(s, len)?;
                    let a = nat(a)?;
                    let end = a.checked_add(len).ok_or(RErr::Fail)?;
                    if end > m.len() {
                        return Err(RErr::Fail);
                    }
                    m[a..end].copy_from_slice(&ws);
                }
            }
            Ok(Flow::Next)
        }
        Op::ParentMemory(o) => {
            let Some(m) = &vm.parent_memory else {
                return Err(RErr::Fail);
            };
            match o {
                asm::ParentMemory::Load => {
                    let a = nat(pop(s)?)?;
                    let w = *m.get(a).ok_or(RErr::Fail)?;
                    push(s, w)?;
                }
                asm::ParentMemory::LoadRange => {
                    let len = pop(s)?;
                    let a = pop(s)?;
                    let (a, len) = (nat(a)?, nat(len)?);
                    let end = a.checked_add(len).ok_or(RErr::Fail)?;
                    if end > m.len() {
                        return Err(RErr::Fail);
                    }
                    let ws = m[a..end].to_vec();
                    extend(s, &ws)?;
                }
            }
            Ok(Flow::Next)
        }
        Op::TotalControlFlow(o) => {
            use asm::TotalControlFlow::*;
            match o {
                Halt => Ok(Flow::Halt),
                HaltIf => {
                    if boolw(pop(s)?)? {
                        Ok(Flow::Halt)
                    } else {
                        Ok(Flow::Next)
                    }
                }
                JumpIf => {
                    let c = pop(s)?;
                    let d = pop(s)?;
                    if boolw(c)? {
                        if d == 0 {
                            return Err(RErr::Fail);
                        }
                        let t = vm.pc as i128 + d as i128;
                        if t < 0 || t > usize::MAX as i128 {
                            return Err(RErr::Fail);
                        }
                        Ok(Flow::Jump(t as usize))
                    } else {
                        Ok(Flow::Next)
                    }
                }
                PanicIf => {
                    if boolw(pop(s)?)? {
                        Err(RErr::Fail)
                    } else {
                        Ok(Flow::Next)
                    }
                }
            }
        }
        Op::Access(o) => {
            use asm::Access::*;
            let sol = env.solutions().get(env.index()).ok_or(RErr::Fail)?;
            match o {
                ThisAddress => extend(s, &words4(sol.predicate_to_solve.predicate.0))?,
                ThisContractAddress => extend(s, &words4(sol.predicate_to_solve.contract.0))?,
                RepeatCounter => {
                    let Some(slot) = vm.repeat.last() else {
                        return Err(RErr::Fail);
                    };
                    if slot.degenerate {
                        return Err(RErr::Unspecified("RepeatCounter in a loop entered with count<=0"));
                    }
                    let c = slot.counter;
                    push(s, c)?;
                }
                PredicateData => {
                    let len = pop(s)?;
                    let vix = pop(s)?;
                    let slot = pop(s)?;
                    let (len, vix, slot) = (nat(len)?, nat(vix)?, nat(slot)?);
                    let d = sol.predicate_data.get(slot).ok_or(RErr::Fail)?;
                    let end = vix.checked_add(len).ok_or(RErr::Fail)?;
                    if end > d.len() {
                        return Err(RErr::Fail);
                    }
                    let ws = d[vix..end].to_vec();
                    extend(s, &ws)?;
                }
                PredicateDataLen => {
                    let slot = nat(pop(s)?)?;
                    let d = sol.predicate_data.get(slot).ok_or(RErr::Fail)?;
                    push(s, d.len() as W)?;
                }
                PredicateDataSlots => push(s, sol.predicate_data.len() as W)?,
                PredicateExists => {
                    let h = pop_n(s, 4)?;
                    let h = bytes32([h[0], h[1], h[2], h[3]]);
                    let found = env
                        .solutions()
                        .iter()
                        .any(|x| sha256(&predicate_exists_preimage(x)) == h);
                    push(s, found as W)?;
                }
            }
            Ok(Flow::Next)
        }
        Op::Crypto(o) => {
            use asm::Crypto::*;
            match o {
                Sha256 => {
                    let b = pop_bytes(s)?;
                    extend(s, &words4(sha256(&b)))?;
                }
                VerifyEd25519 => {
                    use ed25519_dalek::{Signature, Verifier, VerifyingKey};
                    let key = pop_n(s, 4)?;
                    let sig = pop_n(s, 8)?;
                    let data = pop_bytes(s)?;
                    let key = VerifyingKey::from_bytes(&bytes32([key[0], key[1], key[2], key[3]]))
                        .map_err(|_| RErr::Fail)?;
                    let sig = Signature::from_bytes(&bytes64(&sig));
                    push(s, key.verify(&data, &sig).is_ok() as W)?;
                }
                RecoverSecp256k1 => {
                    let id = pop(s)?;
                    let sig = pop_n(s, 8)?;
                    let h = pop_n(s, 4)?;
                    let id = u8::try_from(id).map_err(|_| RErr::Fail)?;
                    if id > 3 {
                        return Err(RErr::Fail);
                    }
                    let sig = essential_types::Signature(bytes64(&sig), id);
                    // malformed compact signature => error; well-formed but unrecoverable => zeros
                    use secp256k1::ecdsa::{RecoverableSignature, RecoveryId};
                    let rid = RecoveryId::try_from(id as i32).map_err(|_| RErr::Fail)?;
                    RecoverableSignature::from_compact(&sig.0, rid).map_err(|_| RErr::Fail)?;
                    match essential_sign::recover_hash(bytes32([h[0], h[1], h[2], h[3]]), &sig) {
                        Ok(pk) => extend(s, &essential_sign::encode::public_key(&pk))?,
                        Err(_) => extend(s, &[0; 5])?,
                    }
                }
            }
            Ok(Flow::Next)
        }
        Op::StateRead(o) => {
            use asm::StateRead::*;
            let (post, ext) = match o {
                KeyRange => (false, false),
                KeyRangeExtern => (false, true),
                PostKeyRange => (true, false),
                PostKeyRangeExtern => (true, true),
            };
            let addr = pop(s)?;
            let n = pop(s)?;
            let klen = pop(s)?;
            let (addr, n, klen) = (nat(addr)?, nat(n)?, nat(klen)?);
            let key = pop_n(s, klen)?;
            let contract = if ext {
                let a = pop_n(s, 4)?;
                bytes32([a[0], a[1], a[2], a[3]])
            } else {
                let sol = env.solutions().get(env.index()).ok_or(RErr::Fail)?;
                sol.predicate_to_solve.contract.0
            };
            let values = env.key_range(post, contract, &key, n).map_err(RErr::State)?;
            write_values(&mut vm.memory, addr, &values)?;
            Ok(Flow::Next)
        }
        Op::Compute(asm::Compute::ComputeEnd) => Ok(Flow::ComputeEnd),
        Op::Compute(asm::Compute::Compute) => unreachable!("handled by Exec"),
    }
}

#[derive(Clone, Debug, PartialEq, Eq)]
pub struct RExecErr {
    /// Index of the failing top-level operation.
    pub index: usize,
    pub kind: RErr,
    /// The reference reached a program position it cannot read (hole / undecodable).
    pub hole: Option<usize>,
}

#[derive(Clone, Debug, Default)]
pub struct RStats {
    /// Ops executed (all VMs, children included).
    pub ops: u64,
    /// A non-child VM met ComputeEnd (masked convention).
    pub stray_compute_end: bool,
    /// Some compute child ended at or before the Compute's own position.
    pub child_behind_parent: bool,
    pub computes: u64,
    pub max_breadth: i64,
}

pub struct Exec<'a> {
    pub env: &'a dyn RefEnv,
    pub prog: &'a dyn RefProg,
    /// Shared running gas total (u128: "mathematical").
    pub gas: u128,
    pub stats: RStats,
    /// Step horizon (turns non-termination of the reference itself into an error).
    pub horizon: u64,
    /// Observer after each executed op.
    pub on_step: Option<&'a mut dyn FnMut(&RVm)>,
}

impl<'a> Exec<'a> {
    pub fn new(env: &'a dyn RefEnv, prog: &'a dyn RefProg) -> Self {
        Exec {
            env,
            prog,
            gas: 0,
            stats: RStats::default(),
            horizon: 50_000_000,
            on_step: None,
        }
    }

    /// Run `vm` to completion. `child` = this is a compute child.
    pub fn run(&mut self, vm: &mut RVm, child: bool) -> Result<(), RExecErr> {
        loop {
            let Some(op) = self.prog.at(vm.pc) else {
                return Ok(());
            };
            let pc = vm.pc;
            let op = op.map_err(|_| RExecErr {
                index: pc,
                kind: RErr::Fail,
                hole: Some(pc),
            })?;
            let cost = self.env.op_cost(&op) as u128;
            if self.gas + cost > self.env.gas_limit() as u128 {
                return Err(RExecErr {
                    index: pc,
                    kind: RErr::OutOfGas,
                    hole: None,
                });
            }
            self.gas += cost;
            self.stats.ops += 1;
            if self.stats.ops > self.horizon {
                return Err(RExecErr {
                    index: pc,
                    kind: RErr::Unspecified("reference step horizon"),
                    hole: None,
                });
            }
            let flow = self.step_any(vm, &op)?;
            if let Some(f) = self.on_step.as_mut() {
                f(vm);
            }
            match flow {
                Flow::Next => vm.pc += 1,
                Flow::Jump(t) => vm.pc = t,
                Flow::Halt => return Ok(()),
                Flow::ComputeEnd => {
                    if !child {
                        self.stats.stray_compute_end = true;
                    }
                    vm.pc += 1;
                    return Ok(());
                }
            }
        }
    }

    /// One operation (gas for the op itself is the caller's business).
    pub fn step_any(&mut self, vm: &mut RVm, op: &Op) -> Result<Flow, RExecErr> {
        let pc = vm.pc;
        if let Op::Compute(asm::Compute::Compute) = op {
            self.compute(vm)
        } else {
            step_simple(vm, op, self.env).map_err(|kind| RExecErr {
                index: pc,
                kind,
                hole: None,
            })
        }
    }

    fn compute(&mut self, vm: &mut RVm) -> Result<Flow, RExecErr> {
        let pc = vm.pc;
        let fail = |kind: RErr, hole: Option<usize>| RExecErr { index: pc, kind, hole };
        let n = vm.stack.pop().ok_or_else(|| fail(RErr::Fail, None))?;
        if n < 1 {
            return Err(fail(RErr::Fail, None));
        }
        if vm.parent_memory.is_some() {
            // nested compute
            return Err(fail(RErr::Fail, None));
        }
        self.stats.computes += 1;
        self.stats.max_breadth = self.stats.max_breadth.max(n);
        let mut mems: Vec<Vec<W>> = vec![];
        let mut far = pc;
        let mut all_behind = true;
        for i in 0..n {
            let mut st = vm.stack.clone();
            if st.len() >= STACK_LIMIT {
                return Err(fail(RErr::Fail, None));
            }
            st.push(i);
            let mut c = RVm {
                pc: pc + 1,
                stack: st,
                memory: vec![],
                parent_memory: Some(vm.memory.clone()),
                repeat: vm.repeat.clone(),
            };
            match self.run(&mut c, true) {
                Ok(()) => {}
                Err(e) => return Err(fail(e.kind, e.hole)),
            }
            if c.pc > pc {
                all_behind = false;
            }
            far = far.max(c.pc);
            mems.push(c.memory);
        }
        if all_behind {
            self.stats.child_behind_parent = true;
        }
        let add: usize = mems.iter().map(|m| m.len()).sum();
        if vm.memory.len() + add > MEM_LIMIT {
            return Err(fail(RErr::Fail, None));
        }
        for m in mems {
            vm.memory.extend_from_slice(&m);
        }
        Ok(Flow::Jump(far))
    }
}

/// All operations of the instruction set (immediates zero), obtained by decoding every byte.
pub fn all_ops() -> Vec<Op> {
    use essential_asm::opcode::ParseOp;
    let mut v = vec![];
    for b in 0..=255u8 {
        if let Ok(oc) = essential_asm::Opcode::try_from(b) {
            let mut z = std::iter::repeat(0u8);
            if let Ok(op) = oc.parse_op(&mut z) {
                v.push(op);
            }
        }
    }
    v
}

pub fn is_compute(op: &Op) -> bool {
    matches!(op, Op::Compute(asm::Compute::Compute))
}
