//! vcheck — one binary, one subcommand per property.
//!
//!   vcheck <ID> --tier quick|thorough          parent: spawns workers, merges, writes evidence
//!   vcheck <ID> --replay <file>                 re-run one recorded violation
//!   vcheck <ID> --worker k --nworkers n ...     (internal)
//!   vcheck <ID> --run-wal <hex>                 (internal) re-run one write-ahead case

mod ckh;
mod fw;
mod props;

mod refcheck;
mod refvm;
mod sched;
mod util;
mod xplore;

use fw::*;
use serde_json::{json, Value};
use std::process::{Command, Stdio};
use std::time::{Duration, Instant};

pub struct PropSpec {
    pub id: &'static str,
    pub level: &'static str,
    pub rule: &'static str,
    pub assumptions: &'static [&'static str],
    /// Run this worker's share of the exploration.
    pub run: fn(&RunCfg, &mut Report),
    /// Re-run one recorded case; Ok(true) = still violates.
    pub replay: fn(&Value) -> Result<bool, String>,
    /// Decode a write-ahead buffer into a case description (must not execute the case).
    pub describe_wal: Option<fn(&[u8]) -> Value>,
    /// Execute the case of a write-ahead buffer (may die).
    pub run_wal: Option<fn(&[u8])>,
    /// Also run under the overflow-checked profile.
    pub both_profiles: bool,
    /// Worker count (0 = default).
    pub workers: usize,
}

fn usage() -> ! {
    eprintln!("usage: vcheck <ID> --tier quick|thorough | --replay <file>");
    std::process::exit(2)
}

fn main() {
    let args: Vec<String> = std::env::args().collect();
    if args.len() < 2 {
        usage();
    }
    let id = args[1].clone();
    let mut tier = match std::env::var("VERIF_TIER").ok().as_deref() {
        Some("thorough") => Tier::Thorough,
        _ => Tier::Quick,
    };
    let mut tier_explicit = false;
    let mut replay: Option<String> = None;
    let mut worker: Option<usize> = None;
    let mut nworkers = 0usize;
    let mut run_wal: Option<String> = None;
    let mut i = 2;
    while i < args.len() {
        match args[i].as_str() {
            "--tier" => {
                tier = match args.get(i + 1).map(|s| s.as_str()) {
                    Some("quick") => Tier::Quick,
                    Some("thorough") => Tier::Thorough,
                    _ => usage(),
                };
                tier_explicit = true;
                i += 1;
            }
            "quick" => {
                tier = Tier::Quick;
                tier_explicit = true
            }
            "thorough" => {
                tier = Tier::Thorough;
                tier_explicit = true
            }
            "--replay" => {
                replay = args.get(i + 1).cloned();
                i += 1;
            }
            "--worker" => {
                worker = args.get(i + 1).and_then(|s| s.parse().ok());
                i += 1;
            }
            "--nworkers" => {
                nworkers = args.get(i + 1).and_then(|s| s.parse().ok()).unwrap_or(0);
                i += 1;
            }
            "--run-wal" => {
                run_wal = args.get(i + 1).cloned();
                i += 1;
            }
            _ => usage(),
        }
        i += 1;
    }
    let _ = tier_explicit;
    let seed: u64 = std::env::var("VERIF_SEED")
        .ok()
        .and_then(|s| s.parse().ok())
        .unwrap_or(0);
    let Some(spec) = props::all().into_iter().find(|p| p.id == id) else {
        eprintln!("unknown property {id}");
        std::process::exit(2)
    };
    let checked_profile = cfg!(debug_assertions);
    install_panic_hook();

    if let Some(hexs) = run_wal {
        let hexs = match hexs.strip_prefix('@') {
            Some(f) => std::fs::read_to_string(f).unwrap_or_default(),
            None => hexs,
        };
        let bytes = hex::decode(hexs.trim()).unwrap_or_default();
        limit_address_space(8);
        let (_, _, _, wal) = worker_paths(&id, "runwal", std::process::id() as usize);
        wal::install(&wal);
        wal::watchdog(20);
        wal::set(&bytes);
        if let Some(f) = spec.run_wal {
            // A caught panic is a reproducible failure too.
            if fw::catch(|| f(&bytes)).is_err() {
                let _ = std::fs::remove_file(&wal);
                std::process::exit(72);
            }
        }
        let _ = std::fs::remove_file(&wal);
        std::process::exit(0);
    }

    if let Some(path) = replay {
        let body: Value = match std::fs::read(&path)
            .map_err(|e| e.to_string())
            .and_then(|b| serde_json::from_slice(&b).map_err(|e| e.to_string()))
        {
            Ok(v) => v,
            Err(e) => {
                eprintln!("MACHINERY: cannot read replay file {path}: {e}");
                std::process::exit(2)
            }
        };
        let outcome = if body["case"]["kind"] == "wal" {
            // a process-death case: re-run it alone in a subprocess
            let hexs = body["case"]["wal"].as_str().unwrap_or("").to_string();
            let f = verif_root().join("work").join(format!("replay.{}.cand", std::process::id()));
            let _ = std::fs::create_dir_all(f.parent().unwrap());
            let _ = std::fs::write(&f, &hexs);
            let prof = body["case"]["profile"].as_str().unwrap_or("release");
            let exe = std::env::current_exe().unwrap();
            let exe = if prof == "checked" { exe.parent().and_then(|p| p.parent()).map(|p| p.join("checked").join("vcheck")).unwrap_or(exe) } else { exe };
            let st = Command::new(exe).arg(&id).args(["--run-wal", &format!("@{}", f.display())]).stderr(Stdio::null()).status();
            let _ = std::fs::remove_file(&f);
            match st {
                Ok(s) => Ok(!s.success()),
                Err(e) => Err(e.to_string()),
            }
        } else {
            (spec.replay)(&body["case"])
        };
        match outcome {
            Ok(true) => {
                println!("VIOLATION property={id} replay={path}");
                std::process::exit(1)
            }
            Ok(false) => {
                println!("replay {path}: property holds on this case");
                std::process::exit(0)
            }
            Err(e) => {
                eprintln!("MACHINERY: replay failed: {e}");
                std::process::exit(2)
            }
        }
    }

    if let Some(w) = worker {
        // ---- worker ----
        let cfg = RunCfg {
            prop: id.clone(),
            tier,
            seed,
            worker: w,
            nworkers: nworkers.max(1),
            checked_profile,
        };
        limit_address_space(8);
        let prof = if checked_profile { "checked" } else { "release" };
        let (_, _, _, walp) = worker_paths(&id, prof, w);
        wal::install(&walp);
        wal::watchdog(tier.pick(120, 600));
        let mut rep = Report::new();
        (spec.run)(&cfg, &mut rep);
        if let Err(e) = save_worker_report(&cfg, &mut rep) {
            eprintln!("worker {w}: cannot save report: {e}");
            std::process::exit(3);
        }
        std::process::exit(0);
    }

    // ---- parent ----
    let started = Instant::now();
    let n = if spec.workers > 0 {
        spec.workers
    } else {
        std::env::var("VERIF_JOBS")
            .ok()
            .and_then(|s| s.parse().ok())
            .unwrap_or(16)
    };
    let exe = std::env::current_exe().expect("current_exe");
    let mut profiles: Vec<(&str, std::path::PathBuf)> = vec![("release", exe.clone())];
    if spec.both_profiles {
        // sibling profile directory: target/release/vcheck -> target/checked/vcheck
        let checked = exe
            .parent()
            .and_then(|p| p.parent())
            .map(|p| p.join("checked").join("vcheck"));
        match checked {
            Some(p) if p.exists() => profiles.push(("checked", p)),
            _ => {
                eprintln!("MACHINERY: checked-profile binary not found next to {exe:?}");
                std::process::exit(2)
            }
        }
    }
    let mut total = Report::new();
    let timeout = Duration::from_secs(tier.pick(900, 6 * 3600));
    for (pname, pexe) in &profiles {
        // Clear stale partial results.
        for w in 0..n {
            let (a, b, c, d) = worker_paths(&id, pname, w);
            for p in [a, b, c, d] {
                let _ = std::fs::remove_file(p);
            }
        }
        // Both profiles share the machine: run them one after another, n workers each.
        let mut children = vec![];
        for w in 0..n {
            let child = Command::new(pexe)
                .arg(&id)
                .args(["--tier", tier.name()])
                .args(["--worker", &w.to_string()])
                .args(["--nworkers", &n.to_string()])
                .env("VERIF_SEED", seed.to_string())
                .stdin(Stdio::null())
                .spawn();
            match child {
                Ok(c) => children.push((w, c)),
                Err(e) => {
                    eprintln!("MACHINERY: cannot spawn worker: {e}");
                    std::process::exit(2)
                }
            }
        }
        let deadline = Instant::now() + timeout;
        for (w, mut c) in children {
            let status = loop {
                match c.try_wait() {
                    Ok(Some(s)) => break Some(s),
                    Ok(None) => {
                        if Instant::now() > deadline {
                            unsafe {
                                libc::kill(c.id() as i32, libc::SIGTERM);
                            }
                            std::thread::sleep(Duration::from_millis(500));
                            let _ = c.kill();
                            let _ = c.wait();
                            break None;
                        }
                        std::thread::sleep(Duration::from_millis(20));
                    }
                    Err(_) => break None,
                }
            };
            let ok = matches!(status, Some(s) if s.success());
            if ok {
                match load_worker_report(&id, pname, w) {
                    Some(r) => merge_with_sets(&mut total, r),
                    None => total
                        .machinery_errors
                        .push(format!("worker {w} ({pname}) left no report")),
                }
            } else {
                classify_dead_worker(&spec, pname, pexe, w, status, &mut total);
            }
            let (a, b, c2, d) = worker_paths(&id, pname, w);
            for p in [a, b, c2, d] {
                let _ = std::fs::remove_file(p);
            }
        }
    }
    if profiles.len() > 1 {
        total
            .notes
            .push("run under both arithmetic profiles: release (overflow-checks off) and checked (overflow-checks + debug-assertions on)".into());
    }
    let code = finalize(
        Finalize {
            prop: &id,
            tier,
            seed,
            level: spec.level,
            rule: spec.rule,
            assumptions: spec.assumptions.iter().map(|s| s.to_string()).collect(),
            started,
        },
        &mut total,
    );
    std::process::exit(code);
}

/// A worker died (abort, kill, hang). Read its write-ahead case, re-run it alone to see whether
/// the death is reproducible; reproducible = violation of totality, otherwise machinery error.
fn classify_dead_worker(
    spec: &PropSpec,
    pname: &str,
    pexe: &std::path::Path,
    w: usize,
    status: Option<std::process::ExitStatus>,
    total: &mut Report,
) {
    let (_, _, _, walp) = worker_paths(spec.id, pname, w);
    let wal = std::fs::read_to_string(&walp).unwrap_or_default();
    let mut lines = wal.lines();
    let kind = lines.next().unwrap_or("").to_string();
    let candidates: Vec<String> = lines.map(|l| l.to_string()).filter(|l| !l.is_empty()).collect();
    if kind.is_empty() || spec.describe_wal.is_none() || candidates.is_empty() {
        total.machinery_errors.push(format!(
            "worker {w} ({pname}) died with status {status:?}, wal kind '{kind}', no replayable case"
        ));
        return;
    }
    // One candidate per search thread: re-run each alone, twice; a case that dies both times
    // is a verdict. None reproducing = machinery error.
    let mut found = false;
    let cand_file = walp.with_extension("cand");
    for hexs in candidates.iter().take(64) {
        let bytes = hex::decode(hexs).unwrap_or_default();
        if bytes.is_empty() || std::fs::write(&cand_file, hexs).is_err() {
            continue;
        }
        let mut deaths = 0;
        let mut last = String::new();
        for _ in 0..2 {
            let mut c = match Command::new(pexe)
                .arg(spec.id)
                .args(["--run-wal", &format!("@{}", cand_file.display())])
                .stdin(Stdio::null())
                .stderr(Stdio::null())
                .spawn()
            {
                Ok(c) => c,
                Err(_) => break,
            };
            let deadline = Instant::now() + Duration::from_secs(60);
            let st = loop {
                match c.try_wait() {
                    Ok(Some(s)) => break Some(s),
                    Ok(None) if Instant::now() > deadline => {
                        let _ = c.kill();
                        let _ = c.wait();
                        break None;
                    }
                    Ok(None) => std::thread::sleep(Duration::from_millis(20)),
                    Err(_) => break None,
                }
            };
            match st {
                Some(s) if s.success() => break,
                other => {
                    deaths += 1;
                    last = format!("{other:?}");
                }
            }
        }
        if deaths == 2 {
            found = true;
            let desc = (spec.describe_wal.unwrap())(&bytes);
            let clause = if kind == "hang" || kind == "killed-by-parent" { "terminates" } else { "no_abort" };
            let sig = Signature::new(spec.id, clause).site(format!("{kind}/{pname}"));
            total.violate(
                || {
                    viol(
                        sig,
                        json!({"kind": "wal", "wal": hexs, "profile": pname, "decoded": desc}),
                        json!("returns Ok or a typed Err"),
                        json!(format!("process died: {kind}; alone: {last}")),
                        String::new(),
                    )
                },
                None,
            );
        }
    }
    let _ = std::fs::remove_file(&cand_file);
    if !found {
        total.machinery_errors.push(format!(
            "worker {w} ({pname}) died ({kind}, {status:?}) but none of its {} write-ahead cases reproduces the death alone",
            candidates.len()
        ));
    }
}
