//! Binds the harness to the REAL text of the lock crate.
//!
//! Reads the lock source (default `/repo/crates/lock/src/lib.rs`, override with `LOCKMC_LOCK_SRC`),
//! strips crate-level inner attributes / inner doc comments, and emits two token-level rewrites
//! into `OUT_DIR`:
//!   * `lock_loom.rs`    : `std::sync` -> `loom::sync`,    `std::thread` -> `loom::thread`
//!   * `lock_shuttle.rs` : `std::sync` -> `shuttle::sync`, `std::thread` -> `shuttle::thread`
//! Everything else is the repository's text, byte for byte.
//!
//! The build FAILS with `binding lost: ...` if the rewritten text could contain a synchronisation
//! primitive or shared state that the model checkers cannot see.

use std::env;
use std::fs;
use std::path::PathBuf;

const DEFAULT_SRC: &str = "/repo/crates/lock/src/lib.rs";

/// `std::X` / `core::X` / `alloc::X` roots that carry no shared state or blocking primitive.
const STD_ALLOW: &[&str] = &[
    "mem", "ops", "fmt", "marker", "option", "result", "clone", "default", "convert", "borrow",
    "boxed", "vec", "string", "collections", "cmp", "iter", "panic", "error", "any", "hash", "num",
    "ptr", "slice", "str", "primitive", "prelude", "time", "pin", "future", "task", "debug_assert",
    "assert", "assert_eq", "assert_ne", "unreachable", "panic", "matches", "write", "writeln",
    "format", "todo", "unimplemented", "concat", "stringify", "line", "file", "column",
];

/// Literal substrings that must not occur in the rewritten *code* (comments and string literals
/// are blanked before this check).
const FORBIDDEN_SUBSTR: &[&str] = &[
    "std::sync",
    "parking_lot",
    "spin::",
    "core::sync::atomic",
    "core::sync",
    "std::cell",
    "core::cell",
    "thread_local",
    "lazy_static",
    "once_cell",
    "crossbeam",
    "include!",
    "include_str!",
    "#[path",
    "extern crate",
    "std::{",
    "core::{",
    "::std::{",
];

#[derive(Clone, Copy, PartialEq, Eq, Debug)]
enum Kind {
    Code,
    /// Comment / string contents: never matched, kept verbatim in the output.
    Opaque,
    /// `//!`, `/*! */` at any depth-0 position, and `#![...]` at brace depth 0: removed.
    Strip,
}

/// Classify every byte of `src`.
fn classify(src: &str) -> Vec<Kind> {
    let b = src.as_bytes();
    let n = b.len();
    let mut k = vec![Kind::Code; n];
    let mut i = 0;
    let mut depth: i64 = 0;
    while i < n {
        let c = b[i];
        // line comment
        if c == b'/' && i + 1 < n && b[i + 1] == b'/' {
            let start = i;
            while i < n && b[i] != b'\n' {
                i += 1;
            }
            let inner = src[start..i].starts_with("//!");
            let kind = if inner && depth == 0 { Kind::Strip } else { Kind::Opaque };
            for x in &mut k[start..i] {
                *x = kind;
            }
            continue;
        }
        // block comment (nested)
        if c == b'/' && i + 1 < n && b[i + 1] == b'*' {
            let start = i;
            let mut d = 0;
            while i < n {
                if i + 1 < n && b[i] == b'/' && b[i + 1] == b'*' {
                    d += 1;
                    i += 2;
                } else if i + 1 < n && b[i] == b'*' && b[i + 1] == b'/' {
                    d -= 1;
                    i += 2;
                    if d == 0 {
                        break;
                    }
                } else {
                    i += 1;
                }
            }
            let inner = src[start..i].starts_with("/*!");
            let kind = if inner && depth == 0 { Kind::Strip } else { Kind::Opaque };
            for x in &mut k[start..i] {
                *x = kind;
            }
            continue;
        }
        // raw strings r"..", r#".."#, br#".."#
        if (c == b'r' || (c == b'b' && i + 1 < n && b[i + 1] == b'r'))
            && (i == 0 || !is_ident(b[i - 1]))
        {
            let mut j = i + if c == b'b' { 2 } else { 1 };
            let mut hashes = 0;
            while j < n && b[j] == b'#' {
                hashes += 1;
                j += 1;
            }
            if j < n && b[j] == b'"' {
                let start = i;
                j += 1;
                'outer: while j < n {
                    if b[j] == b'"' {
                        let mut h = 0;
                        while h < hashes && j + 1 + h < n && b[j + 1 + h] == b'#' {
                            h += 1;
                        }
                        if h == hashes {
                            j += 1 + hashes;
                            break 'outer;
                        }
                    }
                    j += 1;
                }
                for x in &mut k[start..j.min(n)] {
                    *x = Kind::Opaque;
                }
                i = j;
                continue;
            }
        }
        // ordinary / byte string
        if c == b'"' {
            let start = i;
            i += 1;
            while i < n && b[i] != b'"' {
                if b[i] == b'\\' {
                    i += 1;
                }
                i += 1;
            }
            i = (i + 1).min(n);
            // keep the quotes as code so that `expect("..")` still tokenises sanely
            for x in &mut k[start + 1..i.saturating_sub(1).max(start + 1)] {
                *x = Kind::Opaque;
            }
            continue;
        }
        // char literal vs lifetime
        if c == b'\'' {
            // char literal: '\x', 'c' (possibly multibyte) followed by closing quote
            if i + 1 < n && b[i + 1] == b'\\' {
                let start = i;
                i += 2;
                while i < n && b[i] != b'\'' {
                    i += 1;
                }
                i = (i + 1).min(n);
                for x in &mut k[start..i] {
                    *x = Kind::Opaque;
                }
                continue;
            }
            let rest = &src[i + 1..];
            if let Some(ch) = rest.chars().next() {
                let l = ch.len_utf8();
                if i + 1 + l < n && b[i + 1 + l] == b'\'' {
                    for x in &mut k[i..i + 2 + l] {
                        *x = Kind::Opaque;
                    }
                    i += 2 + l;
                    continue;
                }
            }
            // lifetime: mark the quote + ident as opaque so `'static` never reads as `static`
            let start = i;
            i += 1;
            while i < n && is_ident(b[i]) {
                i += 1;
            }
            for x in &mut k[start..i] {
                *x = Kind::Opaque;
            }
            continue;
        }
        // crate-level inner attribute
        if c == b'#' && depth == 0 {
            let mut j = i + 1;
            while j < n && (b[j] as char).is_whitespace() {
                j += 1;
            }
            if j < n && b[j] == b'!' {
                j += 1;
                while j < n && (b[j] as char).is_whitespace() {
                    j += 1;
                }
                if j < n && b[j] == b'[' {
                    // bracket-match (strings inside attributes handled coarsely)
                    let mut d = 0;
                    let mut in_str = false;
                    while j < n {
                        let ch = b[j];
                        if in_str {
                            if ch == b'\\' {
                                j += 1;
                            } else if ch == b'"' {
                                in_str = false;
                            }
                        } else if ch == b'"' {
                            in_str = true;
                        } else if ch == b'[' {
                            d += 1;
                        } else if ch == b']' {
                            d -= 1;
                            if d == 0 {
                                j += 1;
                                break;
                            }
                        }
                        j += 1;
                    }
                    for x in &mut k[i..j.min(n)] {
                        *x = Kind::Strip;
                    }
                    i = j;
                    continue;
                }
            }
        }
        if c == b'{' {
            depth += 1;
        } else if c == b'}' {
            depth -= 1;
        }
        i += 1;
    }
    k
}

fn is_ident(c: u8) -> bool {
    c.is_ascii_alphanumeric() || c == b'_' || c >= 0x80
}

#[derive(Debug, Clone)]
struct Tok {
    start: usize,
    end: usize,
    text: String,
}

/// Identifier and `::` tokens of the code bytes (everything else acts as a separator token `?`).
fn tokens(src: &str, kinds: &[Kind]) -> Vec<Tok> {
    let b = src.as_bytes();
    let mut out = Vec::new();
    let mut i = 0;
    while i < b.len() {
        if kinds[i] != Kind::Code {
            // opaque / stripped regions separate tokens
            if out.last().map(|t: &Tok| t.text != "?").unwrap_or(true) {
                out.push(Tok { start: i, end: i, text: "?".into() });
            }
            i += 1;
            continue;
        }
        let c = b[i];
        if (c as char).is_whitespace() {
            i += 1;
            continue;
        }
        if is_ident(c) {
            let s = i;
            while i < b.len() && kinds[i] == Kind::Code && is_ident(b[i]) {
                i += 1;
            }
            out.push(Tok { start: s, end: i, text: src[s..i].to_string() });
            continue;
        }
        if c == b':' && i + 1 < b.len() && b[i + 1] == b':' && kinds[i + 1] == Kind::Code {
            out.push(Tok { start: i, end: i + 2, text: "::".into() });
            i += 2;
            continue;
        }
        out.push(Tok { start: i, end: i + 1, text: (c as char).to_string() });
        i += 1;
    }
    out
}

/// Parse a use tree starting at token `i`; returns flat (path, alias) pairs and the index after it.
fn use_tree(toks: &[Tok], mut i: usize, prefix: Vec<String>, out: &mut Vec<(Vec<String>, Option<String>)>) -> Option<usize> {
    let mut path = prefix;
    loop {
        let t = toks.get(i)?;
        if t.text == "{" {
            i += 1;
            loop {
                if toks.get(i)?.text == "}" {
                    return Some(i + 1);
                }
                i = use_tree(toks, i, path.clone(), out)?;
                if toks.get(i)?.text == "," {
                    i += 1;
                }
            }
        }
        if !t.text.bytes().next().map(is_ident).unwrap_or(false) && t.text != "*" {
            return None;
        }
        path.push(t.text.clone());
        i += 1;
        if toks.get(i)?.text == "::" {
            i += 1;
            continue;
        }
        let mut alias = None;
        if toks.get(i)?.text == "as" {
            alias = Some(toks.get(i + 1)?.text.clone());
            i += 2;
        }
        out.push((path, alias));
        return Some(i);
    }
}

/// `use std::{a::B, c::{D, E}};` -> `use std::a::B; use std::c::D; use std::c::E;` (same for `core`),
/// so that the path-by-path re-binding below sees every item. Line structure is kept.
fn flatten_std_uses(src: &str) -> String {
    let kinds = classify(src);
    let toks = tokens(src, &kinds);
    let mut edits: Vec<(usize, usize, String)> = vec![];
    let mut i = 0;
    while i + 3 < toks.len() {
        let root = toks[i + 1].text.as_str();
        if toks[i].text == "use" && (root == "std" || root == "core") && toks[i + 2].text == "::" && toks[i + 3].text == "{" {
            let mut flat = vec![];
            if let Some(end) = use_tree(&toks, i + 1, vec![], &mut flat) {
                if toks.get(end).map(|t| t.text == ";").unwrap_or(false) {
                    let mut text = String::new();
                    for (k, (p, alias)) in flat.iter().enumerate() {
                        let p: Vec<String> = if p.last().map(|s| s == "self").unwrap_or(false) { p[..p.len() - 1].to_vec() } else { p.clone() };
                        if k > 0 {
                            text.push_str(" use ");
                        }
                        text.push_str(&p.join("::"));
                        if let Some(a) = alias {
                            text.push_str(" as ");
                            text.push_str(a);
                        }
                        if k + 1 < flat.len() {
                            text.push(';');
                        }
                    }
                    let newlines = src[toks[i + 1].start..toks[end].start].matches('\n').count();
                    text.push_str(&"\n".repeat(newlines));
                    edits.push((toks[i + 1].start, toks[end].start, text));
                    i = end;
                    continue;
                }
            }
        }
        i += 1;
    }
    let mut out = String::with_capacity(src.len());
    let mut pos = 0;
    for (s, e, r) in edits {
        out.push_str(&src[pos..s]);
        out.push_str(&r);
        pos = e;
    }
    out.push_str(&src[pos..]);
    out
}

struct Rewritten {
    text: String,
    sync_rewrites: usize,
    thread_rewrites: usize,
}

fn rewrite(src: &str, tool: &str) -> Rewritten {
    let kinds = classify(src);
    let toks = tokens(src, &kinds);
    // edits: (start, end, replacement) on the original text
    let mut edits: Vec<(usize, usize, String)> = Vec::new();
    let mut sync_rewrites = 0;
    let mut thread_rewrites = 0;
    let mut i = 0;
    while i + 2 < toks.len() {
        let is_root = toks[i].text == "std";
        // `std` must be a path root: not preceded by `::` + ident (e.g. `foo::std::sync`),
        // a leading `::std` is fine.
        let rooted = i == 0
            || toks[i - 1].text != "::"
            || i < 2
            || !toks[i - 2].text.bytes().next().map(is_ident).unwrap_or(false);
        if is_root && rooted && toks[i + 1].text == "::" {
            let seg = toks[i + 2].text.as_str();
            if seg == "cell" {
                // `std::cell::UnsafeCell` -> the harness's `crate::stdcell::UnsafeCell` (std's type,
                // re-exported): invisible to the tools, but a lock built on it still has to go
                // through tool atomics (checked below), and the guarded value's own tool atomics
                // expose any overlap of two critical sections.
                let mut s = toks[i].start;
                if i >= 1 && toks[i - 1].text == "::" {
                    s = toks[i - 1].start;
                }
                edits.push((s, toks[i + 2].end, "crate::stdcell".to_string()));
                i += 3;
                continue;
            }
            if seg == "sync" || seg == "thread" || seg == "hint" {
                // replace only the `std` token: `std::sync::Mutex` -> `loom::sync::Mutex`;
                // a leading `::` (`::std::sync`) is replaced together with it.
                let mut s = toks[i].start;
                if i >= 1 && toks[i - 1].text == "::" {
                    s = toks[i - 1].start;
                }
                edits.push((s, toks[i].end, tool.to_string()));
                if seg == "sync" {
                    sync_rewrites += 1;
                } else {
                    thread_rewrites += 1;
                }
                i += 3;
                continue;
            }
        }
        i += 1;
    }
    // apply edits + strips
    let mut out = String::with_capacity(src.len() + 64);
    let mut pos = 0;
    let mut e = 0;
    let b = src.as_bytes();
    while pos < b.len() {
        if e < edits.len() && edits[e].0 == pos {
            out.push_str(&edits[e].2);
            pos = edits[e].1;
            e += 1;
            continue;
        }
        if kinds[pos] == Kind::Strip {
            // keep newlines so that line numbers in compiler / loom messages match the repo file
            if b[pos] == b'\n' {
                out.push('\n');
            }
            pos += 1;
            continue;
        }
        // copy one UTF-8 char
        let ch = src[pos..].chars().next().unwrap();
        out.push(ch);
        pos += ch.len_utf8();
    }
    Rewritten { text: out, sync_rewrites, thread_rewrites }
}

/// Code-only view (comments / string contents / lifetimes blanked) used by the safety checks.
fn code_only(src: &str) -> String {
    let kinds = classify(src);
    let mut s = String::with_capacity(src.len());
    for (i, ch) in src.char_indices() {
        if kinds[i] == Kind::Code {
            s.push(ch);
        } else if ch == '\n' {
            s.push('\n');
        } else {
            s.push(' ');
        }
    }
    s
}

fn check(rew: &Rewritten, tool: &str, src_path: &str) {
    let code = code_only(&rew.text);
    let kinds = classify(&rew.text);
    let toks = tokens(&rew.text, &kinds);
    let squeezed: String = code.chars().filter(|c| !c.is_whitespace()).collect();

    // (a) the lock primitive must have been re-bound to the tool
    // (a hand-rolled lock on atomics counts too: the atomics are the tool's after the rewrite)
    let has_prim = toks.iter().any(|t| t.text == "Mutex" || t.text == "RwLock" || t.text.starts_with("Atomic"));
    if rew.sync_rewrites == 0 || !has_prim {
        panic!(
            "binding lost: no `std::sync::Mutex` (or `std::sync::RwLock`) path found/replaced in {} \
             [{} `std::sync` rewrites, lock primitive token present: {}] (tool {})",
            src_path, rew.sync_rewrites, has_prim, tool
        );
    }
    // every Mutex / RwLock / Condvar / atomic ident must be reachable only through the tool: since
    // no unvetted `std::`/`core::` path survives (checked below) and the harness crate has no other
    // dependencies, an unqualified `Mutex` can only come from a rewritten `use`.

    // (b) forbidden residue
    for f in FORBIDDEN_SUBSTR {
        let fs: String = f.chars().filter(|c| !c.is_whitespace()).collect();
        if squeezed.contains(&fs) {
            panic!("binding lost: rewritten text of {} still mentions `{}` (tool {})", src_path, f, tool);
        }
    }
    for (i, t) in toks.iter().enumerate() {
        if t.text == "static" {
            panic!(
                "binding lost: rewritten text of {} still mentions `static ` item at byte {} (tool {})",
                src_path, t.start, tool
            );
        }
        if t.text == "mod" && toks.get(i + 2).map(|x| x.text == ";").unwrap_or(false) {
            panic!(
                "binding lost: rewritten text of {} declares external module `mod {};` (tool {})",
                src_path,
                toks[i + 1].text,
                tool
            );
        }
        if (t.text == "std" || t.text == "core" || t.text == "alloc")
            && toks.get(i + 1).map(|x| x.text == "::").unwrap_or(false)
        {
            let preceded_by_path = i >= 2
                && toks[i - 1].text == "::"
                && toks[i - 2].text.bytes().next().map(is_ident).unwrap_or(false);
            if preceded_by_path {
                continue;
            }
            let seg = toks.get(i + 2).map(|x| x.text.as_str()).unwrap_or("");
            if !STD_ALLOW.contains(&seg) {
                panic!(
                    "binding lost: rewritten text of {} still mentions unvetted path `{}::{}` (tool {})",
                    src_path, t.text, seg, tool
                );
            }
        }
        if (t.text == "std" || t.text == "core")
            && toks.get(i + 1).map(|x| x.text != "::").unwrap_or(true)
            && !(i >= 1 && toks[i - 1].text == "::")
        {
            panic!(
                "binding lost: rewritten text of {} uses bare `{}` (re-export / alias of the standard library) (tool {})",
                src_path, t.text, tool
            );
        }
    }
}

fn fnv64(data: &[u8]) -> u64 {
    let mut h: u64 = 0xcbf29ce484222325;
    for b in data {
        h ^= *b as u64;
        h = h.wrapping_mul(0x100000001b3);
    }
    h
}

fn main() {
    println!("cargo:rerun-if-env-changed=LOCKMC_LOCK_SRC");
    println!("cargo:rerun-if-changed=build.rs");
    let src_path = env::var("LOCKMC_LOCK_SRC").unwrap_or_else(|_| DEFAULT_SRC.to_string());
    println!("cargo:rerun-if-changed={}", src_path);
    let src = fs::read_to_string(&src_path)
        .unwrap_or_else(|e| panic!("binding lost: cannot read lock source {}: {}", src_path, e));
    let src = flatten_std_uses(&src);
    let out_dir = PathBuf::from(env::var("OUT_DIR").unwrap());

    let mut n_sync = 0;
    let mut n_thread = 0;
    for (tool, file) in [("loom", "lock_loom.rs"), ("shuttle", "lock_shuttle.rs")] {
        let rew = rewrite(&src, tool);
        check(&rew, tool, &src_path);
        n_sync = rew.sync_rewrites;
        n_thread = rew.thread_rewrites;
        fs::write(out_dir.join(file), &rew.text).unwrap();
    }
    println!("cargo:rustc-env=LOCKMC_LOCK_SRC_RESOLVED={}", src_path);
    println!("cargo:rustc-env=LOCKMC_LOCK_SRC_FNV64={:016x}", fnv64(src.as_bytes()));
    println!("cargo:rustc-env=LOCKMC_SYNC_REWRITES={}", n_sync);
    println!("cargo:rustc-env=LOCKMC_THREAD_REWRITES={}", n_thread);
}
