//! Generator-stack cache for loom children (performance only, no effect on what is explored).
//!
//! loom creates one `generator` coroutine per modelled thread per execution, and `generator`
//! mmap()s, mprotect()s (guard page) and munmap()s a fresh stack every time: 3 page-table
//! operations + first-touch page faults per thread per execution. On the sandbox VMs this harness
//! runs on, those operations dominate loom's run time (70 % sys) and become ~10x slower as soon as
//! other cores are busy (measured: the same 7.5k-execution scenario takes 1.2 s alone, 9.6 s next
//! to eight pure CPU spinners).
//!
//! Because `generator` is linked statically into this executable, defining `mmap` / `munmap` /
//! `mprotect` here makes its calls resolve to these functions. They forward everything to the
//! kernel unchanged, except that, once `enable()` has been called (loom children only), anonymous
//! `MAP_STACK` mappings are parked in a small free list on munmap and handed out again on the next
//! mmap of the same length, with the guard page left in place.
//!
//! Disable with `LOCKMC_NO_STACK_CACHE=1`.

#![allow(clippy::missing_safety_doc)]

#[cfg(all(target_os = "linux", any(target_arch = "x86_64", target_arch = "aarch64")))]
mod imp {
    use libc::{c_int, c_long, c_void, off_t, size_t};
    use std::sync::atomic::{AtomicBool, Ordering};

    pub static ENABLED: AtomicBool = AtomicBool::new(false);
    static LOCK: AtomicBool = AtomicBool::new(false);

    #[derive(Clone, Copy)]
    struct Slot {
        ptr: usize,
        len: usize,
        guarded: bool,
        in_use: bool,
    }
    const N: usize = 64;
    static mut SLOTS: [Slot; N] = [Slot { ptr: 0, len: 0, guarded: false, in_use: false }; N];

    struct Guard;
    fn lock() -> Guard {
        while LOCK.compare_exchange_weak(false, true, Ordering::Acquire, Ordering::Relaxed).is_err() {
            std::hint::spin_loop();
        }
        Guard
    }
    impl Drop for Guard {
        fn drop(&mut self) {
            LOCK.store(false, Ordering::Release);
        }
    }

    unsafe fn real_mmap(addr: *mut c_void, len: size_t, prot: c_int, flags: c_int, fd: c_int, off: off_t) -> *mut c_void {
        let r: c_long = libc::syscall(libc::SYS_mmap, addr, len, prot, flags, fd, off);
        r as usize as *mut c_void // -1 (MAP_FAILED) on error, errno set by syscall()
    }
    unsafe fn real_munmap(addr: *mut c_void, len: size_t) -> c_int {
        libc::syscall(libc::SYS_munmap, addr, len) as c_int
    }
    unsafe fn real_mprotect(addr: *mut c_void, len: size_t, prot: c_int) -> c_int {
        libc::syscall(libc::SYS_mprotect, addr, len, prot) as c_int
    }

    #[no_mangle]
    pub unsafe extern "C" fn mmap(addr: *mut c_void, len: size_t, prot: c_int, flags: c_int, fd: c_int, off: off_t) -> *mut c_void {
        let cacheable = ENABLED.load(Ordering::Relaxed)
            && addr.is_null()
            && fd == -1
            && (flags & libc::MAP_STACK) != 0
            && (flags & libc::MAP_ANONYMOUS) != 0
            && (flags & libc::MAP_FIXED) == 0
            && prot == (libc::PROT_READ | libc::PROT_WRITE);
        if !cacheable {
            return real_mmap(addr, len, prot, flags, fd, off);
        }
        let _g = lock();
        let slots = &mut *std::ptr::addr_of_mut!(SLOTS);
        for s in slots.iter_mut() {
            if s.ptr != 0 && !s.in_use && s.len == len {
                s.in_use = true;
                return s.ptr as *mut c_void;
            }
        }
        let p = real_mmap(addr, len, prot, flags, fd, off);
        if p != libc::MAP_FAILED {
            for s in slots.iter_mut() {
                if s.ptr == 0 {
                    *s = Slot { ptr: p as usize, len, guarded: false, in_use: true };
                    break;
                }
            }
        }
        p
    }

    #[no_mangle]
    pub unsafe extern "C" fn munmap(addr: *mut c_void, len: size_t) -> c_int {
        if ENABLED.load(Ordering::Relaxed) {
            let _g = lock();
            let slots = &mut *std::ptr::addr_of_mut!(SLOTS);
            for s in slots.iter_mut() {
                if s.ptr == addr as usize && s.ptr != 0 {
                    if s.in_use && s.len == len {
                        s.in_use = false; // parked, mapping (and guard page) kept
                        return 0;
                    }
                    // anything unexpected: forget the slot and let the kernel do it
                    *s = Slot { ptr: 0, len: 0, guarded: false, in_use: false };
                    break;
                }
            }
        }
        real_munmap(addr, len)
    }

    #[no_mangle]
    pub unsafe extern "C" fn mprotect(addr: *mut c_void, len: size_t, prot: c_int) -> c_int {
        if ENABLED.load(Ordering::Relaxed) {
            let _g = lock();
            let slots = &mut *std::ptr::addr_of_mut!(SLOTS);
            for s in slots.iter_mut() {
                if s.ptr != 0 && s.ptr == addr as usize {
                    if prot == libc::PROT_NONE && s.guarded {
                        return 0; // guard page at the bottom of a recycled stack is still there
                    }
                    let r = real_mprotect(addr, len, prot);
                    s.guarded = r == 0 && prot == libc::PROT_NONE;
                    return r;
                }
            }
        }
        real_mprotect(addr, len, prot)
    }
}

/// Whether the cache can be used in this build / environment.
pub fn available() -> bool {
    cfg!(all(target_os = "linux", any(target_arch = "x86_64", target_arch = "aarch64")))
        && std::env::var_os("LOCKMC_NO_STACK_CACHE").is_none()
}

/// Turn the cache on (called by loom children before the model runs).
pub fn enable() {
    #[cfg(all(target_os = "linux", any(target_arch = "x86_64", target_arch = "aarch64")))]
    {
        if std::env::var_os("LOCKMC_NO_STACK_CACHE").is_none() {
            imp::ENABLED.store(true, std::sync::atomic::Ordering::Relaxed);
        }
    }
}
