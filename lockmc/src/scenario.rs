//! Scenario descriptions, names (fully parameter-encoding, so `--scenario <name>` and replay files
//! need nothing else) and the two tiers.

use serde_json::{json, Value};

#[derive(Clone, Copy, Debug, PartialEq, Eq)]
pub enum Tool {
    Loom,
    Shuttle,
}

/// What the lock guards.
#[derive(Clone, Copy, Debug, PartialEq, Eq)]
pub enum Cell {
    /// two tool atomics `a`, `b` (torn update = a != b) + a pad atomic for visible steps
    Atomic,
    /// loom `UnsafeCell<(usize, usize)>`: loom's own race detector fires on overlap (loom only)
    Unsafe,
}

#[derive(Clone, Copy, Debug, PartialEq, Eq)]
pub enum Mode {
    /// one lock
    Single,
    /// two locks; every call applies to A, releases, then applies to B (never nested)
    Seq,
    /// two locks; even threads use A, odd threads use B
    Split,
}

#[derive(Clone, Copy, Debug, PartialEq, Eq)]
pub enum Dur {
    /// every closure takes this many extra visible steps inside the critical section
    Fixed(usize),
    /// (thread + call + lock) % 3 extra steps: closures of different length compete
    Mix,
}

#[derive(Clone, Debug)]
pub struct Scenario {
    pub tool: Tool,
    pub cell: Cell,
    pub threads: usize,
    pub calls: usize,
    pub locks: usize,
    pub mode: Mode,
    pub duration: Dur,
    /// preemption bound (None = unbounded)
    pub bound: Option<usize>,
    pub cap_execs: u64,
    pub cap_secs: u64,
}

impl Scenario {
    pub fn lock_indices(&self, t: usize, _c: usize) -> Vec<usize> {
        match self.mode {
            Mode::Single => vec![0],
            Mode::Seq => vec![0, 1],
            Mode::Split => vec![t % 2],
        }
    }
    pub fn duration_of(&self, t: usize, c: usize, li: usize) -> usize {
        match self.duration {
            Dur::Fixed(k) => k,
            Dur::Mix => (t + c + li) % 3,
        }
    }
    pub fn expected_calls_on(&self, li: usize) -> usize {
        match self.mode {
            Mode::Single | Mode::Seq => self.threads * self.calls,
            Mode::Split => (0..self.threads).filter(|t| t % 2 == li).count() * self.calls,
        }
    }

    pub fn name(&self) -> String {
        format!(
            "{}_{}_t{}_c{}_{}_d{}_pb{}",
            match self.tool {
                Tool::Loom => "loom",
                Tool::Shuttle => "shuttle",
            },
            match self.cell {
                Cell::Atomic => "atomic",
                Cell::Unsafe => "unsafecell",
            },
            self.threads,
            self.calls,
            match self.mode {
                Mode::Single => "l1",
                Mode::Seq => "l2seq",
                Mode::Split => "l2split",
            },
            match self.duration {
                Dur::Fixed(k) => k.to_string(),
                Dur::Mix => "mix".to_string(),
            },
            match self.bound {
                Some(b) => b.to_string(),
                None => "inf".to_string(),
            }
        )
    }

    pub fn from_name(name: &str) -> Option<Scenario> {
        let p: Vec<&str> = name.split('_').collect();
        if p.len() != 7 {
            return None;
        }
        let tool = match p[0] {
            "loom" => Tool::Loom,
            "shuttle" => Tool::Shuttle,
            _ => return None,
        };
        let cell = match p[1] {
            "atomic" => Cell::Atomic,
            "unsafecell" if tool == Tool::Loom => Cell::Unsafe,
            _ => return None,
        };
        let threads: usize = p[2].strip_prefix('t')?.parse().ok()?;
        let calls: usize = p[3].strip_prefix('c')?.parse().ok()?;
        let (locks, mode) = match p[4] {
            "l1" => (1, Mode::Single),
            "l2seq" => (2, Mode::Seq),
            "l2split" => (2, Mode::Split),
            _ => return None,
        };
        let duration = match p[5].strip_prefix('d')? {
            "mix" => Dur::Mix,
            k => Dur::Fixed(k.parse().ok()?),
        };
        let bound = match p[6].strip_prefix("pb")? {
            "inf" => None,
            k => Some(k.parse().ok()?),
        };
        if threads < 1 || calls < 1 || threads > 64 || calls > 64 {
            return None;
        }
        if tool == Tool::Loom && threads > 4 {
            return None; // loom MAX_THREADS = 5 including main
        }
        Some(Scenario { tool, cell, threads, calls, locks, mode, duration, bound, cap_execs: 2_000_000, cap_secs: 25 })
    }

    pub fn to_json(&self) -> Value {
        json!({
            "name": self.name(),
            "tool": match self.tool { Tool::Loom => "loom", Tool::Shuttle => "shuttle" },
            "cell": match self.cell { Cell::Atomic => "atomic", Cell::Unsafe => "unsafecell" },
            "threads": self.threads,
            "calls": self.calls,
            "locks": self.locks,
            "lock_mode": match self.mode { Mode::Single => "single", Mode::Seq => "A-then-B", Mode::Split => "even:A odd:B" },
            "duration": match self.duration { Dur::Fixed(k) => json!(k), Dur::Mix => json!("mix") },
            "bound": self.bound,
            "cap_execs": self.cap_execs,
            "cap_secs": self.cap_secs,
        })
    }
}

fn sc(name: &str, cap_execs: u64, cap_secs: u64) -> Scenario {
    let mut s = Scenario::from_name(name).unwrap_or_else(|| panic!("bad built-in scenario name {}", name));
    s.cap_execs = cap_execs;
    s.cap_secs = cap_secs;
    s
}

/// The scenario list of a tier, most expensive first (the parallel runner starts them in order).
pub fn tier(t: &str) -> Option<Vec<Scenario>> {
    match t {
        "quick" => Some(quick()),
        "thorough" => Some(thorough()),
        _ => None,
    }
}

fn quick() -> Vec<Scenario> {
    const E: u64 = 3_000_000;
    const S: u64 = 20;
    let mut v = Vec::new();
    for n in [
        // the two heaviest of each tool first
        "loom_atomic_t4_c2_l2seq_d1_pb2",
        "shuttle_atomic_t8_c1_l1_d0_pb0",
        "shuttle_atomic_t4_c1_l2split_dmix_pb2",
        "shuttle_atomic_t4_c1_l1_d0_pb2",
        "loom_atomic_t4_c1_l2seq_d2_pb2",
        "loom_atomic_t4_c2_l1_d0_pb2",
        // loom, preemption bound 2: every (threads, calls, locks) shape, durations rotated
        "loom_atomic_t4_c2_l2split_dmix_pb2",
        "loom_atomic_t4_c1_l1_dmix_pb2",
        "loom_atomic_t4_c1_l2split_d2_pb2",
        "loom_atomic_t3_c2_l2seq_d0_pb2",
        "loom_atomic_t3_c2_l1_d1_pb2",
        "loom_atomic_t3_c2_l2split_dmix_pb2",
        "loom_atomic_t3_c1_l2seq_d1_pb2",
        "loom_atomic_t3_c1_l1_d2_pb2",
        "loom_atomic_t3_c1_l2split_d0_pb2",
        "loom_atomic_t2_c2_l2seq_dmix_pb2",
        "loom_atomic_t2_c2_l1_d2_pb2",
        "loom_atomic_t2_c2_l2split_d1_pb2",
        "loom_atomic_t2_c1_l2seq_d2_pb2",
        "loom_atomic_t2_c1_l1_d0_pb2",
        "loom_atomic_t2_c1_l2split_d1_pb2",
        "loom_unsafecell_t4_c2_l1_d0_pb2",
        "loom_unsafecell_t4_c1_l1_d1_pb2",
        "loom_unsafecell_t3_c2_l1_dmix_pb2",
        "loom_unsafecell_t3_c1_l1_d2_pb2",
        "loom_unsafecell_t2_c2_l1_d1_pb2",
        // shuttle: small instances, own preemption-bounded DFS
        "shuttle_atomic_t3_c1_l2seq_d1_pb2",
        "shuttle_atomic_t3_c2_l1_d1_pb2",
        "shuttle_atomic_t3_c1_l1_d1_pb2",
        "shuttle_atomic_t6_c1_l1_d2_pb0",
        "shuttle_atomic_t2_c2_l1_d1_pb2",
        "shuttle_atomic_t2_c1_l1_d0_pbinf",
    ] {
        v.push(sc(n, E, S));
    }
    // 16 threads: 16! orders even without any preemption; a fixed-size prefix of the DFS
    v.push(sc("shuttle_atomic_t16_c1_l1_d0_pb0", 50_000, S));
    v
}

fn thorough() -> Vec<Scenario> {
    const E: u64 = 1_000_000_000;
    const S: u64 = 240;
    let durs = ["0", "1", "2", "mix"];
    let mut heavy: Vec<String> = Vec::new();
    let mut rest: Vec<String> = Vec::new();

    // ---- shuttle (own preemption-bounded DFS, no partial-order reduction): 2..16 threads;
    // bound 2 up to 6 threads, 1 for 8, 0..1 for 12/16. The first block is expected to hit the cap.
    for n in [
        "shuttle_atomic_t16_c1_l1_d0_pb1",
        "shuttle_atomic_t16_c2_l2split_dmix_pb0",
        "shuttle_atomic_t16_c1_l1_d1_pb0",
        "shuttle_atomic_t12_c1_l2seq_d0_pb0",
        "shuttle_atomic_t8_c1_l1_d0_pb1",
        "shuttle_atomic_t8_c1_l2split_d1_pb1",
        "shuttle_atomic_t8_c2_l1_dmix_pb1",
        "shuttle_atomic_t6_c1_l1_d1_pb2",
        "shuttle_atomic_t6_c1_l2seq_d0_pb2",
        "shuttle_atomic_t6_c2_l2split_dmix_pb2",
        "shuttle_atomic_t2_c2_l2seq_d1_pbinf",
        "shuttle_atomic_t5_c1_l1_d2_pb2",
        "shuttle_atomic_t4_c2_l2seq_dmix_pb2",
    ] {
        heavy.push(n.to_string());
    }
    for n in [
        "shuttle_atomic_t4_c1_l1_d2_pb3",
        "shuttle_atomic_t3_c1_l1_d1_pbinf",
        "shuttle_atomic_t6_c1_l2split_d0_pb1",
        "shuttle_atomic_t4_c2_l1_d1_pb2",
        "shuttle_atomic_t2_c2_l1_d2_pbinf",
        "shuttle_atomic_t8_c1_l1_d2_pb0",
        "shuttle_atomic_t3_c2_l1_d2_pb3",
        "shuttle_atomic_t4_c1_l2split_dmix_pb2",
        "shuttle_atomic_t3_c2_l2seq_d1_pb2",
        "shuttle_atomic_t2_c1_l1_d0_pbinf",
    ] {
        rest.push(n.to_string());
    }

    // ---- loom: threads {2,3,4} x calls {1,2} x locks {1, 2 A-then-B, 2 split} x durations;
    // unbounded for <= 3 threads, preemption bound 3 for 4 threads.
    for threads in [4usize, 3, 2] {
        for calls in [2usize, 1] {
            for mode in ["l2seq", "l1", "l2split"] {
                let pb = if threads <= 3 { "inf" } else { "3" };
                for d in durs {
                    let name = format!("loom_atomic_t{}_c{}_{}_d{}_pb{}", threads, calls, mode, d, pb);
                    // measured: these do not finish (t3 A-then-B unbounded) or take minutes
                    let is_heavy = mode == "l2seq" && ((threads == 3) || (threads == 4 && calls == 2));
                    if is_heavy {
                        // the hopeless unbounded shape gets two durations only
                        if threads == 3 && calls == 2 && (d == "1" || d == "2") {
                            continue;
                        }
                        heavy.push(name);
                    } else {
                        rest.push(name);
                    }
                }
            }
            for d in ["0", "2"] {
                let pb = if threads <= 3 { "inf" } else { "3" };
                rest.push(format!("loom_unsafecell_t{}_c{}_l1_d{}_pb{}", threads, calls, d, pb));
            }
        }
    }
    // bounded-but-complete companions of the shapes whose unbounded / bound-3 space is out of reach
    for n in [
        "loom_atomic_t3_c2_l2seq_d1_pb4",
        "loom_atomic_t3_c2_l2seq_d2_pb3",
        "loom_atomic_t3_c2_l2seq_d0_pb3",
        "loom_atomic_t3_c2_l2seq_dmix_pb3",
        "loom_atomic_t3_c1_l2seq_d0_pb4",
        "loom_atomic_t3_c1_l2seq_d1_pb4",
        "loom_atomic_t3_c1_l2seq_d2_pb4",
        "loom_atomic_t3_c1_l2seq_dmix_pb4",
        "loom_atomic_t4_c2_l2seq_d0_pb2",
        "loom_atomic_t4_c2_l2seq_d1_pb2",
        "loom_atomic_t4_c2_l2seq_d2_pb2",
        "loom_atomic_t4_c2_l2seq_dmix_pb2",
    ] {
        rest.push(n.to_string());
    }
    // a mid-weight block right after the heavy one keeps the pool busy
    rest.sort_by_key(|n| {
        let w = if n.contains("_t4_c1_l2seq") || n.contains("pb4") { 0 } else if n.contains("_t4_c2") || n.contains("_t3_c2") { 1 } else { 2 };
        (w, n.starts_with("loom"))
    });
    heavy.into_iter().chain(rest).map(|n| sc(&n, E, S)).collect()
}
