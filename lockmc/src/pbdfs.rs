//! Exhaustive depth-first scheduler for shuttle with a preemption bound.
//!
//! Modelled on `shuttle_schedulers::DfsScheduler`, plus:
//!   * a *preemption* is a switch away from the current task while it is still runnable (this
//!     includes a task that has just called `yield_now()`: the harness uses yields as plain visible
//!     steps inside critical sections); at most `bound` preemptions are taken per execution
//!     (`None` = unbounded);
//!   * switches at blocking points and at task exit are free;
//!   * fairness safeguard: a task that yields more than `YIELD_STREAK_LIMIT` times in a row while
//!     other tasks are runnable (a spin-wait) is descheduled for free, so that a spin loop in the
//!     code under test is not misreported as a livelock of the bounded search;
//!   * `max_iterations` cap, reported through `Stats` (so the caller can tell "search space
//!     exhausted" from "cap reached").
//!
//! Executions are deterministic given the choice prefix, so per level only `(chosen index, number of
//! alternatives)` is stored and the alternative list is recomputed on replay of the prefix.

use shuttle::scheduler::{Schedule, Scheduler, Task, TaskId};
use std::sync::atomic::{AtomicBool, AtomicU64, Ordering};
use std::sync::Arc;

#[derive(Default, Debug)]
pub struct Stats {
    pub iterations: AtomicU64,
    /// the whole (bounded) schedule tree has been explored
    pub finished: AtomicBool,
    pub cap_hit: AtomicBool,
    pub max_depth: AtomicU64,
    pub max_preemptions_used: AtomicU64,
}

const YIELD_STREAK_LIMIT: usize = 32;

#[derive(Debug)]
pub struct PbDfs {
    yield_streak: usize,
    bound: Option<usize>,
    max_iterations: Option<u64>,
    iterations: u64,
    /// (index chosen among the alternatives at this level, number of alternatives)
    levels: Vec<(u32, u32)>,
    steps: usize,
    preemptions: usize,
    scratch: Vec<TaskId>,
    stats: Arc<Stats>,
}

impl PbDfs {
    pub fn new(bound: Option<usize>, max_iterations: Option<u64>, stats: Arc<Stats>) -> Self {
        PbDfs {
            yield_streak: 0,
            bound,
            max_iterations,
            iterations: 0,
            levels: Vec::new(),
            steps: 0,
            preemptions: 0,
            scratch: Vec::new(),
            stats,
        }
    }
}

impl Scheduler for PbDfs {
    fn new_execution(&mut self) -> Option<Schedule> {
        if self.iterations > 0 {
            // the previous execution must have consumed its whole prefix
            debug_assert!(self.steps >= self.levels.len());
            // backtrack: drop exhausted levels, advance the deepest one that has an alternative left
            while let Some(&(idx, n)) = self.levels.last() {
                if idx + 1 < n {
                    break;
                }
                self.levels.pop();
            }
            match self.levels.last_mut() {
                None => {
                    self.stats.finished.store(true, Ordering::Relaxed);
                    return None;
                }
                Some(l) => l.0 += 1,
            }
        }
        if let Some(m) = self.max_iterations {
            if self.iterations >= m {
                self.stats.cap_hit.store(true, Ordering::Relaxed);
                return None;
            }
        }
        self.iterations += 1;
        self.stats.iterations.store(self.iterations, Ordering::Relaxed);
        self.steps = 0;
        self.preemptions = 0;
        self.yield_streak = 0;
        Some(Schedule::new(0))
    }

    fn next_task(&mut self, runnable: &[&Task], current: Option<TaskId>, is_yielding: bool) -> Option<TaskId> {
        // Alternatives at this point, in a deterministic order: "stay on the current task" first.
        self.scratch.clear();
        let cur_runnable = current.map(|c| runnable.iter().any(|t| t.id() == c)).unwrap_or(false);
        if is_yielding && cur_runnable {
            self.yield_streak += 1;
        } else {
            self.yield_streak = 0;
        }
        let spinning = self.yield_streak > YIELD_STREAK_LIMIT && runnable.len() > 1;
        let switching_is_preemption = cur_runnable && !spinning;
        if cur_runnable && !spinning {
            self.scratch.push(current.unwrap());
        }
        let budget_left = self.bound.map(|b| self.preemptions < b).unwrap_or(true);
        if !switching_is_preemption || budget_left {
            for t in runnable {
                if !(cur_runnable && Some(t.id()) == current) {
                    self.scratch.push(t.id());
                }
            }
        }
        let n = self.scratch.len() as u32;
        debug_assert!(n >= 1);

        let idx = if self.steps < self.levels.len() {
            let (idx, n_before) = self.levels[self.steps];
            assert_eq!(
                n_before, n,
                "pbdfs: nondeterministic execution (alternatives at step {} changed from {} to {})",
                self.steps, n_before, n
            );
            idx
        } else {
            self.levels.push((0, n));
            0
        };
        let chosen = self.scratch[idx as usize];
        if Some(chosen) != current {
            self.yield_streak = 0;
        }
        if switching_is_preemption && Some(chosen) != current {
            self.preemptions += 1;
            self.stats.max_preemptions_used.fetch_max(self.preemptions as u64, Ordering::Relaxed);
        }
        self.steps += 1;
        self.stats.max_depth.fetch_max(self.steps as u64, Ordering::Relaxed);
        Some(chosen)
    }

    fn next_u64(&mut self) -> u64 {
        panic!("pbdfs: the harness does not use shuttle::rand");
    }
}
