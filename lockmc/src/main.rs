//! lockmc: loom + shuttle model checking of the REAL text of `crates/lock/src/lib.rs` (property C20).
//!
//! See `build.rs` for how the repository text is bound to the tools' primitives.

mod pbdfs;
mod scenario;
mod stackcache;

use scenario::{Cell, Scenario, Tool};
use serde_json::{json, Value};
use std::collections::HashSet;
use std::io::Write;
use std::panic::{catch_unwind, AssertUnwindSafe};
use std::path::{Path, PathBuf};
use std::process::{Command, Stdio};
use std::sync::atomic::{AtomicU64, Ordering as StdOrd};
use std::sync::{Arc as StdArc, Mutex as StdMutex};
use std::time::{Duration, Instant};

// ------------------------------------------------------------------------------------------------
// The real lock source, re-bound to each tool by build.rs.

// (The crate-level `#![deny(missing_docs)]` / `#![deny(unsafe_code)]` lines are lints of the lock crate's
// own build and are stripped; they have no run-time meaning.)
#[allow(dead_code, missing_docs, unused_imports, clippy::all)]
mod real_loom {
    // std APIs that loom 0.7 does not offer, expressed through the ones it does
    use crate::loomext::CondvarExt as _;
    include!(concat!(env!("OUT_DIR"), "/lock_loom.rs"));
}

#[allow(dead_code, missing_docs, unused_imports, clippy::all)]
mod real_shuttle {
    include!(concat!(env!("OUT_DIR"), "/lock_shuttle.rs"));
}

pub const LOCK_SRC: &str = env!("LOCKMC_LOCK_SRC_RESOLVED");
pub const LOCK_SRC_FNV64: &str = env!("LOCKMC_LOCK_SRC_FNV64");

// ------------------------------------------------------------------------------------------------
// Per-scenario recorder (std primitives: invisible to the tools on purpose).

pub struct Recorder {
    pub execs: AtomicU64,
    pub outcomes: StdMutex<HashSet<String>>,
}

const MAX_OUTCOMES_KEPT: usize = 200_000;

impl Recorder {
    fn new() -> Self {
        Recorder { execs: AtomicU64::new(0), outcomes: StdMutex::new(HashSet::new()) }
    }
    fn begin(&self) {
        self.execs.fetch_add(1, StdOrd::Relaxed);
    }
    fn outcome(&self, s: String) {
        let mut g = self.outcomes.lock().unwrap_or_else(|e| e.into_inner());
        if g.len() < MAX_OUTCOMES_KEPT {
            g.insert(s);
        }
    }
}

// ------------------------------------------------------------------------------------------------
// Guarded values. The closure handed to `apply` receives `&mut G`; all reads / writes go through
// tool-visible cells so that two overlapping closures would be an explorable, detectable event.

/// Token returned by a read-modify-write closure: unique per (ticket, thread, call).
fn token(ticket: usize, t: usize, c: usize, lock: usize) -> u64 {
    ((ticket as u64) << 24) | ((t as u64) << 16) | ((c as u64) << 8) | (lock as u64) | (0xC20u64 << 48)
}
fn ticket_of(tok: u64) -> usize {
    ((tok >> 24) & 0xff_ffff) as usize
}

/// The extra bounds (`Sync`, `Clone`, `Default`, `Debug`) are not needed by the current lock source;
/// they keep the harness compiling when an edit narrows the lock's impl block to e.g.
/// `impl<T: Clone> StdLock<T>` (so such an edit is model-checked instead of being a build failure).
pub trait Guarded: Send + Sync + Clone + Default + std::fmt::Debug + 'static {
    fn new() -> Self;
    /// read-modify-write with `dur` extra visible steps inside; returns the ticket (old value)
    fn rmw(&mut self, dur: usize) -> usize;
    fn read(&mut self) -> (usize, usize);
}

macro_rules! atomic_cell {
    ($name:ident, $tool:ident, |$s:ident| $step:expr) => {
        pub struct $name {
            a: $tool::sync::atomic::AtomicUsize,
            b: $tool::sync::atomic::AtomicUsize,
            #[allow(dead_code)]
            pad: $tool::sync::atomic::AtomicUsize,
        }
        impl Guarded for $name {
            fn new() -> Self {
                use $tool::sync::atomic::AtomicUsize;
                $name { a: AtomicUsize::new(0), b: AtomicUsize::new(0), pad: AtomicUsize::new(0) }
            }
            fn rmw(&mut self, dur: usize) -> usize {
                use $tool::sync::atomic::Ordering::Relaxed;
                let v = self.a.load(Relaxed);
                let w = self.b.load(Relaxed);
                if v != w {
                    panic!("LOCKMC[torn]: closure entered with a={} b={} (half-applied two-field update visible)", v, w);
                }
                for _ in 0..dur {
                    let $s = &*self;
                    $step;
                }
                self.a.store(v + 1, Relaxed);
                self.b.store(v + 1, Relaxed);
                v
            }
            fn read(&mut self) -> (usize, usize) {
                use $tool::sync::atomic::Ordering::Relaxed;
                (self.a.load(Relaxed), self.b.load(Relaxed))
            }
        }
        impl Default for $name {
            fn default() -> Self {
                <Self as Guarded>::new()
            }
        }
        impl std::fmt::Debug for $name {
            fn fmt(&self, f: &mut std::fmt::Formatter<'_>) -> std::fmt::Result {
                f.write_str(stringify!($name))
            }
        }
        /// Snapshot clone, so that an edit to `impl<T: Clone> StdLock<T>` (copy-out / copy-in
        /// style) still compiles against the harness and its lost updates become observable.
        impl Clone for $name {
            fn clone(&self) -> Self {
                use $tool::sync::atomic::{AtomicUsize, Ordering::Relaxed};
                $name {
                    a: AtomicUsize::new(self.a.load(Relaxed)),
                    b: AtomicUsize::new(self.b.load(Relaxed)),
                    pad: AtomicUsize::new(0),
                }
            }
        }
    };
}

atomic_cell!(LoomAtomic, loom, |s| {
    s.pad.load(loom::sync::atomic::Ordering::Relaxed);
});
atomic_cell!(ShuttleAtomic, shuttle, |_s| {
    shuttle::thread::yield_now();
});

/// loom-only: plain memory behind loom's tracked `UnsafeCell`; overlapping closures trip loom's own
/// causality (data race) check in addition to the ticket oracle.
pub struct LoomUnsafe {
    v: loom::cell::UnsafeCell<(usize, usize)>,
    pad: loom::sync::atomic::AtomicUsize,
}
// A refactor to `RwLock<T>` needs `T: Sync` for the lock to be shared; every access to `v` is tracked
// by loom, which is the whole point of this cell.
unsafe impl Sync for LoomUnsafe {}
impl Default for LoomUnsafe {
    fn default() -> Self {
        <Self as Guarded>::new()
    }
}
impl std::fmt::Debug for LoomUnsafe {
    fn fmt(&self, f: &mut std::fmt::Formatter<'_>) -> std::fmt::Result {
        f.write_str("LoomUnsafe")
    }
}
impl Clone for LoomUnsafe {
    fn clone(&self) -> Self {
        LoomUnsafe {
            v: loom::cell::UnsafeCell::new(self.v.with(|p| unsafe { *p })),
            pad: loom::sync::atomic::AtomicUsize::new(0),
        }
    }
}
impl Guarded for LoomUnsafe {
    fn new() -> Self {
        LoomUnsafe { v: loom::cell::UnsafeCell::new((0, 0)), pad: loom::sync::atomic::AtomicUsize::new(0) }
    }
    fn rmw(&mut self, dur: usize) -> usize {
        let pad = &self.pad;
        self.v.with_mut(|p| {
            // SAFETY (harness): exclusive access is exactly the property under test; loom tracks
            // this access and panics with a causality violation if it is not exclusive.
            let (a, b) = unsafe { *p };
            if a != b {
                panic!("LOCKMC[torn]: closure entered with a={} b={}", a, b);
            }
            for _ in 0..dur {
                pad.load(loom::sync::atomic::Ordering::Relaxed);
            }
            unsafe { *p = (a + 1, a + 1) };
            a
        })
    }
    fn read(&mut self) -> (usize, usize) {
        self.v.with(|p| unsafe { *p })
    }
}

// ------------------------------------------------------------------------------------------------
// One execution of a scenario, generic over the tool (Arc / thread / StdLock come from the tool).

macro_rules! tool_harness {
    ($modname:ident, $tool:ident, $real:ident) => {
        pub mod $modname {
            use crate::$real::StdLock;
            use crate::{ticket_of, token, Guarded, Recorder};
            use crate::scenario::Scenario;
            use $tool::sync::Arc;
            use $tool::thread;

            pub fn execution<G: Guarded>(p: &Scenario, rec: &Recorder) {
                rec.begin();
                let nlocks = p.locks;
                let locks: Vec<Arc<StdLock<G>>> =
                    (0..nlocks).map(|_| Arc::new(StdLock::new(G::new()))).collect();
                let mut handles = Vec::with_capacity(p.threads);
                for t in 0..p.threads {
                    let locks: Vec<Arc<StdLock<G>>> = locks.iter().map(Arc::clone).collect();
                    let p = p.clone();
                    handles.push(thread::spawn(move || {
                        let mut got: Vec<(usize, usize)> = Vec::new();
                        for c in 0..p.calls {
                            for li in p.lock_indices(t, c) {
                                let dur = p.duration_of(t, c, li);
                                let mut produced: Option<u64> = None;
                                let ret: u64 = locks[li].apply(|g: &mut G| {
                                    let ticket = g.rmw(dur);
                                    let tok = token(ticket, t, c, li);
                                    produced = Some(tok);
                                    tok
                                });
                                if produced != Some(ret) {
                                    panic!(
                                        "LOCKMC[return_value]: apply returned {:#x} but its closure produced {:?} (thread {} call {} lock {})",
                                        ret, produced, t, c, li
                                    );
                                }
                                got.push((li, ticket_of(ret)));
                            }
                        }
                        got
                    }));
                }
                let mut per_thread: Vec<Vec<(usize, usize)>> = Vec::with_capacity(p.threads);
                for (t, h) in handles.into_iter().enumerate() {
                    match h.join() {
                        Ok(v) => per_thread.push(v),
                        Err(e) => {
                            let msg = e
                                .downcast_ref::<String>()
                                .cloned()
                                .or_else(|| e.downcast_ref::<&str>().map(|s| s.to_string()))
                                .unwrap_or_else(|| "<non-string panic>".into());
                            if msg.starts_with("LOCKMC[") {
                                panic!("{}", msg);
                            }
                            panic!("LOCKMC[panic]: worker thread {} panicked: {}", t, msg);
                        }
                    }
                }
                // final state + ticket oracle, per lock
                let mut finals = Vec::new();
                for li in 0..nlocks {
                    let expect = p.expected_calls_on(li);
                    let (a, b) = locks[li].apply(|g: &mut G| g.read());
                    if a != b {
                        panic!("LOCKMC[torn]: final state of lock {} is a={} b={}", li, a, b);
                    }
                    let mut tickets: Vec<usize> = per_thread
                        .iter()
                        .flat_map(|v| v.iter().filter(|(l, _)| *l == li).map(|(_, k)| *k))
                        .collect();
                    tickets.sort_unstable();
                    let want: Vec<usize> = (0..expect).collect();
                    if tickets != want || a != expect {
                        panic!(
                            "LOCKMC[lost_update]: lock {}: {} read-modify-write closures completed, final value {} (want {}), returned tickets {:?} (want 0..{})",
                            li, expect, a, expect, tickets, expect
                        );
                    }
                    finals.push(a);
                }
                let mut s = String::new();
                for (t, v) in per_thread.iter().enumerate() {
                    s.push_str(&format!("t{}:[", t));
                    for (i, (l, k)) in v.iter().enumerate() {
                        if i > 0 {
                            s.push(',');
                        }
                        s.push_str(&format!("{}{}", (b'A' + *l as u8) as char, k));
                    }
                    s.push_str("] ");
                }
                s.push_str(&format!("final={:?}", finals));
                rec.outcome(s);
            }
        }
    };
}

tool_harness!(loom_h, loom, real_loom);
tool_harness!(shuttle_h, shuttle, real_shuttle);

// ------------------------------------------------------------------------------------------------
// Child side: run exactly one scenario, print one `LOCKMC_RESULT {json}` line.

static PANICS: StdMutex<Vec<String>> = StdMutex::new(Vec::new());

fn install_panic_hook(quiet: bool) {
    let prev = std::panic::take_hook();
    std::panic::set_hook(Box::new(move |info| {
        let msg = info
            .payload()
            .downcast_ref::<String>()
            .cloned()
            .or_else(|| info.payload().downcast_ref::<&str>().map(|s| s.to_string()))
            .unwrap_or_else(|| "<non-string panic>".into());
        let loc = info.location().map(|l| format!("{}:{}", l.file(), l.line())).unwrap_or_default();
        let first = {
            let mut g = PANICS.lock().unwrap_or_else(|e| e.into_inner());
            g.push(format!("{} @ {}", msg.trim_end(), loc));
            g.len() == 1
        };
        if first {
            // Emitted immediately so that the parent can classify even if the process later aborts
            // (double panic while a tool unwinds its generator threads).
            let line = json!({"message": msg.trim_end(), "location": loc}).to_string();
            let out = std::io::stdout();
            let mut out = out.lock();
            let _ = writeln!(out, "LOCKMC_PANIC {}", line);
            let _ = out.flush();
        }
        if !quiet {
            prev(info);
        }
    }));
}

fn classify(msg: &str) -> &'static str {
    if let Some(rest) = msg.strip_prefix("LOCKMC[") {
        if let Some(end) = rest.find(']') {
            return match &rest[..end] {
                "lost_update" => "lost_update",
                "torn" => "torn",
                "return_value" => "return_value",
                "deadlock" => "deadlock",
                "race" => "race",
                _ => "panic",
            };
        }
    }
    let l = msg.to_ascii_lowercase();
    if l.contains("deadlock") {
        "deadlock"
    } else if l.contains("causality violation") || l.contains("concurrent") && l.contains("unsafecell") {
        "race"
    } else {
        "panic"
    }
}

struct RunOutcome {
    exhaustive: bool,
    cap_hit: Option<String>,
}

const LOOM_CHECK_EVERY: u64 = 100;

fn run_loom(s: &Scenario, rec: StdArc<Recorder>) -> RunOutcome {
    stackcache::enable();
    let mut b = loom::model::Builder::new();
    b.preemption_bound = s.bound;
    b.max_threads = s.threads + 1;
    b.max_branches = 50_000;
    // loom only looks at max_permutations / max_duration every `checkpoint_interval` iterations
    b.checkpoint_interval = LOOM_CHECK_EVERY as usize;
    b.max_permutations = Some(s.cap_execs as usize);
    b.max_duration = Some(Duration::from_secs(s.cap_secs));
    b.checkpoint_file = None;
    b.log = false;
    let start = Instant::now();
    let p = s.clone();
    let r = rec.clone();
    match s.cell {
        Cell::Atomic => b.check(move || loom_h::execution::<LoomAtomic>(&p, &r)),
        Cell::Unsafe => b.check(move || loom_h::execution::<LoomUnsafe>(&p, &r)),
    }
    let n = rec.execs.load(StdOrd::Relaxed);
    // `check` returns silently when a cap is reached: iteration i (1-based) is not run once
    // i % interval == 0 && (i >= max_permutations || elapsed >= max_duration).
    let cap_hit = if n + 1 >= s.cap_execs {
        Some(format!("executions>={}", s.cap_execs))
    } else if start.elapsed() >= Duration::from_secs(s.cap_secs) && (n + 1) % LOOM_CHECK_EVERY == 0 {
        Some(format!("wall>={}s", s.cap_secs))
    } else {
        None
    };
    RunOutcome { exhaustive: cap_hit.is_none(), cap_hit }
}

fn run_shuttle(s: &Scenario, rec: StdArc<Recorder>, sched_dir: &Path) -> RunOutcome {
    let stats = StdArc::new(pbdfs::Stats::default());
    let sched = pbdfs::PbDfs::new(s.bound, Some(s.cap_execs), stats.clone());
    let mut cfg = shuttle::Config::new();
    cfg.stack_size = 0x40000;
    cfg.max_time = Some(Duration::from_secs(s.cap_secs));
    cfg.failure_persistence = shuttle::FailurePersistence::File(Some(sched_dir.to_path_buf()));
    cfg.silence_warnings = true;
    let p = s.clone();
    let r = rec.clone();
    let start = Instant::now();
    let runner = shuttle::Runner::new(sched, cfg);
    runner.run(move || shuttle_h::execution::<ShuttleAtomic>(&p, &r));
    let cap_hit = if stats.cap_hit.load(StdOrd::Relaxed) {
        Some(format!("executions>={}", s.cap_execs))
    } else if !stats.finished.load(StdOrd::Relaxed) && start.elapsed() >= Duration::from_secs(s.cap_secs) {
        Some(format!("wall>={}s", s.cap_secs))
    } else if !stats.finished.load(StdOrd::Relaxed) {
        Some("stopped-early".to_string())
    } else {
        None
    };
    // "exhaustive" = every schedule within the scenario's stated preemption bound was run.
    RunOutcome { exhaustive: cap_hit.is_none(), cap_hit }
}

fn child_main(s: &Scenario, quiet: bool) -> i32 {
    install_panic_hook(quiet);
    let rec = StdArc::new(Recorder::new());
    let sched_dir = std::env::temp_dir().join(format!("lockmc-sched-{}", std::process::id()));
    let _ = std::fs::create_dir_all(&sched_dir);
    let start = Instant::now();
    let rec2 = rec.clone();
    let res = catch_unwind(AssertUnwindSafe(|| match s.tool {
        Tool::Loom => run_loom(s, rec2),
        Tool::Shuttle => run_shuttle(s, rec2, &sched_dir),
    }));
    let wall = start.elapsed().as_secs_f64();
    let panics = PANICS.lock().unwrap_or_else(|e| e.into_inner()).clone();
    let mut schedule: Option<String> = None;
    if let Ok(rd) = std::fs::read_dir(&sched_dir) {
        for e in rd.flatten() {
            if schedule.is_none() {
                schedule = std::fs::read_to_string(e.path()).ok();
            }
        }
    }
    let _ = std::fs::remove_dir_all(&sched_dir);
    let (exhaustive, cap_hit, violation) = match res {
        Ok(o) => (o.exhaustive, o.cap_hit, Value::Null),
        Err(_) => {
            let first = panics.first().cloned().unwrap_or_else(|| "<panic with no message>".into());
            let clause = classify(&first);
            // A spin-wait under an unfair schedule (the DFS may keep scheduling the spinner) makes
            // the tools give up on that execution: a bound of the exploration, not a verdict.
            let lf = first.to_ascii_lowercase();
            let gave_up = clause == "panic" && (lf.contains("exceeded max_steps") || lf.contains("maximum number of branches") || lf.contains("max_branches"));
            if gave_up {
                (false, Some(format!("tool gave up on a spinning execution: {}", first.chars().take(120).collect::<String>())), Value::Null)
            } else {
            (
                false,
                None,
                json!({
                    "clause": clause,
                    "detail": first,
                    "all_panics": panics.iter().take(8).collect::<Vec<_>>(),
                    "schedule": schedule,
                    "at_execution": rec.execs.load(StdOrd::Relaxed),
                }),
            )
            }
        }
    };
    let outcomes = rec.outcomes.lock().unwrap_or_else(|e| e.into_inner());
    let mut samples: Vec<&String> = outcomes.iter().collect();
    samples.sort();
    let samples: Vec<String> = samples.into_iter().take(5).cloned().collect();
    let mut v = s.to_json();
    let o = v.as_object_mut().unwrap();
    o.insert("executions".into(), json!(rec.execs.load(StdOrd::Relaxed)));
    o.insert("distinct_outcomes".into(), json!(outcomes.len()));
    o.insert("exhaustive".into(), json!(exhaustive));
    o.insert("cap_hit".into(), json!(cap_hit));
    o.insert("violation".into(), violation.clone());
    o.insert("wall_s".into(), json!((wall * 1000.0).round() / 1000.0));
    o.insert("samples".into(), json!(samples));
    println!("LOCKMC_RESULT {}", v);
    let _ = std::io::stdout().flush();
    if violation.is_null() {
        0
    } else {
        1
    }
}

// ------------------------------------------------------------------------------------------------
// Parent side.

fn run_child(exe: &Path, s: &Scenario) -> Value {
    let start = Instant::now();
    let out = Command::new(exe)
        .arg("--scenario")
        .arg(s.name())
        .arg("--cap-execs")
        .arg(s.cap_execs.to_string())
        .arg("--cap-secs")
        .arg(s.cap_secs.to_string())
        .stdin(Stdio::null())
        .output();
    let wall = start.elapsed().as_secs_f64();
    let mut base = s.to_json();
    let out = match out {
        Ok(o) => o,
        Err(e) => {
            base["machinery_failure"] = json!(format!("cannot spawn child: {}", e));
            return base;
        }
    };
    let stdout = String::from_utf8_lossy(&out.stdout);
    let stderr = String::from_utf8_lossy(&out.stderr);
    let mut result: Option<Value> = None;
    let mut first_panic: Option<Value> = None;
    for line in stdout.lines() {
        if let Some(j) = line.strip_prefix("LOCKMC_RESULT ") {
            result = serde_json::from_str(j).ok();
        } else if let Some(j) = line.strip_prefix("LOCKMC_PANIC ") {
            if first_panic.is_none() {
                first_panic = serde_json::from_str(j).ok();
            }
        }
    }
    let tail = |s: &str, n: usize| -> String {
        let s = s.trim_end();
        if s.len() <= n {
            s.to_string()
        } else {
            let mut i = s.len() - n;
            while !s.is_char_boundary(i) {
                i += 1;
            }
            format!("...{}", &s[i..])
        }
    };
    if let Some(mut r) = result {
        if !r["violation"].is_null() {
            r["violation"]["stderr_tail"] = json!(tail(&stderr, 4000));
        }
        r["exit_status"] = json!(out.status.code());
        return r;
    }
    // No result line: the child died (abort on double panic, stack overflow, signal...).
    if let Some(p) = first_panic {
        let msg = p["message"].as_str().unwrap_or("").to_string();
        base["executions"] = json!(null);
        base["distinct_outcomes"] = json!(null);
        base["exhaustive"] = json!(false);
        base["cap_hit"] = json!(null);
        base["violation"] = json!({
            "clause": classify(&msg),
            "detail": format!("{} @ {}", msg, p["location"].as_str().unwrap_or("")),
            "child_died": format!("{:?}", out.status),
            "stderr_tail": tail(&stderr, 4000),
        });
        base["wall_s"] = json!((wall * 1000.0).round() / 1000.0);
        base["samples"] = json!([]);
        base["exit_status"] = json!(out.status.code());
        return base;
    }
    base["machinery_failure"] = json!(format!(
        "child exited with {:?} without a result or a classified failure; stderr tail: {}",
        out.status,
        tail(&stderr, 2000)
    ));
    base
}

/// Runs every scenario in its own child process, `jobs` at a time, in list order (the tiers list
/// the most expensive scenarios first). At most `loom_jobs` loom children run concurrently: with the
/// generator-stack cache (see `stackcache`) loom scales across cores and `loom_jobs` defaults to
/// `jobs`; without it (LOCKMC_NO_STACK_CACHE=1 or a non-Linux host) concurrent loom children slow
/// each other down superlinearly and `--loom-jobs 1` is the better choice.
///
/// `deadline_secs` bounds the wall time of the whole tier on a slow or busy machine: a child started
/// `t` seconds into the run gets `min(own cap_secs, deadline_secs - t)` (at least 2 s); whatever that
/// truncates is reported through the scenario's `cap_hit` / `exhaustive: false`.
fn run_all(exe: &Path, list: Vec<Scenario>, jobs: usize, loom_jobs: usize, deadline_secs: u64) -> Vec<Value> {
    let t0 = Instant::now();
    struct Q {
        started: Vec<bool>,
        running_loom: usize,
    }
    let n = list.len();
    let list = StdArc::new(list);
    let q = StdArc::new(StdMutex::new(Q { started: vec![false; n], running_loom: 0 }));
    let results: StdArc<StdMutex<Vec<Option<Value>>>> = StdArc::new(StdMutex::new(vec![None; n]));
    let verbose = std::env::var("LOCKMC_VERBOSE").is_ok();
    let mut hs = Vec::new();
    for _ in 0..jobs.min(n).max(1) {
        let q = q.clone();
        let results = results.clone();
        let list = list.clone();
        let exe = exe.to_path_buf();
        let loom_jobs = loom_jobs.max(1);
        hs.push(std::thread::spawn(move || loop {
            let pick = {
                let mut g = q.lock().unwrap();
                if g.started.iter().all(|x| *x) {
                    return;
                }
                let mut pick = None;
                for i in 0..list.len() {
                    if g.started[i] {
                        continue;
                    }
                    if list[i].tool == Tool::Loom && g.running_loom >= loom_jobs {
                        continue;
                    }
                    pick = Some(i);
                    break;
                }
                if let Some(i) = pick {
                    g.started[i] = true;
                    if list[i].tool == Tool::Loom {
                        g.running_loom += 1;
                    }
                }
                pick
            };
            let idx = match pick {
                Some(i) => i,
                None => {
                    std::thread::sleep(Duration::from_millis(20));
                    continue;
                }
            };
            let mut s = list[idx].clone();
            s.cap_secs = s.cap_secs.min(deadline_secs.saturating_sub(t0.elapsed().as_secs())).max(2);
            let s = &s;
            let r = run_child(&exe, s);
            if s.tool == Tool::Loom {
                q.lock().unwrap().running_loom -= 1;
            }
            if verbose {
                eprintln!(
                    "[lockmc] {:<40} execs={:<9} outcomes={:<6} cap={} viol={} wall={}s",
                    s.name(),
                    r["executions"],
                    r["distinct_outcomes"],
                    r["cap_hit"],
                    if r["violation"].is_null() { "-".to_string() } else { r["violation"]["clause"].to_string() },
                    r["wall_s"]
                );
            }
            results.lock().unwrap()[idx] = Some(r);
        }));
    }
    for h in hs {
        let _ = h.join();
    }
    let mut g = results.lock().unwrap();
    g.drain(..).map(|x| x.unwrap_or(json!({"machinery_failure": "worker died"}))).collect()
}

fn write_replay(dir: &Path, r: &Value) -> std::io::Result<PathBuf> {
    std::fs::create_dir_all(dir)?;
    let name = r["name"].as_str().unwrap_or("scenario");
    let p = dir.join(format!("{}.json", name));
    let v = json!({
        "scenario": name,
        "params": {
            "tool": r["tool"], "cell": r["cell"], "threads": r["threads"], "calls": r["calls"],
            "locks": r["locks"], "lock_mode": r["lock_mode"], "duration": r["duration"],
            "bound": r["bound"], "cap_execs": r["cap_execs"], "cap_secs": r["cap_secs"],
        },
        "clause": r["violation"]["clause"],
        "detail": r["violation"]["detail"],
        "failure_message": r["violation"]["all_panics"],
        "shuttle_schedule": r["violation"]["schedule"],
        "at_execution": r["violation"]["at_execution"],
        "stderr_tail": r["violation"]["stderr_tail"],
        "lock_src": LOCK_SRC,
        "lock_src_fnv64": LOCK_SRC_FNV64,
    });
    std::fs::write(&p, serde_json::to_string_pretty(&v).unwrap())?;
    Ok(p)
}

fn usage() -> ! {
    eprintln!(
        "usage:\n  lockmc --tier quick|thorough --out <path.json> [--replay-dir <dir>] [--jobs N] [--loom-jobs N] [--deadline-secs S]\n  lockmc --replay <file.json>\n  lockmc --list quick|thorough\n  lockmc --scenario <name> [--cap-execs N] [--cap-secs S]      (child mode)"
    );
    std::process::exit(2)
}

fn main() {
    let args: Vec<String> = std::env::args().skip(1).collect();
    let mut tier: Option<String> = None;
    let mut out: Option<PathBuf> = None;
    let mut replay_dir: Option<PathBuf> = None;
    let mut replay: Option<PathBuf> = None;
    let mut scenario: Option<String> = None;
    let mut list: Option<String> = None;
    let mut cap_execs: Option<u64> = None;
    let mut cap_secs: Option<u64> = None;
    let mut jobs: usize = std::thread::available_parallelism().map(|n| n.get()).unwrap_or(4);
    let mut loom_jobs: usize = 0;
    let mut deadline: Option<u64> = None;
    let mut i = 0;
    while i < args.len() {
        let need = |i: usize| -> String { args.get(i + 1).cloned().unwrap_or_else(|| usage()) };
        match args[i].as_str() {
            "--tier" => tier = Some(need(i)),
            "--out" => out = Some(PathBuf::from(need(i))),
            "--replay-dir" => replay_dir = Some(PathBuf::from(need(i))),
            "--replay" => replay = Some(PathBuf::from(need(i))),
            "--scenario" => scenario = Some(need(i)),
            "--list" => list = Some(need(i)),
            "--cap-execs" => cap_execs = need(i).parse().ok(),
            "--cap-secs" => cap_secs = need(i).parse().ok(),
            "--jobs" => jobs = need(i).parse().unwrap_or(jobs),
            "--loom-jobs" => loom_jobs = need(i).parse().unwrap_or(loom_jobs),
            "--deadline-secs" => deadline = need(i).parse().ok(),
            _ => usage(),
        }
        i += 2;
    }
    let exe = std::env::current_exe().unwrap_or_else(|e| {
        eprintln!("lockmc: cannot locate own executable: {}", e);
        std::process::exit(2)
    });

    // ---- child mode
    if let Some(name) = scenario {
        let mut s = match Scenario::from_name(&name) {
            Some(s) => s,
            None => {
                eprintln!("lockmc: unknown scenario name `{}`", name);
                std::process::exit(2)
            }
        };
        if let Some(c) = cap_execs {
            s.cap_execs = c;
        }
        if let Some(c) = cap_secs {
            s.cap_secs = c;
        }
        let quiet = std::env::var("LOCKMC_QUIET_PANICS").is_ok();
        std::process::exit(child_main(&s, quiet));
    }

    if let Some(t) = list {
        for s in scenario::tier(&t).unwrap_or_else(|| usage()) {
            println!("{}", s.name());
        }
        return;
    }

    // ---- replay mode
    if let Some(file) = replay {
        let txt = std::fs::read_to_string(&file).unwrap_or_else(|e| {
            eprintln!("lockmc: cannot read {}: {}", file.display(), e);
            std::process::exit(2)
        });
        let v: Value = serde_json::from_str(&txt).unwrap_or_else(|e| {
            eprintln!("lockmc: bad replay file: {}", e);
            std::process::exit(2)
        });
        let name = v["scenario"].as_str().unwrap_or("");
        let mut s = Scenario::from_name(name).unwrap_or_else(|| {
            eprintln!("lockmc: replay file names unknown scenario `{}`", name);
            std::process::exit(2)
        });
        if let Some(c) = v["params"]["cap_execs"].as_u64() {
            s.cap_execs = c;
        }
        if let Some(c) = v["params"]["cap_secs"].as_u64() {
            s.cap_secs = c;
        }
        let r = run_child(&exe, &s);
        if !r["machinery_failure"].is_null() {
            eprintln!("lockmc: replay machinery failure: {}", r["machinery_failure"]);
            std::process::exit(2);
        }
        if r["violation"].is_null() {
            println!(
                "replay {}: no violation in {} executions (was: {}) [lock source {} fnv64 {}]",
                name, r["executions"], v["clause"], LOCK_SRC, LOCK_SRC_FNV64
            );
            std::process::exit(0);
        }
        println!(
            "replay {}: STILL FAILS clause={} detail={}",
            name, r["violation"]["clause"], r["violation"]["detail"]
        );
        std::process::exit(1);
    }

    // ---- tier mode
    let tier = tier.unwrap_or_else(|| usage());
    let out = out.unwrap_or_else(|| usage());
    let list = scenario::tier(&tier).unwrap_or_else(|| usage());
    if loom_jobs == 0 {
        loom_jobs = if stackcache::available() { jobs } else { 1 };
    }
    let start = Instant::now();
    let deadline = deadline.unwrap_or(if tier == "quick" { 30 } else { 840 });
    let results = run_all(&exe, list, jobs, loom_jobs, deadline);
    let mut total: u64 = 0;
    let mut violations = 0usize;
    let mut machinery = 0usize;
    let mut samples: Vec<String> = Vec::new();
    let replay_dir = replay_dir.unwrap_or_else(|| {
        out.parent().map(|p| p.join("replay")).unwrap_or_else(|| PathBuf::from("replay"))
    });
    let mut scen_out = Vec::new();
    for r in &results {
        if !r["machinery_failure"].is_null() {
            machinery += 1;
            eprintln!("lockmc: MACHINERY FAILURE in {}: {}", r["name"], r["machinery_failure"]);
        }
        total += r["executions"].as_u64().unwrap_or(0);
        if !r["violation"].is_null() {
            violations += 1;
            match write_replay(&replay_dir, r) {
                Ok(p) => eprintln!(
                    "lockmc: VIOLATION {} clause={} detail={} (replay: {})",
                    r["name"],
                    r["violation"]["clause"],
                    r["violation"]["detail"],
                    p.display()
                ),
                Err(e) => {
                    machinery += 1;
                    eprintln!("lockmc: cannot write replay file: {}", e);
                }
            }
        }
        if let Some(a) = r["samples"].as_array() {
            for x in a {
                if samples.len() < 5 {
                    if let Some(sx) = x.as_str() {
                        let tagged = format!("{}: {}", r["name"].as_str().unwrap_or(""), sx);
                        // spread the 5 samples over different scenarios
                        if !samples.iter().any(|y| y.starts_with(r["name"].as_str().unwrap_or("\u{0}"))) {
                            samples.push(tagged);
                        }
                    }
                }
            }
        }
        let mut r2 = r.clone();
        if let Some(o) = r2.as_object_mut() {
            o.remove("samples");
            if let Some(v) = o.get_mut("violation") {
                if let Some(vo) = v.as_object_mut() {
                    // contract: violation = {clause, detail}; extras stay in the replay file
                    let clause = vo.get("clause").cloned().unwrap_or(Value::Null);
                    let detail = vo.get("detail").cloned().unwrap_or(Value::Null);
                    *v = json!({"clause": clause, "detail": detail});
                }
            }
        }
        scen_out.push(r2);
    }
    let report = json!({
        "tier": tier,
        "property": "C20",
        "lock_src": LOCK_SRC,
        "lock_src_fnv64": LOCK_SRC_FNV64,
        "std_sync_rewrites": env!("LOCKMC_SYNC_REWRITES").parse::<u64>().unwrap_or(0),
        "scenarios": scen_out,
        "total_executions": total,
        "violations": violations,
        "machinery_failures": machinery,
        "samples": samples,
        "wall_s": (start.elapsed().as_secs_f64() * 1000.0).round() / 1000.0,
    });
    if let Some(parent) = out.parent() {
        if !parent.as_os_str().is_empty() {
            let _ = std::fs::create_dir_all(parent);
        }
    }
    if let Err(e) = std::fs::write(&out, serde_json::to_string_pretty(&report).unwrap()) {
        eprintln!("lockmc: cannot write {}: {}", out.display(), e);
        std::process::exit(2);
    }
    eprintln!(
        "lockmc: tier={} scenarios={} total_executions={} violations={} machinery_failures={} wall={:.1}s",
        tier,
        results.len(),
        total,
        violations,
        machinery,
        start.elapsed().as_secs_f64()
    );
    if machinery > 0 {
        std::process::exit(2);
    }
    if violations > 0 {
        std::process::exit(1);
    }
}

/// What `std::cell::` in the lock source is re-bound to (see build.rs).
pub mod stdcell {
    pub use std::cell::{Cell, RefCell, UnsafeCell};
}

/// `std::sync` methods missing from loom 0.7, built from loom's own primitives (so every wait
/// and wake-up stays a modelled operation).
pub mod loomext {
    use loom::sync::{Condvar, MutexGuard};
    use std::sync::LockResult;

    pub trait CondvarExt {
        /// `std::sync::Condvar::wait_while`: wait until `condition` is false.
        fn wait_while<'a, T, F: FnMut(&mut T) -> bool>(&self, guard: MutexGuard<'a, T>, condition: F) -> LockResult<MutexGuard<'a, T>>;
    }

    impl CondvarExt for Condvar {
        fn wait_while<'a, T, F: FnMut(&mut T) -> bool>(&self, guard: MutexGuard<'a, T>, mut condition: F) -> LockResult<MutexGuard<'a, T>> {
            let mut guard = guard;
            while condition(&mut *guard) {
                guard = self.wait(guard)?;
            }
            Ok(guard)
        }
    }
}
