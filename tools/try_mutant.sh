#!/bin/bash
# usage: try_mutant.sh <seeded-dir> <prop> [<prop>...]   (env SKIP_SUITE=1 to skip the repo test suite)
# Applies <seeded-dir>/patch.diff to /repo, runs the repo's own suite (must pass), runs the quick
# checks, and reverts. Prints one summary line per check.
set -u
D="$(cd "$1" && pwd)"; shift
cd /repo || exit 2
git diff --quiet || { echo "repo dirty"; exit 2; }
git apply "$D/patch.diff" || { echo "patch does not apply"; exit 2; }
trap 'git -C /repo checkout -- . >/dev/null 2>&1' EXIT
if [ -z "${SKIP_SUITE:-}" ]; then
  out=$(cargo nextest run --workspace --no-fail-fast --test-threads 8 --offline 2>&1 | grep -E "Summary|error(\[|:)" | head -3)
  echo "SUITE: $out"
fi
for p in "$@"; do
  out=$(/verif/check "$p" ${TIER:-quick} 2>&1)
  code=$?
  echo "CHECK $p exit=$code :: $(echo "$out" | grep -E "^VIOLATION|MACHINERY" | head -3 | tr '\n' ' ')"
  echo "$out" | grep -E "^  clause" | head -5
done
