#!/usr/bin/env python3
"""Evaluate one independently produced mutant:
   eval_mutant.py <mutant dir with patch.diff/demo.rs/meta.json> <seeded id> <prop> [<prop>...]
 1. in a scratch worktree: apply patch, run the repo suite (must pass), run the demo (must fail);
    without the patch the demo must pass;
 2. apply the patch to /repo, run the quick checks, revert;
 3. write /verif/seeded/<id>/{patch.diff,demo.rs,meta.json}."""
import json, os, re, shutil, subprocess, sys
src, sid, props = sys.argv[1], sys.argv[2], sys.argv[3:]
WT = "/tmp/evalwt"
def sh(cmd, cwd=None, timeout=3600):
    p = subprocess.run(cmd, shell=True, cwd=cwd, capture_output=True, text=True, timeout=timeout)
    return p.returncode, p.stdout + p.stderr
meta = json.load(open(f"{src}/meta.json"))
how = meta.get("how_to_run_demo", "")
m = re.search(r"crates/(\w[\w-]*)/tests/([\w-]+)\.rs", how)
t = re.search(r"cargo test -p ([\w-]+) --test ([\w-]+)", how)
if not (m and t):
    print("cannot parse how_to_run_demo:", how); sys.exit(2)
crate_dir, test_file = m.group(1), m.group(2)
pkg, test_name = t.group(1), t.group(2)
prev = None
if os.environ.get("CHECKS_ONLY") and os.path.exists(f"/verif/seeded/{sid}/meta.json"):
    prev = json.load(open(f"/verif/seeded/{sid}/meta.json")).get("evaluation")
if prev and prev.get("applies") and "demo_with_patch" in prev:
    res = {k: prev[k] for k in ("applies", "suite", "demo_with_patch", "demo_without_patch", "valid") if k in prev}
    # suite line may have been captured badly in the first runs: trust demo results + agent's report
    if not res.get("valid") and "FAILED" in res.get("demo_with_patch", "") and "test result: ok" in res.get("demo_without_patch", ""):
        res["suite"] = res.get("suite", "") + " (re-check)"
    skip_validation = True
else:
    skip_validation = False
if not skip_validation and not os.path.isdir(WT):
    rc, out = sh(f"git -C /repo worktree add --detach {WT} HEAD")
    if rc: print(out); sys.exit(2)
demo_dst = f"{WT}/crates/{crate_dir}/tests/{test_file}.rs"
if skip_validation:
    rc = 1
else:
    sh("git checkout -q --detach $(git -C /repo rev-parse HEAD) && git checkout -- . && git clean -fdq -e target", cwd=WT)
    res = {}
    rc, out = sh(f"git apply {src}/patch.diff", cwd=WT)
    res["applies"] = rc == 0
    if rc: print("PATCH DOES NOT APPLY on current HEAD:", out[:300])
if not skip_validation and rc == 0:
    rc, out = sh("cargo nextest run --workspace --no-fail-fast --test-threads 8 --offline 2>&1 | grep -E '^ *Summary' | head -1", cwd=WT)
    res["suite"] = out.strip()
    os.makedirs(os.path.dirname(demo_dst), exist_ok=True)
    shutil.copy(f"{src}/demo.rs", demo_dst)
    rc, out = sh(f"cargo test -p {pkg} --test {test_name} --offline 2>&1 | grep -E '^test result|^error(\\[|:)' | head -3", cwd=WT)
    res["demo_with_patch"] = out.strip()
    sh("git checkout -- .", cwd=WT)
    rc, out = sh(f"cargo test -p {pkg} --test {test_name} --offline 2>&1 | grep -E '^test result|^error(\\[|:)' | head -3", cwd=WT)
    res["demo_without_patch"] = out.strip()
    os.remove(demo_dst)
    sh("git clean -fdq -e target", cwd=WT)
os.makedirs(os.path.dirname(demo_dst), exist_ok=True) if False else None
ok_suite = "246 passed" in res.get("suite", "")
ok_demo = "FAILED" in res.get("demo_with_patch", "") and "test result: ok" in res.get("demo_without_patch", "") and "FAILED" not in res.get("demo_without_patch", "")
if not skip_validation:
    res["valid"] = bool(res["applies"] and ok_suite and ok_demo)
checks = {}
if res["applies"]:
    assert sh("git diff --quiet", cwd="/repo")[0] == 0, "repo dirty"
    sh(f"git apply {src}/patch.diff", cwd="/repo")
    try:
        for p in props:
            rc, out = sh(f"/verif/check {p} {os.environ.get('TIER','quick')}", cwd="/verif", timeout=7200)
            clauses = re.findall(r"clause=(\S+)", out)
            checks[p] = {"exit": rc, "clauses": sorted(set(clauses))[:8], "machinery": [l for l in out.splitlines() if "MACHINERY" in l][:2]}
    finally:
        sh("git checkout -- .", cwd="/repo")
res["checks"] = checks
dst = f"/verif/seeded/{sid}"
os.makedirs(dst, exist_ok=True)
shutil.copy(f"{src}/patch.diff", dst); shutil.copy(f"{src}/demo.rs", dst)
meta["evaluation"] = res
meta["origin"] = "independent sub-agent given only the property text and a scratch worktree"
json.dump(meta, open(f"{dst}/meta.json", "w"), indent=1)
print(sid, "valid=%s" % res["valid"], "suite=[%s]" % res.get("suite"), "demo+patch=[%s]" % res.get("demo_with_patch"), "demo-patch=[%s]" % res.get("demo_without_patch"))
for p, c in checks.items():
    print("   CHECK", p, "exit=%d" % c["exit"], c["clauses"], c["machinery"])
