#!/usr/bin/env python3
"""Writes the 'measured coverage' table of DESIGN.md from evidence/*.json (whatever tier was run last)
   and from tools/thorough_numbers.json (numbers recorded from thorough runs)."""
import json, glob, os, re
ROOT = os.path.dirname(os.path.dirname(os.path.abspath(__file__)))
th = {}
tp = f"{ROOT}/tools/thorough_numbers.json"
if os.path.exists(tp):
    th = json.load(open(tp))
rows = []
for f in sorted(glob.glob(f"{ROOT}/evidence/C*.json")):
    e = json.load(open(f)); c = e["coverage"]; pid = e["property_id"]
    t = th.get(pid, {})
    # a thorough run of the final tree, if its evidence copy exists, replaces the hand-recorded note
    tf = f"{ROOT}/tools/thorough_evidence/{pid}.json"
    if os.path.exists(tf):
        te = json.load(open(tf))
        if te.get("tier") == "thorough":
            tc = te["coverage"]
            t = {"summary": f"{tc.get('evaluations',0):,} evals ({tc.get('distinct_nontrivial',0):,} distinct non-trivial), {tc.get('states',0):,} states, {tc.get('transitions',0):,} transitions, {te['wall_s']:.0f} s, exhaustive={str(tc.get('exhaustive')).lower()}, violations={te.get('violations',0)}; bound: {tc.get('bound_completed','')[:160]}"}
    rows.append(f"| {pid} | {e['level']} | {e['tier']}: {c.get('evaluations',0):,} evals, {c.get('states',0):,} states, {c.get('transitions',0):,} transitions, {e['wall_s']:.1f} s | {t.get('summary','not recorded')} | {c.get('bound_completed','')[:220]} | {'; '.join(c.get('caps_hit', []))[:160] or '—'} |")
block = "\n".join(["<!-- EVIDENCE-TABLE-BEGIN -->", "", "| id | level | last committed evidence run | thorough tier on the final tree (copy of that run's evidence in tools/thorough_evidence/) | bound completed | caps |", "|---|---|---|---|---|---|"] + rows + ["", "<!-- EVIDENCE-TABLE-END -->"])
p = f"{ROOT}/DESIGN.md"; s = open(p).read()
if "<!-- EVIDENCE-TABLE-BEGIN -->" in s:
    s = re.sub(r"<!-- EVIDENCE-TABLE-BEGIN -->.*<!-- EVIDENCE-TABLE-END -->", lambda _: block, s, flags=re.S)
else:
    s = s.replace("### 10.3 Defects found", "### 10.2b Measured coverage per property\n\n" + block + "\n\n### 10.3 Defects found", 1)
open(p, "w").write(s); print(len(rows), "rows")
