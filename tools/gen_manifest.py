#!/usr/bin/env python3
"""Regenerates /verif/MANIFEST.json. Edit CLAIMED / texts here, then run."""
import json, subprocess, os
ROOT = os.path.dirname(os.path.dirname(os.path.abspath(__file__)))

MC = "model_checking"; EX = "exploration"
P = {
 "C01": (MC, "XPLORE+refcheck", "bounded-exhaustive enumeration of predicate-graph *encodings* (all node/edge lists up to the bound, incl. non-topological numberings, multi-edges, cycles, malformed slices) x node-program roles x solution sets x both config values x both call patterns, each run through the real checker and compared with the reference graph semantics; observation through echo reads", "4 C01", "reference graph semantics (Appendix A) is the oracle; the VM itself is trusted here (it is the subject of C05-C12); node programs come from a fixed role menu", "explicit enumeration of graph encodings + reference-model comparison on the real checker"),
 "C02": (MC, "rayon-shim+XPLORE", "controlled-scheduler exploration of the real checker and VM: every completion order of every parallel section with <=3 tasks, deviation-bounded beyond; op-granular preemptive interleavings (shuttle runtime, own bounded DFS scheduler) of compute children; sync-operation-granular interleavings in a build whose essential-vm/essential-check come from a token-rewritten copy with shuttle's Mutex/RwLock/Once/atomics (mode S, syncmc); each schedule's result must equal the sequential one; real-rayon conformance runs bind the shim to the implementation", "4 C02", "the shim's model of rayon's result assembly (checked against rayon 1.10 sources and by conformance runs); HashMap iteration order is covered by a sweep over hasher seeds in mode S only (8 quick / 32 thorough seeds, not an enumeration of orders); synchronisation reached through paths other than std::sync / core::sync::atomic / std::thread is outside", "stateless schedule enumeration (completion orders, preemption-bounded VM-op interleavings, deviation-bounded sync-operation interleavings of a shuttle-bound copy) of the real code under a rayon stand-in"),
 "C03": (MC, "XPLORE+refcheck", "bounded-exhaustive enumeration of pre-states, declared/computed mutation sets, read requests (op, contract, key, count), further solutions of the reader's contract and placements of the reading node in the graph; every value returned to a post read and every pass attribution compared with the overlay reference", "4 C03", "the mock state's key successor / range convention (that of the repository's own test state)", "explicit enumeration of state/mutation/read configurations against an overlay reference on the real two-pass checker"),
 "C04": (EX, "enumeration", "all solution sets of 1..3(4) solutions from a colliding domain x all permutations; metamorphic oracle across permutations (address, set verdict, two-pass verdict, gas, computed mutations) plus the one-value-per-slot invariant", "4 C04", "small colliding domain of contracts/keys/values; predicates from a fixed menu", "bounded-exhaustive permutation enumeration with a metamorphic oracle"),
 "C05": (MC, "VMGRAPH(stateright)+XPLORE", "explicit-state search (stateright BFS) over real VM configurations: every op x boundary-word pushes from several initial states incl. at-limit shapes; invariant (no panic, bounds on stack/memory/repeat depth/compute depth) checked after every transition, also inside compute children via the on_step hook; both arithmetic profiles; worker death (abort/hang) is observed and classified", "4 C05", "boundary word alphabet; depth bound; Compute breadth beyond a few thousand excluded", "explicit-state BFS over VM configurations with the real step function + bounded-exhaustive hole-program exploration"),
 "C06": (EX, "enumeration", "all word strings <=4(6) over boundary values through the mutation decoders, all short byte strings and structure-aware truncated blobs through predicate/bytecode decoders, all graph encodings of C01 through every checker entry point, data-output memories and read counts up to i64::MAX; subprocess isolation with address-space limit so aborts and run-aways are observed", "4 C06", "boundary alphabets; 8 GiB address-space limit and 30 s horizon define 'abort' and 'hang'", "bounded-exhaustive input enumeration with process-level fault observation"),
 "C07": (MC, "XPLORE+refvm", "hole-program exploration through the real exec loop (all programs up to the length bound, up to dead-code equivalence) x cost functions x limits, compared with a reference that keeps one shared running total in u128; both arithmetic profiles", "4 C07", "op alphabet of 15 symbols; breadth <=3 in enumeration plus directed breadth 50/1000", "stateless exhaustive program enumeration against a reference gas model"),
 "C08": (MC, "VMGRAPH(stateright)", "explicit-state search over real VM configurations restricted to Stack/Pred/Alu/Memory/ParentMemory ops; every transition compared with the reference single-step function on the complete configuration (frame condition) and on error-ness", "4 C08", "boundary word alphabet; Mod(MIN,-1) masked; error variants not compared", "explicit-state BFS with per-transition reference comparison"),
 "C09": (MC, "XPLORE+refvm", "hole-program exploration (all control-flow programs up to the length bound over boundary constants) through exec and eval, compared with the reference on final pc, stack, gas and error index", "4 C09", "RepeatCounter in loops entered with count<=0 masked; gas limit cuts loops", "stateless exhaustive program enumeration against a reference VM"),
 "C10": (MC, "XPLORE+refvm+rayon-shim", "hole-program exploration of Compute programs against the sequential-loop reference, from several parent states, plus directed large-breadth cases; schedules of the children enumerated under the shim", "4 C10", "stray ComputeEnd and children ending behind the Compute masked/convention; breadth beyond thousands excluded", "stateless exhaustive program + schedule enumeration against a sequential reference"),
 "C11": (EX, "enumeration", "full product of read op x solution index x frame x address x key x operands x memory size x environment answer (the mock state's answer is an explored choice), recorder checks the exact request, memory compared word for word with the documented layout", "4 C11", "finite menus of keys/answers", "exhaustive enumeration of operands and environment answers against a layout reference"),
 "C12": (EX, "enumeration", "all solution sets/indices/operands from small domains for access ops; every byte length, tamper position and recovery id for crypto ops, against direct slicing / the hash and sign crates", "4 C12", "keys, digests, messages from fixed pools: structure exhausted, value spaces not", "bounded-exhaustive input enumeration against library oracles"),
 "C13": (EX, "enumeration", "all 256 bytes, all byte pairs, all ops x boundary immediates, all op sequences <=2(3), every truncation, every way of driving the serialiser's iterator (next / fold / nth), enum discriminants; compared with an independent reading of asm.yml and a pinned opcode table", "4 C13", "pinned table golden/opcodes.tsv taken at the pinned commit", "exhaustive byte/opcode enumeration against an independent spec reader"),
 "C14": (MC, "XPLORE", "differential execution of mapped bytecode vs op list over the C09/C10 program sets and the byte-string corpora", "4 C14", "both paths are real code; equality of final Vm, gas and error rendering", "stateless exhaustive program enumeration, differential oracle between two real paths"),
 "C15": (EX, "enumeration", "all programs <=2(3) symbols over all ops with immediates containing every effect opcode byte at every position x all 64 effect subsets, against an op-name derived effect table", "4 C15", "effect table derived from op names", "bounded-exhaustive program enumeration against a reference table"),
 "C16": (EX, "enumeration", "sizes {0,1,L-1,L,L+1} for every documented limit in combination; returned computed sets re-validated", "4 C16", "one carrier element holds the big size; C04-interaction masked", "boundary-exhaustive enumeration of limit combinations"),
 "C17": (EX, "enumeration", "all small predicates/contracts/solutions/sets x permutations x single-field perturbations x all pairs; independent encoder as oracle", "4 C17", "SHA-256 treated as injective; size bound", "bounded-exhaustive enumeration with an independent codec"),
 "C18": (EX, "enumeration", "round trips of every public type through wire, text and both serde formats over small structured domains and boundary words", "4 C18", "postcard/serde_json trusted as libraries", "bounded-exhaustive round-trip enumeration"),
 "C19": (EX, "enumeration", "4 keys x small contracts x permutations x every single-bit/byte tampering of content and signature x all recovery bytes", "4 C19", "key/contract pools; secp256k1 trusted", "bounded-exhaustive tamper enumeration"),
 "C20": (MC, "lockmc(loom+shuttle)", "the repository's lock source, token-rewritten onto loom/shuttle primitives at build time, explored exhaustively: 2..4 threads x 1..2 applies x 1..2 locks under loom (DPOR), 2..16 threads under shuttle with an own preemption-bounded DFS scheduler; lost/torn update, return value and deadlock oracles in every execution", "4 C20", "loom's and shuttle's Mutex model std::sync::Mutex; poisoning is documented behaviour", "exhaustive interleaving exploration (loom DPOR; shuttle + bounded DFS) of the real lock source"),
}

CLAIMED = ["C01", "C02", "C03", "C04", "C05", "C06", "C07", "C08", "C09", "C10", "C11", "C12", "C13", "C14", "C15", "C16", "C17", "C18", "C19", "C20"]

def main():
    head = subprocess.run(["git","-C","/repo","log","--format=%H %s"],capture_output=True,text=True).stdout.strip().splitlines()
    hooks = [l.split()[0] for l in head if l.split(" ",1)[1].startswith("verif hook")]
    checks=[]; na=[]
    for pid,(lvl,eng,text,ref,note,tech) in sorted(P.items()):
        if pid in CLAIMED:
            checks.append({
              "property_id": pid,
              "quick_cmd": f"./check {pid} quick",
              "thorough_cmd": f"./check {pid} thorough",
              "evidence_file": f"evidence/{pid}.json",
              "replay_cmd_template": f"./check {pid} --replay {{path}}",
              "engine": eng,
              "level_claimed": {"category": lvl, "text": text, "design_ref": "DESIGN.md section "+ref},
              "level_note": note,
              "technique": tech,
            })
        else:
            na.append({"property_id": pid, "reason": "check not yet built in this session (work in progress; the design in DESIGN.md section %s applies)" % ref})
    m = {
      "version": 1,
      "setup_cmd": "./check --setup",
      "hooks": {
        "guard": "essential_base_verif",
        "enable": "rustc --cfg essential_base_verif via [build] rustflags in /verif/harness/.cargo/config.toml",
        "baseline_off_cmd": "cd /repo && cargo nextest run --workspace --no-fail-fast --test-threads 8 --offline || cargo test --workspace --no-fail-fast --offline",
        "source_commits": hooks,
        "add_only": True,
      },
      "engines": [
        {"name":"XPLORE","path":"harness/vcheck/src/xplore.rs","serves_properties":["C01","C02","C03","C07","C09","C10","C11","C14"],"kind_free_text":"stateless deviation-bounded DFS over choice sequences (holes, environment answers, schedules) driving the real code"},
        {"name":"VMGRAPH","path":"harness/vcheck/src/props/vmgraph.rs","serves_properties":["C05","C08"],"kind_free_text":"stateright explicit-state BFS over real VM configurations, transition = real step_op"},
        {"name":"rayon-shim","path":"harness/rayon-shim","serves_properties":["C02","C10"],"kind_free_text":"controlled-scheduler stand-in for rayon; every parallel section asks an oracle"},
        {"name":"refmodel","path":"harness/vcheck/src/refvm.rs","serves_properties":["C05","C07","C08","C09","C10","C11","C12"],"kind_free_text":"boring reference interpreter / codecs / graph semantics"},
        {"name":"syncmc","path":"harness/syncmc","serves_properties":["C02"],"kind_free_text":"the rayon-shim/shuttle bounded DFS over a build in which essential-vm and essential-check come from a token-rewritten copy of /repo whose std::sync primitives are shuttle's (sync-operation granularity)"},
        {"name":"lockmc","path":"lockmc","serves_properties":["C20"],"kind_free_text":"loom + shuttle harness around the token-rewritten real lock source"},
      ],
      "checks": checks,
      "not_applicable": na,
      "notes": "All checks rebuild the harness against /repo's working tree (path dependencies). Exit 2 = machinery failure, never a verdict. Quick tiers take 0.5-35 s each after the build (16 cores); thorough tiers 1 s - 30 min, C05 about 70 min (its 2.6 h configuration: VCHECK_C05_DEEP=1).",
    }
    json.dump(m, open(os.path.join(ROOT,"MANIFEST.json"),"w"), indent=1)
    print("claimed", len(checks), "n/a", len(na))
if __name__=="__main__": main()
