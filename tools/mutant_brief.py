#!/usr/bin/env python3
"""Prints the brief for an independent mutation agent: property text + scratch worktree only."""
import json, sys
pid = sys.argv[1]
n = sys.argv[2] if len(sys.argv) > 2 else "a"
for l in open('/verif/properties.jsonl'):
    p = json.loads(l)
    if p['id'] == pid:
        break
wt = f"/tmp/mut-{pid.lower()}{n}"
import glob
prev = []
for d in sorted(glob.glob(f"/verif/seeded/ag*-{pid.lower()}-m*")):
    try:
        prev.append("- " + json.load(open(d + "/meta.json"))["what"][:260].replace("\n", " "))
    except Exception:
        pass
nmut = sys.argv[3] if len(sys.argv) > 3 else "THREE"
PREV = ""
if prev and n != "a":
    PREV = "\n## Already tried by earlier rounds (do NOT repeat these ideas or close variations; find different mechanisms and different code locations)\n" + "\n".join(prev) + "\n"
print(f"""You are testing how robust a code base is against subtle regressions. You get ONE semantic property of the Rust project `essential-base` (crates for the Essential intent protocol: a YAML-specified assembly with generated codecs, a stack-based bytecode VM, hashing/signing helpers, and a solution / predicate-graph checker) and your own scratch git worktree of it. Your job: craft up to {nmut} different, realistic source changes ("mutants"), each of which **breaks the property** while the project **still compiles and its existing test suite still passes**, and for each a small demonstration (a Rust test or tiny program) that fails with the change and passes without it.

## Your workspace
Create your private worktree first (work ONLY inside it; never edit /repo itself, never look at or touch /verif):
```
git -C /repo worktree add --detach {wt} HEAD
cd {wt}
```
No network: always use `cargo ... --offline`. The existing suite is `cargo nextest run --workspace --no-fail-fast --offline` (246 tests; fallback `cargo test --workspace --offline`). The shell prints a harmless conda WARNING on every command; ignore it.

## The property ({p['id']}: {p['title']})
Statement: {p['statement']}
It must hold for: {p['quantifier']['text']}
Why the existing tests cannot settle it: {p['why_tests_cant']}
Code it is anchored in: {', '.join(p['anchors']['files'])}
Mechanisms: {'; '.join(m['name'] + ' (' + m.get('where','') + ')' for m in p['anchors'].get('mechanism', []))}

{PREV}
## What makes a good mutant
- It is the kind of change a developer could plausibly make (a refactor, an "optimisation", an off-by-one, a changed iteration order, a hoisted buffer, a missing/extra clone, a reordered check, swapped arguments, a cached value that goes stale, a boundary `<` vs `<=`, two cooperating sites that each look fine alone) — not sabotage that any use would expose at once, not a change of documented constants, not deleting a feature.
- It needs **something specific to manifest**: a particular interleaving / completion order of parallel tasks, a particular multi-step sequence of operations, an unusual input shape (boundary value, non-topological numbering, empty/duplicate element, value near a limit), or two sites acting together. Ordinary use and the existing tests must not notice it.
- It really violates the statement above (say which clause), observable through the project's public API.
- The three mutants should differ in mechanism and location, not be variations of one idea.

## Deliverables — for each mutant i = 1..3, a directory `{wt}-out/m<i>/` containing
1. `patch.diff` — `git diff` of the change against HEAD (apply cleanly with `git apply` on a clean checkout of HEAD).
2. `demo.rs` (or `demo/` cargo project, or a `#[test]` file with instructions) — the demonstration: state exactly where to put it / how to run it (e.g. "copy to crates/check/tests/demo.rs and run cargo test -p essential-check --test demo --offline"). It must FAIL (assertion failure) with the patch applied and PASS on unmodified HEAD. Verify both yourself.
3. `meta.json` — {{"property": "{p['id']}", "clause_broken": "...", "what": "one-paragraph description of the change", "needs_to_manifest": "what specific input / schedule / sequence is needed", "suite_result_with_patch": "e.g. 246 passed", "demo_fails_with_patch": true, "demo_passes_without": true, "how_to_run_demo": "..."}}.
Before writing `meta.json` you must have actually run, with the patch applied: a full build, the full existing suite (all pass), and the demo (fails); and without the patch: the demo (passes). Do not include the demo file in `patch.diff`.
If after honest effort you can only produce one or two mutants, deliver those. In your final message list the mutants (one line each) and paste the three `meta.json` contents.

## Clean-up
When done: `cd / && git -C /repo worktree remove --force {wt}` (this also deletes its build output). Leave `{wt}-out/` in place.
""")
